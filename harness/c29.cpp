// C29: number comparisons agree with numeric order.
// Op line:  <rel> <a> <b>    rel in eq ne lt le gt ge  (constructor on two numbers)
//                            or  seq sne slt sle sgt sge (constructor on symbols x, y, then subs {x: a, y: b})
// value tokens: i<int> | r<num>/<den> | d<16 hex> | oo | -oo   (real kinds)  and  c.. | z.. | zoo | nan (guard cases)
// output: T | F | E:<exc>
// oracle: exact comparison of the two values as rationals (a finite double is an exact rational) extended by +-oo.
#include "common.h"
#include <symengine/basic.h>
#include <symengine/integer.h>
#include <symengine/rational.h>
#include <symengine/complex.h>
#include <symengine/real_double.h>
#include <symengine/complex_double.h>
#include <symengine/infinity.h>
#include <symengine/nan.h>
#include <symengine/constants.h>
#include <symengine/logic.h>
#include <symengine/symbol.h>
#include <symengine/subs.h>
#include <cmath>
#include <complex>

using namespace SymEngine;
typedef RCP<const Number> Num;

// ---------------------------------------------------------------- value syntax (shared text with c05.cpp / c29.cpp)
static std::string hex16(double d)
{
    if (std::isnan(d))
        return "nan";
    uint64_t u;
    memcpy(&u, &d, 8);
    char buf[20];
    snprintf(buf, sizeof buf, "%016llx", (unsigned long long)u);
    return buf;
}
static double from_hex(const std::string &s)
{
    uint64_t u = strtoull(s.c_str(), nullptr, 16);
    double d;
    memcpy(&d, &u, 8);
    return d;
}
static integer_class zint(const std::string &s)
{
    integer_class z;
    mpz_set_str(get_mpz_t(z), s.c_str(), 10);
    return z;
}
static Num parse_q(const std::string &s)
{
    auto p = split(s, '/');
    return Rational::from_two_ints(*integer(zint(p[0])), *integer(zint(p.size() > 1 ? p[1] : "1")));
}
static Num parse_num(const std::string &t)
{
    if (t == "oo")
        return Inf;
    if (t == "-oo")
        return NegInf;
    if (t == "zoo")
        return ComplexInf;
    if (t == "nan")
        return Nan;
    std::string r = t.substr(1);
    switch (t[0]) {
        case 'i':
            return integer(zint(r));
        case 'r':
            return parse_q(r);
        case 'c': {
            auto p = split(r, ',');
            return Complex::from_two_nums(*parse_q(p[0]), *parse_q(p[1]));
        }
        case 'd':
            return real_double(from_hex(r));
        case 'z': {
            auto p = split(r, ',');
            return complex_double(std::complex<double>(from_hex(p[0]), from_hex(p[1])));
        }
    }
    throw std::runtime_error("bad value token " + t);
}
static std::string zstr(const integer_class &z)
{
    char *c = mpz_get_str(nullptr, 10, get_mpz_t(z));
    std::string s(c);
    free(c);
    return s;
}
static std::string qstr(const rational_class &q)
{
    return zstr(get_num(q)) + "/" + zstr(get_den(q));
}
static std::string dump(const Basic &b)
{
    if (is_a<Integer>(b))
        return "I:" + zstr(down_cast<const Integer &>(b).as_integer_class());
    if (is_a<Rational>(b))
        return "Q:" + qstr(down_cast<const Rational &>(b).as_rational_class());
    if (is_a<Complex>(b)) {
        const Complex &c = down_cast<const Complex &>(b);
        return "C:" + qstr(c.real_) + "," + qstr(c.imaginary_);
    }
    if (is_a<RealDouble>(b))
        return "D:" + hex16(down_cast<const RealDouble &>(b).i);
    if (is_a<ComplexDouble>(b)) {
        auto z = down_cast<const ComplexDouble &>(b).i;
        return "Z:" + hex16(z.real()) + "," + hex16(z.imag());
    }
    if (is_a<Infty>(b)) {
        const Infty &f = down_cast<const Infty &>(b);
        RCP<const Number> d = f.get_direction();
        if (is_a<Integer>(*d)) {
            if (d->is_one())
                return "oo";
            if (d->is_minus_one())
                return "-oo";
            if (d->is_zero())
                return "zoo";
        }
        return "INFTY-NONCANONICAL(" + dump(*d) + ")";
    }
    if (is_a<NaN>(b))
        return "nan";
    return "OTHER(" + b.__str__() + ")";
}


static void fail(std::string &oracle, const std::string &key, const std::string &d)
{
    if (oracle == "ok")
        oracle = "FAIL:" + key + ":" + d;
}

// exact extended-real value: inf = -1 / 0 / +1 ; q used when inf == 0
struct XV {
    int inf;
    rational_class q;
    bool real;       // a real number (exact, finite double, +-oo)
    bool conv_exact; // for exact kinds: mpz_get_d / mpq_get_d is exact (value representable in binary64)
    bool is_float;
};
static XV xv_of_token(const std::string &t)
{
    XV v;
    v.inf = 0;
    v.q = 0;
    v.real = true;
    v.conv_exact = true;
    v.is_float = false;
    if (t == "oo") {
        v.inf = 1;
        return v;
    }
    if (t == "-oo") {
        v.inf = -1;
        return v;
    }
    std::string r = t.substr(1);
    if (t[0] == 'i' or t[0] == 'r') {
        auto p = split(r, '/');
        rational_class q(zint(p[0]), zint(p.size() > 1 ? p[1] : "1"));
        canonicalize(q);
        v.q = q;
        double d = mpq_get_d(get_mpq_t(q));
        rational_class back;
        if (std::isfinite(d)) {
            mpq_set_d(back.get_mpq_t(), d);
            v.conv_exact = (back == q);
        } else
            v.conv_exact = false;
        return v;
    }
    if (t[0] == 'd') {
        double d = from_hex(r);
        v.is_float = true;
        if (!std::isfinite(d)) {
            v.real = false; // inf / nan doubles are outside the property's universe
            return v;
        }
        mpq_set_d(v.q.get_mpq_t(), d);
        return v;
    }
    v.real = false;
    return v;
}
static int xcmp(const XV &a, const XV &b)
{
    if (a.inf or b.inf)
        return a.inf < b.inf ? -1 : (a.inf > b.inf ? 1 : 0);
    return a.q < b.q ? -1 : (a.q > b.q ? 1 : 0);
}

static RCP<const Boolean> build(const std::string &rel, const RCP<const Basic> &a, const RCP<const Basic> &b)
{
    if (rel == "eq")
        return Eq(a, b);
    if (rel == "ne")
        return Ne(a, b);
    if (rel == "lt")
        return Lt(a, b);
    if (rel == "le")
        return Le(a, b);
    if (rel == "gt")
        return Gt(a, b);
    if (rel == "ge")
        return Ge(a, b);
    throw std::runtime_error("bad rel " + rel);
}
static std::string tv(const RCP<const Basic> &r)
{
    if (is_a<BooleanAtom>(*r))
        return down_cast<const BooleanAtom &>(*r).get_val() ? "T" : "F";
    return "SYMBOLIC(" + r->__str__() + ")";
}
static std::string run_rel(const std::string &rel0, const std::string &ta, const std::string &tb, std::string &oracle)
{
    try {
        Num a = parse_num(ta), b = parse_num(tb);
        if (rel0[0] == 's' and rel0.size() == 3) {
            RCP<const Basic> x = symbol("x"), y = symbol("y");
            RCP<const Basic> r = build(rel0.substr(1), x, y);
            map_basic_basic d;
            d[x] = a;
            d[y] = b;
            return tv(r->subs(d));
        }
        return tv(build(rel0, a, b));
    } catch (const VerifAssertError &e) {
        fail(oracle, "assert", rel0 + "(" + ta + "," + tb + "): " + e.what());
        return "E:Assert";
    } catch (const std::exception &e) {
        return exc_name(e);
    }
}

std::string hx_run(const std::string &line, std::string &oracle)
{
    auto w = split(line, ' ');
    if (w.size() != 3)
        return "bad-op";
    const std::string &rel0 = w[0];
    bool viasubs = rel0[0] == 's' and rel0.size() == 3;
    std::string rel = viasubs ? rel0.substr(1) : rel0;
    std::string out = run_rel(rel0, w[1], w[2], oracle);
    stat("op_" + rel0);
    XV a = xv_of_token(w[1]), b = xv_of_token(w[2]);
    std::string ctx = rel0 + "(" + w[1] + "," + w[2] + ")=" + out;

    if (rel == "eq" or rel == "ne") {
        // symmetric, and negations of each other (all kinds, also the non-real ones)
        std::string rev = run_rel(rel0, w[2], w[1], oracle);
        if (rev != out)
            fail(oracle, "eq-symm", ctx + " but swapped operands give " + rev);
        std::string other = run_rel(std::string(viasubs ? "s" : "") + (rel == "eq" ? "ne" : "eq"), w[1], w[2], oracle);
        bool neg = (out == "T" and other == "F") or (out == "F" and other == "T");
        if (!neg)
            fail(oracle, "eq-ne", ctx + " while the opposite relation gives " + other);
        stat("checked_eq_ne");
        // equal values of the same kind are Eq; different values are never Eq
        if (a.real and b.real and out[0] != 'E') {
            bool same = xcmp(a, b) == 0;
            bool isEq = (rel == "eq") == (out == "T");
            if (isEq and !same)
                fail(oracle, "eq-value", ctx + " but the values differ");
            if (!isEq and same and a.is_float == b.is_float)
                fail(oracle, "eq-value", ctx + " but the values are equal and of the same exactness");
            stat("checked_eq_value");
        }
        return out;
    }
    if (!a.real or !b.real) {
        stat("nonreal_operand");
        return out;
    }
    // mixed exact/float comparisons go through mpz_get_d / mpq_get_d: only exactly representable
    // exact operands are inside the property's universe
    if (a.is_float != b.is_float and !(a.conv_exact and b.conv_exact)) {
        stat("skipped_inexact_conversion");
        return out;
    }
    int c = xcmp(a, b);
    bool exp = rel == "lt" ? c < 0 : rel == "le" ? c <= 0 : rel == "gt" ? c > 0 : c >= 0;
    if (out != (exp ? "T" : "F"))
        fail(oracle, "order", ctx + " expected " + (exp ? "T" : "F"));
    stat("checked_order");
    if (c == 0 and w[1][0] != w[2][0])
        stat("checked_equal_value_different_kind");
    // Le(a,b) = not Lt(b,a) ; Ge(a,b) = Le(b,a)
    if (rel == "le") {
        std::string lt = run_rel(viasubs ? "slt" : "lt", w[2], w[1], oracle);
        if (!((out == "T" and lt == "F") or (out == "F" and lt == "T")))
            fail(oracle, "le-not-lt", ctx + " while Lt of the swapped operands gives " + lt);
        stat("checked_le_not_lt");
    }
    if (rel == "ge") {
        std::string le = run_rel(viasubs ? "sle" : "le", w[2], w[1], oracle);
        if (le != out)
            fail(oracle, "ge-le", ctx + " while Le of the swapped operands gives " + le);
        stat("checked_ge_le");
    }
    return out;
}

// ---------------------------------------------------------------- generation
static std::string dtok(double d)
{
    uint64_t u;
    memcpy(&u, &d, 8);
    char buf[24];
    snprintf(buf, sizeof buf, "d%016llx", (unsigned long long)u);
    return buf;
}
static const char *RELS[] = {"eq", "ne", "lt", "le", "gt", "ge"};

static std::string rand_int(Rng &r, int maxbits)
{
    int bits = 1 + (int)r.below(maxbits);
    integer_class z = 0;
    for (int i = 0; i < bits; i += 32)
        z = z * integer_class(4294967296UL) + integer_class((unsigned long)(r.next() & 0xffffffffULL));
    integer_class m = 1;
    mpz_mul_2exp(get_mpz_t(m), get_mpz_t(m), bits);
    mpz_mod(get_mpz_t(z), get_mpz_t(z), get_mpz_t(m));
    if (r.coin())
        z = -z;
    return zstr(z);
}
static std::string rand_q(Rng &r, int maxbits)
{
    std::string n = rand_int(r, maxbits), d = rand_int(r, maxbits);
    if (d[0] == '-')
        d = d.substr(1);
    if (d == "0")
        d = "1";
    rational_class q(zint(n), zint(d));
    canonicalize(q);
    return qstr(q);
}
static std::string rand_real(Rng &r)
{
    switch (r.below(8)) {
        case 0:
            return "i" + std::to_string(r.range(-5, 5));
        case 1:
            return "i" + rand_int(r, r.coin() ? 52 : 300);
        case 2: { // dyadic rational: exactly representable
            long n = r.range(-4000, 4000);
            return "r" + std::to_string(n) + "/" + std::to_string(1L << r.below(12));
        }
        case 3:
            return "r" + rand_q(r, r.coin() ? 6 : 120);
        case 4: // small dyadic double: collides with the exact values above
            return dtok((double)r.range(-4000, 4000) / (double)(1L << r.below(12)));
        case 5: { // arbitrary finite double
            uint64_t u = r.next();
            if (((u >> 52) & 0x7ff) == 0x7ff)
                u &= ~(1ULL << 62);
            double d;
            memcpy(&d, &u, 8);
            return dtok(d);
        }
        case 6:
            return dtok((double)r.range(-5, 5));
        default:
            return r.coin() ? "oo" : "-oo";
    }
}

void hx_gen(Rng &r, const std::string &tier)
{
    bool th = tier == "thorough";
    std::vector<std::string> U = {// integers
                                  "i0", "i1", "i-1", "i2", "i-2", "i3", "i9007199254740992", "i9007199254740993",
                                  "i18446744073709551617", "i-1180591620717411303427",
                                  // rationals (dyadic ones are exactly representable as doubles)
                                  "r1/2", "r-1/2", "r3/4", "r-5/2", "r1/3", "r-7/3", "r36893488147419103233/5",
                                  // infinities
                                  "oo", "-oo"};
    const double ds[] = {0.0, -0.0, 1.0, -1.0, 2.0, 0.5, -0.5, 0.75, -2.5, 3.0, 0.1, 1e300, -1e300,
                         5e-324, 9007199254740992.0, 1.8446744073709552e19, 0.3333333333333333};
    for (double d : ds)
        U.push_back(dtok(d));
    std::vector<std::string> G = {"c0/1,1/1", "c1/2,-3/4", "zoo", "nan", dtok(INFINITY), dtok(-INFINITY), dtok(NAN),
                                  "z3ff0000000000000,4000000000000000"};
    for (auto &a : U)
        for (auto &b : U)
            for (auto rel : RELS) {
                std::string tag = std::string("table-") + (a[0] == '-' ? 'o' : a[0]) + "x" + (b[0] == '-' ? 'o' : b[0]);
                emit(std::string(rel) + " " + a + " " + b, tag);
                emit(std::string("s") + rel + " " + a + " " + b, "subs-" + tag);
            }
    // guard cases: complex / zoo / nan operands throw for the order relations, Eq/Ne stay total
    std::vector<std::string> UG = U;
    UG.insert(UG.end(), G.begin(), G.end());
    for (auto &g : G)
        for (auto &b : UG)
            for (auto rel : RELS) {
                emit(std::string(rel) + " " + g + " " + b, "guard");
                emit(std::string(rel) + " " + b + " " + g, "guard");
            }
    int n = th ? 60000 : 6000;
    for (int i = 0; i < n; i++) {
        std::string a = rand_real(r), b = r.coin(1, 6) ? a : rand_real(r);
        std::string rel = RELS[r.below(6)];
        if (r.coin(1, 4))
            rel = "s" + rel;
        emit(rel + " " + a + " " + b, std::string("random-") + (a[0] == '-' ? 'o' : a[0]) + "x" + (b[0] == '-' ? 'o' : b[0]));
    }
}
