// C35: refine and simplify preserve value under their assumptions.
//
//   refine   (A <statement>...) <expr>   ->  dump of refine(expr, &assumptions)
//   simplify (A <statement>...) <expr>   ->  dump of simplify(expr, &assumptions)
//
// Oracle (independent of the Lean model): the expression and the returned expression are evaluated at
// assignments that satisfy the statements (values chosen per symbol from a pool of rationals and Gaussian
// rationals; admitted when the library's own relational / set code evaluates every statement to true after
// substitution).  Exact results (Integer/Rational/Complex after subs + expand) must be equal; otherwise both
// sides are evaluated with eval_complex_double and must agree to 1e-9 relative.  Points where the input has no
// finite value are skipped.  FAIL:<op>_value:... names the assignment and the two values.
#include "common.h"
#include "sexp.h"
#include "exprgen.h"
#include <symengine/test_visitors.h>
#include <symengine/assumptions.h>
#include <symengine/refine.h>
#include <symengine/simplify.h>
#include <symengine/visitor.h>
#include <symengine/eval_double.h>
#include <symengine/sets.h>
#include <complex>
#include <cmath>

using namespace SymEngine;

// ------------------------------------------------------------------ oracle
struct Val {
    enum Kind { EXACT, UNDEF, APPROX, NONE } kind = NONE;
    RCP<const Basic> exact;
    std::complex<double> z;
};

static Val eval_at(const RCP<const Basic> &e, const map_basic_basic &m)
{
    Val v;
    RCP<const Basic> r;
    try {
        r = expand(e->subs(m));
    } catch (const std::exception &) {
        return v;
    }
    if (is_a<Integer>(*r) || is_a<Rational>(*r) || is_a<Complex>(*r)) {
        v.kind = Val::EXACT;
        v.exact = r;
        return v;
    }
    if (is_a<Infty>(*r) || is_a<NaN>(*r)) {
        v.kind = Val::UNDEF;
        return v;
    }
    try {
        std::complex<double> z = eval_complex_double(*r);
        if (std::isnan(z.real()) || std::isnan(z.imag()) || std::isinf(z.real()) || std::isinf(z.imag())) {
            v.kind = Val::UNDEF;
            return v;
        }
        if (std::abs(z) > 1e12)
            return v;
        v.kind = Val::APPROX;
        v.z = z;
    } catch (const std::exception &) {
    }
    return v;
}

static std::complex<double> as_complex(const Val &v)
{
    if (v.kind == Val::APPROX)
        return v.z;
    return eval_complex_double(*v.exact);
}

static std::vector<RCP<const Number>> value_pool()
{
    static const int nums[][2] = {{0, 1},  {1, 1},  {-1, 1}, {2, 1},  {-2, 1}, {3, 1},  {-3, 1}, {1, 2}, {-1, 2},
                                  {3, 2},  {-3, 2}, {1, 3},  {-2, 3}, {5, 1},  {-5, 1}, {7, 2},  {-7, 2}, {4, 1},
                                  {-4, 1}, {6, 1},  {5, 2},  {-5, 2}, {1, 4},  {-1, 4}, {8, 1},  {-8, 1},
                                  // magnitudes beyond e**pi = 23.1 and below e**-pi: Im(k)*log(x) leaves (-pi, pi], which
                                  // is where (x**k)**n and x**(k*n) part for a non-real k
                                  {30, 1}, {100, 1}, {-30, 1}, {1, 30}, {1, 100}};
    std::vector<RCP<const Number>> v;
    for (auto &p : nums)
        v.push_back(Rational::from_two_ints(*integer(p[0]), *integer(p[1])));
    v.push_back(Complex::from_two_nums(*integer(0), *integer(1)));
    v.push_back(Complex::from_two_nums(*integer(1), *integer(1)));
    v.push_back(Complex::from_two_nums(*integer(-2), *integer(-1)));
    v.push_back(Complex::from_mpq(rational_class(1, 2), rational_class(-3, 2)));
    return v;
}

static bool admits(const vec_basic &stmts, const RCP<const Basic> &sym, const RCP<const Number> &val)
{
    map_basic_basic m;
    m[sym] = val;
    for (auto &s : stmts) {
        set_basic fs = free_symbols(*s);
        if (fs.size() != 1 || !eq(**fs.begin(), *sym))
            continue;
        RCP<const Basic> r;
        try {
            r = s->subs(m);
        } catch (const std::exception &) {
            return false;
        }
        if (!eq(*r, *boolTrue))
            return false;
    }
    return true;
}

static uint64_t fnv(const std::string &s)
{
    uint64_t h = 1469598103934665603ULL;
    for (unsigned char c : s) {
        h ^= c;
        h *= 1099511628211ULL;
    }
    return h;
}

static void run_oracle(const std::string &cmd, const RCP<const Basic> &e, const RCP<const Basic> &res,
                       const vec_basic &stmts, const std::string &line, std::string &oracle)
{
    if (is_a_Set(*e) || is_a_Boolean(*e))
        return;
    if (eq(*e, *res)) {
        stat("result-unchanged");
        return;
    }
    stat("result-changed");
    set_basic syms = free_symbols(*e);
    set_basic s2 = free_symbols(*res);
    syms.insert(s2.begin(), s2.end());
    for (auto &s : stmts) {
        set_basic fs = free_symbols(*s);
        syms.insert(fs.begin(), fs.end());
    }
    std::vector<RCP<const Basic>> symv(syms.begin(), syms.end());
    std::sort(symv.begin(), symv.end(),
              [](const RCP<const Basic> &a, const RCP<const Basic> &b) { return a->__str__() < b->__str__(); });
    std::vector<std::vector<RCP<const Number>>> cands;
    for (auto &s : symv) {
        std::vector<RCP<const Number>> ok;
        for (auto &v : value_pool())
            if (admits(stmts, s, v))
                ok.push_back(v);
        if (ok.empty()) {
            stat("oracle-no-admissible-value");
            return;
        }
        cands.push_back(ok);
    }
    Rng r(fnv(line));
    int ntry = symv.empty() ? 1 : 24, tested = 0;
    for (int t = 0; t < ntry; t++) {
        map_basic_basic m;
        std::string desc;
        bool all_real = true;
        for (size_t i = 0; i < symv.size(); i++) {
            const auto &c = cands[i];
            RCP<const Number> v = t == 0 ? c[0] : t < 4 ? c[(t * 5 + i) % c.size()] : c[r.below(c.size())];
            if (t >= 4 && t <= 7) {
                // rounds 4-7: the largest, second largest, smallest positive and most negative admissible real value
                std::vector<std::pair<double, size_t>> reals;
                for (size_t j = 0; j < c.size(); j++)
                    if (!is_a<Complex>(*c[j]))
                        reals.push_back({eval_double(*c[j]), j});
                std::sort(reals.begin(), reals.end());
                if (!reals.empty()) {
                    size_t n = reals.size();
                    if (t == 4)
                        v = c[reals[n - 1].second];
                    else if (t == 5)
                        v = c[reals[n >= 2 ? n - 2 : 0].second];
                    else if (t == 6) {
                        size_t j = 0;
                        while (j + 1 < n && reals[j].first <= 0)
                            j++;
                        v = c[reals[j].second];
                    } else
                        v = c[reals[0].second];
                }
            }
            if (is_a<Complex>(*v))
                all_real = false;
            m[symv[i]] = v;
            desc += (i ? "," : "") + symv[i]->__str__() + "=" + v->__str__();
        }
        Val ve = eval_at(e, m);
        if (ve.kind == Val::NONE || ve.kind == Val::UNDEF) {
            stat("oracle-point-input-undefined");
            continue;
        }
        Val vr = eval_at(res, m);
        if (vr.kind == Val::NONE) {
            stat("oracle-point-result-not-evaluable");
            continue;
        }
        bool bad = false;
        std::string got;
        if (vr.kind == Val::UNDEF) {
            bad = true;
            got = "undefined";
        } else if (ve.kind == Val::EXACT && vr.kind == Val::EXACT) {
            bad = !eq(*ve.exact, *vr.exact);
            got = vr.exact->__str__();
        } else {
            std::complex<double> a, b;
            try {
                a = as_complex(ve);
                b = as_complex(vr);
            } catch (const std::exception &) {
                continue;
            }
            bad = std::abs(a - b) > 1e-9 * std::max(1.0, std::abs(a));
            if (bad && all_real && std::abs(a - std::conj(b)) <= 1e-9 * std::max(1.0, std::abs(a))) {
                // all sample values are real and the two values are complex conjugates: a logarithm / fractional
                // power was evaluated exactly on its branch cut and the sign of a rounding-error-sized imaginary
                // part decided the side (e.g. log(x*pi/sec(y)) vs log(x*pi*cos(y)) at a negative argument)
                stat("oracle-point-on-branch-cut");
                continue;
            }
            got = tostr(b.real()) + (std::fabs(b.imag()) > 1e-12 ? "+" + tostr(b.imag()) + "i" : "");
        }
        tested++;
        if (bad) {
            std::string want = ve.kind == Val::EXACT
                                   ? ve.exact->__str__()
                                   : tostr(ve.z.real())
                                         + (std::fabs(ve.z.imag()) > 1e-12 ? "+" + tostr(ve.z.imag()) + "i" : "");
            oracle = "FAIL:" + cmd + "_value:" + cmd + "(" + e->__str__() + ") = " + res->__str__() + " but at " + desc
                     + " the input is " + want + " and the result is " + got;
            return;
        }
    }
    stat(tested ? "oracle-checked-ops" : "oracle-no-testable-point");
    stat("oracle-points-tested", tested);
}

// ------------------------------------------------------------------ run
std::string hx_run(const std::string &line, std::string &oracle)
{
    std::vector<vsexp::Node> nodes = vsexp::parse_all(line);
    if (nodes.size() == 3 && (nodes[0].atom == "refine" || nodes[0].atom == "simplify")) {
        const std::string cmd = nodes[0].atom;
        vec_basic stmts;
        for (size_t k = 1; k < nodes[1].kids.size(); k++)
            stmts.push_back(vsexp::build(nodes[1].kids[k]));
        RCP<const Basic> e = vsexp::build(nodes[2]);
        set_basic sset(stmts.begin(), stmts.end());
        Assumptions a(sset);
        RCP<const Basic> res = cmd == "refine" ? refine(e, &a) : simplify(e, &a);
        stat("op-" + cmd);
        run_oracle(cmd, e, res, stmts, line, oracle);
        return vsexp::dump(*res);
    }
    throw std::runtime_error("bad op");
}

// ------------------------------------------------------------------ gen
static RCP<const Basic> S(int i)
{
    return vgen::sym(i);
}

static void rand_facts(Rng &r, int i, vec_basic &out)
{
    RCP<const Basic> x = S(i);
    switch (r.below(6)) {
        case 0:
            break;
        case 1:
            out.push_back(complexes()->contains(x));
            break;
        case 2:
        case 3:
            out.push_back(reals()->contains(x));
            break;
        case 4:
            out.push_back(rationals()->contains(x));
            break;
        default:
            out.push_back(integers()->contains(x));
            break;
    }
    RCP<const Number> z = integer(0);
    switch (r.below(12)) {
        case 0:
        case 1:
            break;
        case 2:
        case 3:
            out.push_back(Gt(x, z));
            break;
        case 4:
        case 5:
            out.push_back(Lt(x, z));
            break;
        case 6:
            out.push_back(Ge(x, z));
            break;
        case 7:
            out.push_back(Le(x, z));
            break;
        case 8:
            out.push_back(Eq(x, z));
            break;
        case 9:
            out.push_back(Ne(x, z));
            break;
        case 10:
            out.push_back(Gt(x, integer(1)));
            break;
        default:
            out.push_back(Lt(x, Rational::from_two_ints(*integer(-1), *integer(2))));
            break;
    }
}

static std::string dump_stmts(const vec_basic &v)
{
    std::vector<std::string> d;
    for (auto &s : v)
        d.push_back(vsexp::dump(*s));
    std::sort(d.begin(), d.end());
    d.erase(std::unique(d.begin(), d.end()), d.end());
    std::string o = "(A";
    for (auto &s : d)
        o += " " + s;
    return o + ")";
}

static RCP<const Basic> leaf(Rng &r)
{
    unsigned k = r.below(12);
    if (k < 8)
        return S((int)r.below(3));
    if (k < 9)
        return pi; // E is left out: log(E) evaluates to 1 inside results, which the comparator of drv_c35 cannot see
    if (k < 11)
        return integer(r.range(-5, 6));
    return Rational::from_two_ints(*integer(r.range(-5, 5)), *integer(r.range(2, 4)));
}

// a symbol or pi: bases of (nested) powers and of logarithms are kept non-numeric, because the library merges
// numeric radicals (6**(1/2) * 6**(-1/4)) and expands logarithms of rationals while rebuilding
static RCP<const Basic> symleaf(Rng &r)
{
    return r.coin(1, 8) ? rcp_static_cast<const Basic>(pi) : S((int)r.below(3));
}

static RCP<const Number> coef(Rng &r)
{
    if (r.coin(1, 4))
        return Rational::from_two_ints(*integer(r.range(-5, 5)), *integer(r.range(2, 4)));
    long c = r.range(-4, 4);
    return integer(c == 0 ? 2 : c);
}

// arithmetic without refinable nodes
static RCP<const Basic> arith(Rng &r)
{
    switch (r.below(7)) {
        case 0:
        case 1:
            return leaf(r);
        case 2:
            return mul(coef(r), leaf(r));
        case 3:
            return add(mul(coef(r), leaf(r)), mul(coef(r), leaf(r)));
        case 4:
            return add(mul(coef(r), leaf(r)), coef(r));
        case 5:
            return mul(leaf(r), leaf(r));
        default:
            return pow(leaf(r), integer(r.range(2, 3)));
    }
}

// (x**k)**n with a non-real or symbolic inner exponent k and a non-integer outer exponent n.  The Pow-of-Pow rule
// must leave these alone: for a non-real k the two sides differ as soon as Im(k)*log(x) leaves (-pi, pi]
// (x > e**pi = 23.1 for k = I), for a symbolic k at every non-real value of the symbol.
static RCP<const Basic> complex_nested_pow(Rng &r, int basesym)
{
    RCP<const Number> I_ = Complex::from_two_nums(*integer(0), *integer(1));
    RCP<const Basic> k;
    switch (r.below(8)) {
        case 0:
            k = I_;
            break;
        case 1:
            k = Complex::from_two_nums(*integer(1), *integer(1));
            break;
        case 2:
            k = Complex::from_mpq(rational_class(0), rational_class(1, 2));
            break;
        case 3:
            k = Complex::from_two_nums(*integer(0), *integer(r.coin() ? 2 : -1));
            break;
        case 4:
            k = Complex::from_two_nums(*integer(r.range(-2, 2)), *integer(r.range(1, 3)));
            break;
        case 5:
            k = S((basesym + 1) % 3);
            break;
        case 6:
            k = mul(I_, S((basesym + 1) % 3));
            break;
        default:
            k = add(S((basesym + 2) % 3), I_);
            break;
    }
    static const int outer[][2] = {{1, 2}, {1, 3}, {3, 2}, {-1, 2}, {2, 3}, {5, 2}, {-3, 4}, {1, 4}};
    auto &o = outer[r.below(8)];
    return pow(pow(S(basesym), k), Rational::from_two_ints(*integer(o[0]), *integer(o[1])));
}

// products / quotients that contain a trigonometric function and the reciprocal function of the same argument
// (all six ordered pairs), with powers and extra factors: SimplifyVisitor::bvisit(Mul) rewrites 1/csc(u) to sin(u)
// and has to merge it with a sin(u) that is already a factor
static RCP<const Basic> trig_pair_product(Rng &r)
{
    RCP<const Basic> u = r.coin(2, 3) ? rcp_static_cast<const Basic>(S((int)r.below(3))) : arith(r);
    if (is_a_Number(*u))
        u = S((int)r.below(3));
    unsigned pr = r.below(3);
    RCP<const Basic> f = pr == 0 ? sin(u) : pr == 1 ? cos(u) : tan(u);
    RCP<const Basic> g = pr == 0 ? csc(u) : pr == 1 ? sec(u) : cot(u);
    if (r.coin(1, 4))
        std::swap(f, g); // the other direction of the pair: g(u)**a / f(u)
    long a = r.range(1, 3);
    long b = r.coin(3, 4) ? -1 : r.range(-3, 2);
    if (b == 0)
        b = -1;
    vec_basic fac{pow(f, integer(a)), pow(g, integer(b))};
    unsigned extra = r.below(5);
    if (extra == 0)
        fac.push_back(coef(r));
    else if (extra == 1)
        fac.push_back(mul(coef(r), S((int)r.below(3))));
    else if (extra == 2)
        fac.push_back(pow(S((int)r.below(3)), integer(r.range(-2, 2) == 0 ? 2 : r.range(1, 2))));
    else if (extra == 3) {
        // a second reciprocal pair with another argument
        RCP<const Basic> w = S((int)r.below(3));
        fac.push_back(r.coin() ? cos(w) : sin(w));
        fac.push_back(pow(r.coin() ? sec(w) : csc(w), integer(-1)));
    }
    return mul(fac);
}

// one refinable / simplifiable piece
static RCP<const Basic> piece(Rng &r, int depth)
{
    RCP<const Basic> a = (depth > 0 && r.coin(1, 6)) ? piece(r, depth - 1) : arith(r);
    switch (r.below(16)) {
        case 0:
        case 1:
            return abs(a);
        case 2:
            return sign(a);
        case 3:
        case 4: {
            // no named constants below floor/ceiling: refine rewrites floor(-pi) to -ceiling(pi), which evaluates to -4
            if (vsexp::dump(*a).find("(k ") != std::string::npos)
                a = add(S((int)r.below(3)), coef(r));
            return r.coin() ? floor(a) : ceiling(a);
        }
        case 5:
            return conjugate(a);
        case 6: {
            vec_basic v;
            int n = 2 + (int)r.below(3);
            for (int i = 0; i < n; i++)
                v.push_back(r.coin(1, 3) ? arith(r) : leaf(r));
            return r.coin() ? max(v) : min(v);
        }
        case 7:
        case 8:
        case 9: {
            // nested powers
            // symbolic base: the library distributes a rational power over a product it has rebuilt
            RCP<const Basic> b = symleaf(r);
            RCP<const Basic> k, n;
            switch (r.below(4)) {
                case 0:
                    k = integer(2 * r.range(-2, 3));
                    break;
                case 1:
                    k = integer(2 * r.range(-2, 2) + 1);
                    break;
                case 2:
                    k = Rational::from_two_ints(*integer(r.range(-5, 5)), *integer(r.range(2, 3)));
                    break;
                default:
                    k = integer(r.range(-4, 6));
                    break;
            }
            if (r.coin(4, 5))
                n = Rational::from_two_ints(*integer(r.range(-5, 5)), *integer(r.range(2, 4)));
            else
                n = integer(r.range(-3, 3));
            return pow(pow(b, k), n);
        }
        case 10:
            return log(pow(r.coin(1, 5) ? rcp_static_cast<const Basic>(integer(r.range(2, 7))) : symleaf(r),
                           r.coin() ? leaf(r) : arith(r)));
        case 11:
            return log(integer(r.coin() ? r.range(2, 40) : (long)std::pow((double)r.range(2, 6), (double)r.range(2, 4))));
        case 12:
            return log(a);
        case 13: {
            // the argument is plain arithmetic: a refined argument would make the library rebuild csc(-1) = -csc(1)
            RCP<const Basic> t = arith(r);
            RCP<const Basic> f = r.below(3) == 0 ? csc(t) : r.coin() ? sec(t) : cot(t);
            return pow(f, integer(r.coin(3, 4) ? -1 : r.range(-3, 2)));
        }
        case 14: {
            RCP<const Basic> t = arith(r);
            RCP<const Basic> f = r.below(3) == 0 ? csc(t) : r.coin() ? sec(t) : cot(t);
            return mul({leaf(r), pow(f, integer(-1)), pow(leaf(r), integer(r.range(1, 2)))});
        }
        default:
            // an inert wrapper (function symbols are MultiArgFunctions: TransformVisitor rebuilds them)
            return function_symbol("f", r.coin() ? abs(a) : sign(a));
    }
}

void hx_gen(Rng &rng, const std::string &tier)
{
    bool thorough = tier == "thorough";
    int n = thorough ? 20000 : 3000;
    for (int i = 0; i < n; i++) {
        vec_basic stmts;
        RCP<const Basic> e;
        std::string tag, forced_cmd;
        try {
            for (int s = 0; s < 3; s++)
                if (rng.coin(5, 6))
                    rand_facts(rng, s, stmts);
            unsigned k = rng.below(100);
            if (k < 8) {
                // nested power with a non-real / symbolic inner exponent over a (mostly) positive symbol
                int bs = (int)rng.below(3);
                stmts.clear();
                for (int s = 0; s < 3; s++)
                    if (s != bs && rng.coin(2, 3))
                        rand_facts(rng, s, stmts);
                if (rng.coin(5, 6))
                    stmts.push_back(Gt(S(bs), integer(0)));
                else
                    stmts.push_back(reals()->contains(S(bs)));
                e = complex_nested_pow(rng, bs);
                unsigned ctx = rng.below(4);
                if (ctx == 0)
                    e = add(mul(coef(rng), e), arith(rng));
                else if (ctx == 1)
                    e = mul(e, add(arith(rng), integer(7)));
                tag = "nested-pow-complex-inner-exp";
            } else if (k < 16) {
                e = trig_pair_product(rng);
                if (rng.coin(1, 4))
                    e = add(e, arith(rng));
                tag = "trig-reciprocal-pair-product";
                forced_cmd = rng.coin(5, 6) ? "simplify" : "refine";
            } else if (k < 55) {
                e = piece(rng, 1);
                tag = "piece";
            } else if (k < 70) {
                e = add(mul(coef(rng), piece(rng, 0)), arith(rng));
                tag = "sum-context";
            } else if (k < 85) {
                // the other factor is a sum: powers of one symbol on both sides would be merged by the library
                e = mul(piece(rng, 0), add(arith(rng), integer(7)));
                tag = "product-context";
            } else if (k < 95) {
                e = add(piece(rng, 1), piece(rng, 1));
                tag = "sum-of-pieces";
            } else if (k < 98) {
                e = arith(rng);
                tag = "trivial-arith";
            } else {
                e = rng.coin() ? interval(NegInf, Inf, true, true) : interval(integer(0), Inf, false, true);
                tag = "interval";
            }
        } catch (const std::exception &) {
            continue;
        }
        std::string cmd = rng.coin(2, 3) ? "refine" : "simplify";
        if (!forced_cmd.empty())
            cmd = forced_cmd;
        std::string ed = vsexp::dump(*e);
        if (ed.find("(oo") != std::string::npos || ed.find("nan") != std::string::npos)
            continue; // a division by zero happened while building the input
        emit(cmd + " " + dump_stmts(stmts) + " " + vsexp::dump(*e), tag + "-" + cmd);
    }
}
