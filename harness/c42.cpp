// C42: the C API (cwrapper.cpp) and the Expression wrapper agree with the core C++ API.
//
// Op lines (self-contained, one per line):
//   capi  <c function> <arg> ...     one C API call and the corresponding C++ API call
//   capif <c function> <arg> ...     same, executed in a forked child (inputs that may kill the process)
//   vec  <op>;<op>;...               history on one CVecBasic      (push <e> | get <n> | set <n> <e> | erase <n> | size)
//   set  <op>;<op>;...               history on one CSetBasic      (insert <e> | find <e> | erase <e> | size | all)
//   map  <op>;<op>;...               history on one CMapBasicBasic (insert <k> <v> | get <k> | size)
//   vint <op>;<op>;...               history on one CVectorInt     (push <int> | get <n>)
//   expr <operator> <kinds> <a> [<b>]   Expression operator vs. core function
// Arguments: canonical S-expressions (harness/sexp.h), or  i:<long>  u:<ulong>  s:<string with ~ for space>.
//
// capi output:  c=<code|-|ESCAPE> ; out=<d> , <d> ; cpp=<ok|sym:<Class>:<code>|other:<what>> ; val=<d> , <d> ; old=<d> ; core=<fn>
// Oracle (independent of the Lean model): C success => result equal to the C++ result; C++ exception <=> non-zero
// code (and the code is the exception's code); an exception propagating out of a C function = FAIL:escape:<fn>.
#include "common.h"
#include "sexp.h"
#include <symengine/cwrapper.h>
#include <symengine/expression.h>
#include <symengine/ntheory.h>
#include <symengine/parser.h>
#include <symengine/eval.h>
#include <symengine/solve.h>
#include <symengine/matrix.h>
#include <symengine/visitor.h>
#include <symengine/derivative.h>
#include <symengine/subs.h>
#include <symengine/printers.h>
#include <symengine/lambda_double.h>
#include <functional>
#include <unistd.h>
#include <sys/wait.h>

using namespace SymEngine;
using vsexp::dump;
typedef std::vector<std::string> Strs;
typedef RCP<const Basic> B;

// the C `basic` handle stores exactly one RCP<const Basic> (static_assert'ed in cwrapper.cpp)
static B &rcp_of(basic_struct *s)
{
    return *reinterpret_cast<B *>(s);
}
static const char *OLD = "(s __old)";
struct Hb {
    basic b;
    Hb()
    {
        basic_new_stack(b);
        rcp_of(b) = symbol("__old");
    }
    explicit Hb(const B &x)
    {
        basic_new_stack(b);
        rcp_of(b) = x;
    }
    ~Hb()
    {
        basic_free_stack(b);
    }
    std::string d()
    {
        return dump(rcp_of(b));
    }
    Hb(const Hb &) = delete;
};
struct Hvec {
    CVecBasic *v;
    Hvec() : v(vecbasic_new()) {}
    explicit Hvec(const vec_basic &x) : v(vecbasic_new())
    {
        for (auto &e : x) {
            Hb h(e);
            vecbasic_push_back(v, h.b);
        }
    }
    ~Hvec()
    {
        vecbasic_free(v);
    }
    Strs ds()
    {
        Strs o;
        for (size_t i = 0; i < vecbasic_size(v); i++) {
            Hb h;
            vecbasic_get(v, i, h.b);
            o.push_back(h.d());
        }
        return o;
    }
};
struct Hset {
    CSetBasic *s;
    Hset() : s(setbasic_new()) {}
    explicit Hset(const vec_basic &x) : s(setbasic_new())
    {
        for (auto &e : x) {
            Hb h(e);
            setbasic_insert(s, h.b);
        }
    }
    ~Hset()
    {
        setbasic_free(s);
    }
    Strs ds() // sorted dumps
    {
        Strs o;
        for (size_t i = 0; i < setbasic_size(s); i++) {
            Hb h;
            setbasic_get(s, (int)i, h.b);
            o.push_back(h.d());
        }
        std::sort(o.begin(), o.end());
        return o;
    }
};
static Strs dumps_of(const vec_basic &v)
{
    Strs o;
    for (auto &e : v)
        o.push_back(dump(e));
    return o;
}
static Strs sorted_dumps(const set_basic &v)
{
    Strs o;
    for (auto &e : v)
        o.push_back(dump(e));
    std::sort(o.begin(), o.end());
    return o;
}
static std::string cstr(char *c)
{
    if (!c)
        return "NULL";
    std::string s(c);
    basic_str_free(c);
    for (auto &ch : s)
        if (ch == ';' || ch == ',')
            ch = '_';
    return "str:" + s;
}
static std::string sstr(std::string s)
{
    for (auto &ch : s)
        if (ch == ';' || ch == ',')
            ch = '_';
    return "str:" + s;
}

struct Args {
    std::vector<B> b;
    std::vector<long> i;
    std::vector<std::string> s;
    vec_basic from(size_t k) const
    {
        return vec_basic(b.begin() + std::min(k, b.size()), b.end());
    }
};
struct CRes {
    int code;      // -1000 = function has no code
    Strs out;
};
static const int NOCODE = -1000;
struct Entry {
    std::string core;
    std::string old; // content of the out handle(s) when the call fails
    std::function<CRes(const Args &)> c;
    std::function<Strs(const Args &)> cpp;
};
static std::map<std::string, Entry> REG;
static void reg(const std::string &name, const std::string &core, std::function<CRes(const Args &)> c,
                std::function<Strs(const Args &)> cpp, const std::string &old = OLD)
{
    REG[name] = Entry{core, old, c, cpp};
}
static const Integer &Z(const B &x)
{
    if (!is_a<Integer>(*x))
        throw std::runtime_error("harness: integer argument expected");
    return down_cast<const Integer &>(*x);
}
static RCP<const Symbol> Y(const B &x)
{
    if (!is_a<Symbol>(*x))
        throw SymEngineException("not a symbol"); // the documented RUNTIME_ERROR of basic_diff
    return rcp_static_cast<const Symbol>(x);
}
static RCP<const Set> T(const B &x)
{
    if (!is_a_Set(*x))
        throw std::runtime_error("harness: set argument expected");
    return rcp_static_cast<const Set>(x);
}
static RCP<const Number> N(const B &x)
{
    if (!is_a_Number(*x))
        throw std::runtime_error("harness: number argument expected");
    return rcp_static_cast<const Number>(x);
}


// ------------------------------------------------------------------ registry
static const char *OLD2 = "(s __old) , (s __old)";
static const char *OLD3 = "(s __old) , (s __old) , (s __old)";
#define C1(call)                                                                                                       \
    [](const Args &a) -> CRes {                                                                                        \
        Hb s;                                                                                                          \
        int rc = call;                                                                                                 \
        return CRes{rc, {s.d()}};                                                                                      \
    }
#define CPP1(e) [](const Args &a) -> Strs { return {dump(e)}; }
#define CINT(call)                                                                                                     \
    [](const Args &a) -> CRes { return CRes{NOCODE, {std::to_string((long)(call))}}; }
#define CPPINT(e) [](const Args &a) -> Strs { return {std::to_string((long)(e))}; }

#define ONE(f)                                                                                                         \
    reg("basic_" #f, #f, [](const Args &a) -> CRes {                                                                   \
        Hb s, x(a.b.at(0));                                                                                            \
        int rc = basic_##f(s.b, x.b);                                                                                  \
        return CRes{rc, {s.d()}}; }, [](const Args &a) -> Strs { return {dump(SymEngine::f(a.b.at(0)))}; });
#define TWO(f)                                                                                                         \
    reg("basic_" #f, #f, [](const Args &a) -> CRes {                                                                   \
        Hb s, x(a.b.at(0)), y(a.b.at(1));                                                                              \
        int rc = basic_##f(s.b, x.b, y.b);                                                                             \
        return CRes{rc, {s.d()}}; }, [](const Args &a) -> Strs { return {dump(SymEngine::f(a.b.at(0), a.b.at(1)))}; });
#define NT2(f)                                                                                                         \
    reg("ntheory_" #f, #f, [](const Args &a) -> CRes {                                                                 \
        Hb s, x(a.b.at(0)), y(a.b.at(1));                                                                              \
        Z(a.b.at(0)); Z(a.b.at(1));                                                                                    \
        int rc = ntheory_##f(s.b, x.b, y.b);                                                                           \
        return CRes{rc, {s.d()}}; }, [](const Args &a) -> Strs { return {dump(SymEngine::f(Z(a.b.at(0)), Z(a.b.at(1))))}; });
#define NTU(f)                                                                                                         \
    reg("ntheory_" #f, #f, [](const Args &a) -> CRes {                                                                 \
        Hb s;                                                                                                          \
        int rc = ntheory_##f(s.b, (unsigned long)a.i.at(0));                                                           \
        return CRes{rc, {s.d()}}; }, [](const Args &a) -> Strs { return {dump(SymEngine::f((unsigned long)a.i.at(0)))}; });
#define NTU2(f)                                                                                                        \
    reg("ntheory_" #f, #f, [](const Args &a) -> CRes {                                                                 \
        Hb g, s;                                                                                                       \
        int rc = ntheory_##f(g.b, s.b, (unsigned long)a.i.at(0));                                                      \
        return CRes{rc, {g.d(), s.d()}}; }, [](const Args &a) -> Strs {                                                \
        RCP<const Integer> g, s; SymEngine::f(outArg(g), outArg(s), (unsigned long)a.i.at(0));                         \
        return {dump(g), dump(s)}; }, OLD2);
#define NTQ(f)                                                                                                         \
    reg("ntheory_" #f, #f, [](const Args &a) -> CRes {                                                                 \
        Hb q, r, x(a.b.at(0)), y(a.b.at(1));                                                                           \
        Z(a.b.at(0)); Z(a.b.at(1));                                                                                    \
        int rc = ntheory_##f(q.b, r.b, x.b, y.b);                                                                      \
        return CRes{rc, {q.d(), r.d()}}; }, [](const Args &a) -> Strs {                                                \
        RCP<const Integer> q, r; SymEngine::f(outArg(q), outArg(r), Z(a.b.at(0)), Z(a.b.at(1)));                       \
        return {dump(q), dump(r)}; }, OLD2);
#define CONST0(cf, val)                                                                                                \
    reg(#cf, #val, [](const Args &a) -> CRes {                                                                         \
        Hb s; cf(s.b);                                                                                                 \
        return CRes{NOCODE, {s.d()}}; }, [](const Args &a) -> Strs { return {dump(val)}; });
#define ISA(cf, core, e) reg(#cf, core, CINT(([&] { Hb x(a.b.at(0)); return cf(x.b); })()), CPPINT(e));
#define SET1(f)                                                                                                        \
    reg("basic_set_" #f, #f, [](const Args &a) -> CRes {                                                               \
        Hb s, x(a.b.at(0)); T(a.b.at(0));                                                                              \
        int rc = basic_set_##f(s.b, x.b);                                                                              \
        return CRes{rc, {s.d()}}; }, [](const Args &a) -> Strs { return {dump(SymEngine::f(*T(a.b.at(0))))}; });
#define SET2(f, m)                                                                                                     \
    reg("basic_set_" #f, #m, [](const Args &a) -> CRes {                                                               \
        Hb s, x(a.b.at(0)), y(a.b.at(1)); T(a.b.at(0)); T(a.b.at(1));                                                  \
        int rc = basic_set_##f(s.b, x.b, y.b);                                                                         \
        return CRes{rc, {s.d()}}; }, [](const Args &a) -> Strs { return {dump(T(a.b.at(0))->m(T(a.b.at(1))))}; });
#define SETP(f)                                                                                                        \
    reg("basic_set_" #f, #f, [](const Args &a) -> CRes {                                                               \
        Hb x(a.b.at(0)), y(a.b.at(1)); T(a.b.at(0)); T(a.b.at(1));                                                     \
        return CRes{NOCODE, {std::to_string(basic_set_##f(x.b, y.b))}}; },                                             \
        [](const Args &a) -> Strs { return {std::to_string((int)T(a.b.at(0))->f(T(a.b.at(1))))}; });
#define STRF(cf, fn, core)                                                                                                   \
    reg(#cf, core, [](const Args &a) -> CRes {                                                                          \
        Hb x(a.b.at(0));                                                                                               \
        return CRes{NOCODE, {cstr(cf(x.b))}}; }, [](const Args &a) -> Strs { return {sstr(fn(*a.b.at(0)))}; }, "NULL");

static std::string str_of(const Basic &b)
{
    return b.__str__();
}

static void build_registry()
{
    ONE(expand) ONE(neg) ONE(abs) ONE(erf) ONE(erfc) ONE(sin) ONE(cos) ONE(tan) ONE(csc) ONE(sec) ONE(cot)
    ONE(asin) ONE(acos) ONE(asec) ONE(acsc) ONE(atan) ONE(acot) ONE(sinh) ONE(cosh) ONE(tanh) ONE(csch)
    ONE(sech) ONE(coth) ONE(asinh) ONE(acosh) ONE(asech) ONE(acsch) ONE(atanh) ONE(acoth) ONE(lambertw)
    ONE(zeta) ONE(dirichlet_eta) ONE(gamma) ONE(loggamma) ONE(sqrt) ONE(cbrt) ONE(exp) ONE(log) ONE(floor)
    ONE(ceiling) ONE(sign)
    TWO(add) TWO(sub) TWO(mul) TWO(pow) TWO(div)
    TWO(atan2) TWO(kronecker_delta) TWO(lowergamma) TWO(uppergamma) TWO(beta) TWO(polygamma)
    NT2(gcd) NT2(lcm) NT2(mod) NT2(quotient) NT2(mod_f) NT2(quotient_f)
    NTQ(quotient_mod) NTQ(quotient_mod_f)
    NTU(fibonacci) NTU(lucas) NTU(factorial) NTU2(fibonacci2) NTU2(lucas2)
    reg("ntheory_gcd_ext", "gcd_ext", [](const Args &a) -> CRes {
        Hb g, s, t, x(a.b.at(0)), y(a.b.at(1)); Z(a.b.at(0)); Z(a.b.at(1));
        int rc = ntheory_gcd_ext(g.b, s.b, t.b, x.b, y.b);
        return CRes{rc, {g.d(), s.d(), t.d()}}; }, [](const Args &a) -> Strs {
        RCP<const Integer> g, s, t; gcd_ext(outArg(g), outArg(s), outArg(t), Z(a.b.at(0)), Z(a.b.at(1)));
        return {dump(g), dump(s), dump(t)}; }, OLD3);
    reg("ntheory_nextprime", "nextprime", [](const Args &a) -> CRes {
        Hb s, x(a.b.at(0)); Z(a.b.at(0));
        int rc = ntheory_nextprime(s.b, x.b);
        return CRes{rc, {s.d()}}; }, CPP1(nextprime(Z(a.b.at(0)))));
    reg("ntheory_binomial", "binomial", [](const Args &a) -> CRes {
        Hb s, x(a.b.at(0)); Z(a.b.at(0));
        int rc = ntheory_binomial(s.b, x.b, (unsigned long)a.i.at(0));
        return CRes{rc, {s.d()}}; }, CPP1(binomial(Z(a.b.at(0)), (unsigned long)a.i.at(0))));
    reg("ntheory_mod_inverse", "mod_inverse", [](const Args &a) -> CRes {
        Hb s, x(a.b.at(0)), y(a.b.at(1)); Z(a.b.at(0)); Z(a.b.at(1));
        int r = ntheory_mod_inverse(s.b, x.b, y.b);
        return CRes{NOCODE, {std::to_string(r), s.d()}}; }, [](const Args &a) -> Strs {
        RCP<const Integer> b; int r = mod_inverse(outArg(b), Z(a.b.at(0)), Z(a.b.at(1)));
        return {std::to_string(r), dump(b)}; });

    reg("basic_diff", "diff", C1(([&] { Hb e(a.b.at(0)), x(a.b.at(1)); return basic_diff(s.b, e.b, x.b); })()),
        CPP1(a.b.at(0)->diff(Y(a.b.at(1)))));
    reg("basic_subs2", "subs", C1(([&] { Hb e(a.b.at(0)), x(a.b.at(1)), y(a.b.at(2)); return basic_subs2(s.b, e.b, x.b, y.b); })()),
        CPP1(a.b.at(0)->subs({{a.b.at(1), a.b.at(2)}})));
    reg("basic_subs", "subs", [](const Args &a) -> CRes {
        Hb s, e(a.b.at(0)); CMapBasicBasic *m = mapbasicbasic_new();
        for (size_t k = 1; k + 1 < a.b.size(); k += 2) { Hb x(a.b[k]), y(a.b[k + 1]); mapbasicbasic_insert(m, x.b, y.b); }
        int rc = basic_subs(s.b, e.b, m); mapbasicbasic_free(m);
        return CRes{rc, {s.d()}}; }, [](const Args &a) -> Strs {
        map_basic_basic m; for (size_t k = 1; k + 1 < a.b.size(); k += 2) m[a.b[k]] = a.b[k + 1];
        return {dump(a.b.at(0)->subs(m))}; });
    reg("basic_coeff", "coeff", C1(([&] { Hb e(a.b.at(0)), x(a.b.at(1)), n(a.b.at(2)); return basic_coeff(s.b, e.b, x.b, n.b); })()),
        CPP1(coeff(*a.b.at(0), *a.b.at(1), *a.b.at(2))));
    reg("basic_evalf", "evalf", C1(([&] { Hb e(a.b.at(0)); return basic_evalf(s.b, e.b, (unsigned long)a.i.at(0), (int)a.i.at(1)); })()),
        CPP1(evalf(*a.b.at(0), (unsigned long)a.i.at(0), (EvalfDomain)a.i.at(1))));
    reg("basic_as_numer_denom", "as_numer_denom", [](const Args &a) -> CRes {
        Hb n, d, x(a.b.at(0)); int rc = basic_as_numer_denom(n.b, d.b, x.b);
        return CRes{rc, {n.d(), d.d()}}; }, [](const Args &a) -> Strs {
        B n, d; as_numer_denom(a.b.at(0), outArg(n), outArg(d)); return {dump(n), dump(d)}; }, OLD2);
    reg("basic_add_as_two_terms", "as_two_terms", [](const Args &a) -> CRes {
        if (!is_a<Add>(*a.b.at(0))) throw std::runtime_error("harness: Add expected");
        Hb n, d, x(a.b.at(0)); int rc = basic_add_as_two_terms(n.b, d.b, x.b);
        return CRes{rc, {n.d(), d.d()}}; }, [](const Args &a) -> Strs {
        B n, d; down_cast<const Add &>(*a.b.at(0)).as_two_terms(outArg(n), outArg(d)); return {dump(n), dump(d)}; }, OLD2);
    reg("basic_mul_as_two_terms", "as_two_terms", [](const Args &a) -> CRes {
        if (!is_a<Mul>(*a.b.at(0))) throw std::runtime_error("harness: Mul expected");
        Hb n, d, x(a.b.at(0)); int rc = basic_mul_as_two_terms(n.b, d.b, x.b);
        return CRes{rc, {n.d(), d.d()}}; }, [](const Args &a) -> Strs {
        B n, d; down_cast<const Mul &>(*a.b.at(0)).as_two_terms(outArg(n), outArg(d)); return {dump(n), dump(d)}; }, OLD2);
    reg("basic_parse", "parse", C1(basic_parse(s.b, a.s.at(0).c_str())), CPP1(parse(a.s.at(0))));
    reg("basic_parse2", "parse", C1(basic_parse2(s.b, a.s.at(0).c_str(), (int)a.i.at(0))),
        CPP1(a.i.at(0) > 0 ? parse(a.s.at(0)) : parse(a.s.at(0), false)));
    reg("symbol_set", "symbol", C1(symbol_set(s.b, a.s.at(0).c_str())), CPP1(symbol(a.s.at(0))));
    reg("integer_set_si", "integer", C1(integer_set_si(s.b, a.i.at(0))), CPP1(integer(integer_class(a.i.at(0)))));
    reg("integer_set_ui", "integer", C1(integer_set_ui(s.b, (unsigned long)a.i.at(0))),
        CPP1(integer(integer_class((unsigned long)a.i.at(0)))));
    reg("integer_set_str", "integer", C1(integer_set_str(s.b, a.s.at(0).c_str())), CPP1(integer(integer_class(a.s.at(0).c_str()))));
    reg("rational_set_si", "from_mpq", C1(rational_set_si(s.b, a.i.at(0), a.i.at(1))),
        CPP1(Rational::from_mpq(rational_class(a.i.at(0), a.i.at(1)))));
    reg("rational_set_ui", "from_mpq", C1(rational_set_ui(s.b, (unsigned long)a.i.at(0), (unsigned long)a.i.at(1))),
        CPP1(Rational::from_mpq(rational_class((unsigned long)a.i.at(0), (unsigned long)a.i.at(1)))));
    reg("rational_set", "from_two_ints", C1(([&] { Hb x(a.b.at(0)), y(a.b.at(1)); return rational_set(s.b, x.b, y.b); })()),
        [](const Args &a) -> Strs {
            if (!is_a<Integer>(*a.b.at(0)) || !is_a<Integer>(*a.b.at(1)))
                throw SymEngineException("not integers"); // documented: returns SYMENGINE_RUNTIME_ERROR
            return {dump(Rational::from_two_ints(Z(a.b.at(0)), Z(a.b.at(1))))}; });
    reg("complex_set", "from_two_nums", C1(([&] { Hb x(a.b.at(0)), y(a.b.at(1)); N(a.b.at(0)); N(a.b.at(1)); return complex_set(s.b, x.b, y.b); })()),
        CPP1(Complex::from_two_nums(*N(a.b.at(0)), *N(a.b.at(1)))));
    reg("complex_base_real_part", "real_part", C1(([&] { Hb x(a.b.at(0)); if (!is_a_Complex(*a.b.at(0))) throw std::runtime_error("harness: complex expected"); return complex_base_real_part(s.b, x.b); })()),
        CPP1(down_cast<const ComplexBase &>(*a.b.at(0)).real_part()));
    reg("complex_base_imaginary_part", "imaginary_part", C1(([&] { Hb x(a.b.at(0)); if (!is_a_Complex(*a.b.at(0))) throw std::runtime_error("harness: complex expected"); return complex_base_imaginary_part(s.b, x.b); })()),
        CPP1(down_cast<const ComplexBase &>(*a.b.at(0)).imaginary_part()));
    reg("function_symbol_set", "function_symbol", C1(([&] { Hvec v(a.b); return function_symbol_set(s.b, a.s.at(0).c_str(), v.v); })()),
        CPP1(function_symbol(a.s.at(0), a.b)));
    reg("basic_assign", "=", C1(([&] { Hb x(a.b.at(0)); return basic_assign(s.b, x.b); })()), CPP1(a.b.at(0)));
    reg("basic_max", "max", C1(([&] { Hvec v(a.b); return basic_max(s.b, v.v); })()), CPP1(SymEngine::max(a.b)));
    reg("basic_min", "min", C1(([&] { Hvec v(a.b); return basic_min(s.b, v.v); })()), CPP1(SymEngine::min(a.b)));
    reg("basic_add_vec", "add", C1(([&] { Hvec v(a.b); return basic_add_vec(s.b, v.v); })()), CPP1(add(a.b)));
    reg("basic_mul_vec", "mul", C1(([&] { Hvec v(a.b); return basic_mul_vec(s.b, v.v); })()), CPP1(mul(a.b)));
    reg("basic_get_args", "get_args", [](const Args &a) -> CRes {
        Hb x(a.b.at(0)); Hvec v; int rc = basic_get_args(x.b, v.v); return CRes{rc, v.ds()}; },
        [](const Args &a) -> Strs { return dumps_of(a.b.at(0)->get_args()); }, "");
    reg("basic_free_symbols", "free_symbols", [](const Args &a) -> CRes {
        Hb x(a.b.at(0)); Hset v; int rc = basic_free_symbols(x.b, v.s); return CRes{rc, v.ds()}; },
        [](const Args &a) -> Strs { return sorted_dumps(free_symbols(*a.b.at(0))); }, "");
    reg("basic_function_symbols", "atoms", [](const Args &a) -> CRes {
        Hb x(a.b.at(0)); Hset v; int rc = basic_function_symbols(v.s, x.b); return CRes{rc, v.ds()}; },
        [](const Args &a) -> Strs { return sorted_dumps(atoms<FunctionSymbol>(*a.b.at(0))); }, "");
    reg("basic_eq", "eq", CINT(([&] { Hb x(a.b.at(0)), y(a.b.at(1)); return basic_eq(x.b, y.b); })()), CPPINT(eq(*a.b.at(0), *a.b.at(1)) ? 1 : 0));
    reg("basic_neq", "neq", CINT(([&] { Hb x(a.b.at(0)), y(a.b.at(1)); return basic_neq(x.b, y.b); })()), CPPINT(neq(*a.b.at(0), *a.b.at(1)) ? 1 : 0));
    reg("basic_hash", "hash", [](const Args &a) -> CRes { Hb x(a.b.at(0)); return CRes{NOCODE, {std::to_string((unsigned long long)basic_hash(x.b))}}; },
        [](const Args &a) -> Strs { return {std::to_string((unsigned long long)a.b.at(0)->hash())}; });
    reg("basic_get_type", "get_type_code", CINT(([&] { Hb x(a.b.at(0)); return basic_get_type(x.b); })()), CPPINT(a.b.at(0)->get_type_code()));
    reg("basic_has_symbol", "has_symbol", CINT(([&] { Hb x(a.b.at(0)), y(a.b.at(1)); return basic_has_symbol(x.b, y.b); })()),
        CPPINT(has_symbol(*a.b.at(0), *a.b.at(1)) ? 1 : 0));
    reg("number_is_zero", "is_zero", CINT(([&] { Hb x(a.b.at(0)); N(a.b.at(0)); return number_is_zero(x.b); })()), CPPINT(N(a.b.at(0))->is_zero()));
    reg("number_is_negative", "is_negative", CINT(([&] { Hb x(a.b.at(0)); N(a.b.at(0)); return number_is_negative(x.b); })()), CPPINT(N(a.b.at(0))->is_negative()));
    reg("number_is_positive", "is_positive", CINT(([&] { Hb x(a.b.at(0)); N(a.b.at(0)); return number_is_positive(x.b); })()), CPPINT(N(a.b.at(0))->is_positive()));
    reg("number_is_complex", "is_complex", CINT(([&] { Hb x(a.b.at(0)); N(a.b.at(0)); return number_is_complex(x.b); })()), CPPINT(N(a.b.at(0))->is_complex()));
    ISA(is_a_Number, "is_a_Number", is_a_Number(*a.b.at(0))) ISA(is_a_Integer, "is_a", is_a<Integer>(*a.b.at(0))) ISA(is_a_Rational, "is_a", is_a<Rational>(*a.b.at(0)))
    ISA(is_a_Symbol, "is_a", is_a<Symbol>(*a.b.at(0))) ISA(is_a_Complex, "is_a", is_a<Complex>(*a.b.at(0))) ISA(is_a_RealDouble, "is_a", is_a<RealDouble>(*a.b.at(0)))
    ISA(is_a_ComplexDouble, "is_a", is_a<ComplexDouble>(*a.b.at(0))) ISA(is_a_Set, "is_a_Set", is_a_Set(*a.b.at(0)))
    reg("integer_get_si", "mp_get_si", CINT(([&] { Hb x(a.b.at(0)); Z(a.b.at(0)); return integer_get_si(x.b); })()), CPPINT(mp_get_si(Z(a.b.at(0)).as_integer_class())));
    STRF(basic_str, str_of, "_str") STRF(basic_str_julia, julia_str, "julia_str") STRF(basic_str_mathml, mathml, "mathml") STRF(basic_str_latex, latex, "latex")
    STRF(basic_str_jscode, jscode, "jscode") STRF(basic_str_ccode, ccode, "ccode") STRF(basic_str_cudacode, cudacode, "cudacode") STRF(basic_str_metalcode, metalcode, "metalcode")
    reg("function_symbol_get_name", "get_name", [](const Args &a) -> CRes {
        if (!is_a<FunctionSymbol>(*a.b.at(0))) throw std::runtime_error("harness: FunctionSymbol expected");
        Hb x(a.b.at(0)); return CRes{NOCODE, {cstr(function_symbol_get_name(x.b))}}; },
        [](const Args &a) -> Strs { return {sstr(down_cast<const FunctionSymbol &>(*a.b.at(0)).get_name())}; });

    CONST0(basic_const_zero, zero) CONST0(basic_const_one, one) CONST0(basic_const_minus_one, minus_one) CONST0(basic_const_I, I)
    CONST0(basic_const_pi, pi) CONST0(basic_const_E, E) CONST0(basic_const_EulerGamma, EulerGamma) CONST0(basic_const_Catalan, Catalan)
    CONST0(basic_const_GoldenRatio, GoldenRatio) CONST0(basic_const_infinity, Inf) CONST0(basic_const_neginfinity, NegInf)
    CONST0(basic_const_complex_infinity, ComplexInf) CONST0(basic_const_nan, Nan) CONST0(bool_set_true, boolTrue) CONST0(bool_set_false, boolFalse)
    CONST0(basic_set_emptyset, emptyset()) CONST0(basic_set_universalset, universalset()) CONST0(basic_set_complexes, complexes())
    CONST0(basic_set_reals, reals()) CONST0(basic_set_rationals, rationals()) CONST0(basic_set_integers, integers())
    reg("basic_const_set", "constant", [](const Args &a) -> CRes { Hb s; basic_const_set(s.b, a.s.at(0).c_str()); return CRes{NOCODE, {s.d()}}; },
        CPP1(constant(a.s.at(0))));

    reg("basic_set_interval", "interval", C1(([&] { Hb x(a.b.at(0)), y(a.b.at(1)); N(a.b.at(0)); N(a.b.at(1)); return basic_set_interval(s.b, x.b, y.b, (int)a.i.at(0), (int)a.i.at(1)); })()),
        CPP1(interval(N(a.b.at(0)), N(a.b.at(1)), (bool)a.i.at(0), (bool)a.i.at(1))));
    reg("basic_set_finiteset", "finiteset", C1(([&] { Hset v(a.b); return basic_set_finiteset(s.b, v.s); })()),
        CPP1(finiteset(set_basic(a.b.begin(), a.b.end()))));
    SET2(union, set_union) SET2(intersection, set_intersection) SET2(complement, set_complement)
    reg("basic_set_contains", "contains", C1(([&] { Hb x(a.b.at(0)), y(a.b.at(1)); T(a.b.at(0)); return basic_set_contains(s.b, x.b, y.b); })()),
        CPP1(T(a.b.at(0))->contains(a.b.at(1))));
    SETP(is_subset) SETP(is_proper_subset) SETP(is_superset) SETP(is_proper_superset)
    SET1(inf) SET1(sup) SET1(boundary) SET1(interior) SET1(closure)
    reg("basic_solve_poly", "solve_poly", [](const Args &a) -> CRes {
        Hb f(a.b.at(0)), x(a.b.at(1)); Y(a.b.at(1)); Hset r; int rc = basic_solve_poly(r.s, f.b, x.b); return CRes{rc, r.ds()}; },
        [](const Args &a) -> Strs {
            RCP<const Set> s = solve_poly(a.b.at(0), Y(a.b.at(1)));
            if (!is_a<FiniteSet>(*s)) throw NotImplementedError("not a finite set"); // the wrapper's documented code
            return sorted_dumps(down_cast<const FiniteSet &>(*s).get_container()); }, "");
    reg("basic_cse", "cse", [](const Args &a) -> CRes {
        Hvec e(a.b), s1, s2, s3; int rc = basic_cse(s1.v, s2.v, s3.v, e.v);
        Strs o = s1.ds(); o.push_back("|"); for (auto &x : s2.ds()) o.push_back(x); o.push_back("|"); for (auto &x : s3.ds()) o.push_back(x);
        return CRes{rc, o}; }, [](const Args &a) -> Strs {
        vec_pair rep; vec_basic red; cse(rep, red, a.b); Strs o;
        for (auto &p : rep) o.push_back(dump(p.first)); o.push_back("|");
        for (auto &p : rep) o.push_back(dump(p.second)); o.push_back("|");
        for (auto &x : red) o.push_back(dump(x)); return o; }, "| , |");
    reg("vecbasic_linsolve", "linsolve", [](const Args &a) -> CRes {
        size_t n = (size_t)a.i.at(0); Hvec sys(vec_basic(a.b.begin(), a.b.begin() + n)), sym(a.from(n)), sol;
        for (auto &x : a.from(n)) Y(x);
        int rc = vecbasic_linsolve(sol.v, sys.v, sym.v); return CRes{rc, sol.ds()}; }, [](const Args &a) -> Strs {
        size_t n = (size_t)a.i.at(0); vec_sym vs; for (auto &x : a.from(n)) vs.push_back(Y(x));
        return dumps_of(linsolve(vec_basic(a.b.begin(), a.b.begin() + n), vs)); }, "");

    // ---- serialisation
    // the byte string contains object addresses (ids of shared nodes), so it is compared through a round trip
    reg("basic_dumps", "dumps", [](const Args &a) -> CRes {
        Hb x(a.b.at(0)); unsigned long n = 0; char *c = basic_dumps(x.b, &n);
        if (!c) return CRes{NOCODE, {"NULL"}};
        std::string s(c, n); basic_str_free(c);
        return CRes{NOCODE, {"loads:" + dump(Basic::loads(s))}}; }, [](const Args &a) -> Strs {
        std::string s = a.b.at(0)->dumps();
        return {"loads:" + dump(Basic::loads(s))}; }, "NULL");
    // basic_loads <expr> i:<keep> : load the first <keep> bytes of the dump (keep<0: everything)
    reg("basic_loads", "loads", [](const Args &a) -> CRes {
        std::string s = a.b.at(0)->dumps(); if (a.i.at(0) >= 0 && (size_t)a.i.at(0) < s.size()) s.resize((size_t)a.i.at(0));
        Hb r; int rc = basic_loads(r.b, s.data(), s.size()); return CRes{rc, {r.d()}}; }, [](const Args &a) -> Strs {
        std::string s = a.b.at(0)->dumps(); if (a.i.at(0) >= 0 && (size_t)a.i.at(0) < s.size()) s.resize((size_t)a.i.at(0));
        return {dump(Basic::loads(s))}; });

    // ---- dense matrices:  i:<rows> i:<cols> then rows*cols entries (then extra arguments)
#define MATC(nm, body)                                                                                                 \
    [](const Args &a) -> CRes {                                                                                        \
        unsigned r = (unsigned)a.i.at(0), c = (unsigned)a.i.at(1);                                                     \
        if (a.b.size() < (size_t)r * c) throw std::runtime_error("harness: matrix entries missing");                   \
        Hvec ents(vec_basic(a.b.begin(), a.b.begin() + r * c));                                                        \
        CDenseMatrix *A = dense_matrix_new_vec(r, c, ents.v);                                                          \
        CDenseMatrix *R = dense_matrix_new();                                                                          \
        CRes res; body; dense_matrix_free(A); dense_matrix_free(R); return res; }
#define MATOUT(rc)                                                                                                     \
    {                                                                                                                  \
        res.code = rc;                                                                                                 \
        if (res.code == 0) {                                                                                           \
            res.out.push_back("m" + std::to_string(dense_matrix_rows(R)) + "x" + std::to_string(dense_matrix_cols(R))); \
            for (unsigned long i = 0; i < dense_matrix_rows(R); i++)                                                   \
                for (unsigned long j = 0; j < dense_matrix_cols(R); j++) {                                             \
                    Hb h; dense_matrix_get_basic(h.b, R, i, j); res.out.push_back(h.d()); }                            \
        } else res.out.push_back("-");                                                                                 \
    }
#define MATCPP(body)                                                                                                   \
    [](const Args &a) -> Strs {                                                                                        \
        unsigned r = (unsigned)a.i.at(0), c = (unsigned)a.i.at(1);                                                     \
        DenseMatrix A(r, c, vec_basic(a.b.begin(), a.b.begin() + r * c)); DenseMatrix R; Strs o; body;                 \
        o.push_back("m" + std::to_string(R.nrows()) + "x" + std::to_string(R.ncols()));                                \
        for (unsigned i = 0; i < R.nrows(); i++) for (unsigned j = 0; j < R.ncols(); j++) o.push_back(dump(R.get(i, j))); \
        return o; }
    reg("dense_matrix_det", "det", MATC(det, { Hb s; res.code = dense_matrix_det(s.b, A); res.out.push_back(s.d()); }),
        [](const Args &a) -> Strs { unsigned r = (unsigned)a.i.at(0), c = (unsigned)a.i.at(1);
            DenseMatrix A(r, c, vec_basic(a.b.begin(), a.b.begin() + r * c)); return {dump(A.det())}; });
    reg("dense_matrix_inv", "inv", MATC(inv, MATOUT(dense_matrix_inv(R, A))), MATCPP({ R = DenseMatrix(r, c); A.inv(R); }), "-");
    reg("dense_matrix_transpose", "transpose", MATC(tr, MATOUT(dense_matrix_transpose(R, A))), MATCPP({ R = DenseMatrix(c, r); A.transpose(R); }), "-");
    reg("dense_matrix_mul_matrix", "mul_matrix", MATC(mm, MATOUT(dense_matrix_mul_matrix(R, A, A))),
        MATCPP({ R = DenseMatrix(r, c); A.mul_matrix(A, R); }), "-");
    reg("dense_matrix_add_matrix", "add_matrix", MATC(am, MATOUT(dense_matrix_add_matrix(R, A, A))),
        MATCPP({ R = DenseMatrix(r, c); A.add_matrix(A, R); }), "-");
    reg("dense_matrix_mul_scalar", "mul_scalar", MATC(ms, { Hb k(a.b.at(r * c)); MATOUT(dense_matrix_mul_scalar(R, A, k.b)) }),
        MATCPP({ R = DenseMatrix(r, c); A.mul_scalar(a.b.at(r * c), R); }), "-");
    reg("dense_matrix_add_scalar", "add_scalar", MATC(as, { Hb k(a.b.at(r * c)); MATOUT(dense_matrix_add_scalar(R, A, k.b)) }),
        MATCPP({ R = DenseMatrix(r, c); A.add_scalar(a.b.at(r * c), R); }), "-");
    reg("dense_matrix_diff", "diff", MATC(df, { Hb k(a.b.at(r * c)); dense_matrix_rows_cols(R, r, c); MATOUT(dense_matrix_diff(R, A, k.b)) }),
        MATCPP({ R = DenseMatrix(r, c); diff(A, Y(a.b.at(r * c)), R); }), "-");
    reg("dense_matrix_FFLU", "FFLU", MATC(fflu, MATOUT(dense_matrix_FFLU(R, A))), MATCPP({ R = DenseMatrix(r, c); A.FFLU(R); }), "-");
    reg("dense_matrix_get_basic", "get", MATC(gb, { if (a.i.at(2) >= (long)r || a.i.at(3) >= (long)c || a.i.at(2) < 0 || a.i.at(3) < 0) throw std::runtime_error("harness: matrix index out of range"); Hb s; res.code = dense_matrix_get_basic(s.b, A, (unsigned long)a.i.at(2), (unsigned long)a.i.at(3)); res.out.push_back(s.d()); }),
        [](const Args &a) -> Strs { unsigned r = (unsigned)a.i.at(0), c = (unsigned)a.i.at(1);
            DenseMatrix A(r, c, vec_basic(a.b.begin(), a.b.begin() + r * c));
            if (a.i.at(2) >= r || a.i.at(3) >= c) throw std::runtime_error("harness: matrix index out of range");
            return {dump(A.get((unsigned)a.i.at(2), (unsigned)a.i.at(3)))}; });
    reg("dense_matrix_str", "__str__", MATC(st, { res.code = NOCODE; res.out.push_back(cstr(dense_matrix_str(A))); }),
        [](const Args &a) -> Strs { unsigned r = (unsigned)a.i.at(0), c = (unsigned)a.i.at(1);
            DenseMatrix A(r, c, vec_basic(a.b.begin(), a.b.begin() + r * c)); return {sstr(A.__str__())}; });
    reg("dense_matrix_eq", "op_eq", MATC(eqm, { res.code = NOCODE; res.out.push_back(std::to_string(dense_matrix_eq(A, A))); }),
        [](const Args &a) -> Strs { unsigned r = (unsigned)a.i.at(0), c = (unsigned)a.i.at(1);
            DenseMatrix A(r, c, vec_basic(a.b.begin(), a.b.begin() + r * c)); return {std::to_string((int)(A == A))}; });
    reg("dense_matrix_eye", "eye", [](const Args &a) -> CRes { CDenseMatrix *R = dense_matrix_new(); CRes res;
            MATOUT(dense_matrix_eye(R, (unsigned long)a.i.at(0), (unsigned long)a.i.at(1), (int)a.i.at(2))); dense_matrix_free(R); return res; },
        [](const Args &a) -> Strs { DenseMatrix R((unsigned)a.i.at(0), (unsigned)a.i.at(1)); eye(R, (int)a.i.at(2)); Strs o;
            o.push_back("m" + std::to_string(R.nrows()) + "x" + std::to_string(R.ncols()));
            for (unsigned i = 0; i < R.nrows(); i++) for (unsigned j = 0; j < R.ncols(); j++) o.push_back(dump(R.get(i, j)));
            return o; }, "-");

    // ---- lambda_real_double_visitor:  i:<nargs> <args...> <exprs...> ; evaluated at 0.5, 1.5, 2.5 ...
    reg("lambda_real_double_visitor_init", "init", [](const Args &a) -> CRes {
        size_t n = (size_t)a.i.at(0); Hvec args(vec_basic(a.b.begin(), a.b.begin() + n)), ex(a.from(n));
        CLambdaRealDoubleVisitor *v = lambda_real_double_visitor_new();
        struct G { CLambdaRealDoubleVisitor *v; ~G() { lambda_real_double_visitor_free(v); } } g{v};
        lambda_real_double_visitor_init(v, args.v, ex.v, (int)a.i.at(1));
        std::vector<double> in(n), out(a.b.size() - n);
        for (size_t k = 0; k < n; k++) in[k] = 0.5 + (double)k;
        lambda_real_double_visitor_call(v, out.data(), in.data());
        Strs o; for (double d : out) o.push_back(vsexp::dbl_hex(d));
        return CRes{NOCODE, o}; }, [](const Args &a) -> Strs {
        size_t n = (size_t)a.i.at(0); LambdaRealDoubleVisitor v;
        v.init(vec_basic(a.b.begin(), a.b.begin() + n), a.from(n), (bool)a.i.at(1));
        std::vector<double> in(n), out(a.b.size() - n);
        for (size_t k = 0; k < n; k++) in[k] = 0.5 + (double)k;
        v.call(out.data(), in.data());
        Strs o; for (double d : out) o.push_back(vsexp::dbl_hex(d));
        return o; });
}

// ------------------------------------------------------------------ running one op
static std::string exc_class(SymEngineException &e)
{
    if (dynamic_cast<DivisionByZeroError *>(&e)) return "DivisionByZeroError";
    if (dynamic_cast<NotImplementedError *>(&e)) return "NotImplementedError";
    if (dynamic_cast<DomainError *>(&e)) return "DomainError";
    if (dynamic_cast<ParseError *>(&e)) return "ParseError";
    if (dynamic_cast<SerializationError *>(&e)) return "SerializationError";
    return "SymEngineException";
}
static std::string unesc(std::string s)
{
    for (auto &c : s)
        if (c == '~')
            c = ' ';
    return s;
}
// split at spaces outside parentheses
static Strs toks(const std::string &s)
{
    Strs o;
    std::string cur;
    int depth = 0;
    for (char c : s) {
        bool sexp = cur.empty() ? c == '(' : cur[0] == '('; // only S-expression tokens nest
        if (sexp && c == '(') depth++;
        if (sexp && c == ')') depth--;
        if (c == ' ' && depth == 0) {
            if (!cur.empty()) o.push_back(cur);
            cur.clear();
        } else
            cur.push_back(c);
    }
    if (!cur.empty()) o.push_back(cur);
    return o;
}
static Args parse_args(const Strs &t, size_t from)
{
    Args a;
    for (size_t k = from; k < t.size(); k++) {
        const std::string &x = t[k];
        if (x.compare(0, 2, "i:") == 0)
            a.i.push_back(std::stol(x.substr(2)));
        else if (x.compare(0, 2, "u:") == 0)
            a.i.push_back((long)std::stoul(x.substr(2)));
        else if (x.compare(0, 2, "s:") == 0)
            a.s.push_back(unesc(x.substr(2)));
        else
            a.b.push_back(vsexp::parse(x));
    }
    return a;
}

static std::string run_capi(const Strs &t, std::string &oracle)
{
    if (t.size() < 2 || !REG.count(t[1]))
        return "bad-op";
    const std::string &fn = t[1];
    const Entry &e = REG[fn];
    Args a;
    try {
        a = parse_args(t, 2);
    } catch (const std::exception &ex) {
        return std::string("bad-op:") + ex.what();
    }
    stat("capi_calls");
    // C++ side first (independent of the C call)
    bool cpp_ok = false;
    std::string cpp = "ok";
    int cpp_code = -1;
    Strs val;
    try {
        val = e.cpp(a);
        cpp_ok = true;
    } catch (VerifAssertError &ex) {
        cpp = "other:assert";
    } catch (SymEngineException &ex) {
        cpp_code = (int)ex.error_code();
        cpp = "sym:" + exc_class(ex) + ":" + std::to_string(cpp_code);
    } catch (std::out_of_range &ex) {
        return "bad-op:arity";
    } catch (std::runtime_error &ex) {
        if (std::string(ex.what()).compare(0, 8, "harness:") == 0)
            return std::string("bad-op:") + ex.what();
        cpp = "other:runtime_error";
    } catch (std::exception &ex) {
        cpp = "other:std";
    } catch (...) {
        cpp = "other:unknown";
    }
    // C side; a C caller cannot catch: anything arriving here has escaped
    CRes c{NOCODE, {}};
    std::string cs;
    bool escaped = false;
    std::string esc_what;
    try {
        c = e.c(a);
    } catch (std::runtime_error &ex) {
        if (std::string(ex.what()).compare(0, 8, "harness:") == 0)
            return std::string("bad-op:") + ex.what();
        escaped = true;
        esc_what = ex.what();
    } catch (std::exception &ex) {
        escaped = true;
        esc_what = ex.what();
    } catch (...) {
        escaped = true;
        esc_what = "unknown";
    }
    if (escaped) {
        cs = "ESCAPE";
        stat("capi_escaped");
        oracle = "FAIL:escape:" + fn + " let a C++ exception escape to the C caller (" + esc_what.substr(0, 120) + ")";
    } else {
        cs = c.code == NOCODE ? "-" : std::to_string(c.code);
        if (c.code != NOCODE) {
            if (cpp_ok && c.code != 0)
                oracle = "FAIL:code:" + fn + " returned " + cs + " but the C++ API succeeded";
            else if (!cpp_ok && c.code == 0)
                oracle = "FAIL:code:" + fn + " returned 0 but the C++ API threw " + cpp;
            else if (!cpp_ok && cpp_code >= 0 && c.code != cpp_code)
                oracle = "FAIL:codeval:" + fn + " returned " + cs + " but the C++ exception carries " + cpp;
            else if (cpp_ok && c.out != val)
                oracle = "FAIL:result:" + fn + " C result " + join(c.out, " , ") + " differs from C++ result " + join(val, " , ");
            if (c.code != 0)
                stat("capi_error_codes");
        } else {
            if (cpp_ok && c.out != val)
                oracle = "FAIL:result:" + fn + " C result " + join(c.out, " , ") + " differs from C++ result " + join(val, " , ");
            else if (!cpp_ok && !(c.out.size() == 1 && c.out[0] == "NULL"))
                oracle = "FAIL:code:" + fn + " reported no error but the C++ API threw " + cpp;
        }
    }
    if (!cpp_ok)
        stat("capi_cpp_threw");
    return "c=" + cs + " ; out=" + join(c.out, " , ") + " ; cpp=" + cpp + " ; val=" + join(val, " , ") + " ; old=" + e.old
           + " ; core=" + e.core;
}

static std::string run_forked(const Strs &t, std::string &oracle)
{
    int fd[2];
    if (pipe(fd) != 0)
        return "bad-op:pipe";
    fflush(stdout);
    pid_t p = fork();
    if (p == 0) {
        close(fd[0]);
        std::string orc = "ok", out;
        try {
            out = run_capi(t, orc);
        } catch (...) {
            out = "bad-op:exception";
        }
        std::string msg = out + "\t" + orc;
        ssize_t w = write(fd[1], msg.data(), msg.size());
        (void)w;
        _exit(0);
    }
    close(fd[1]);
    std::string msg;
    char buf[4096];
    ssize_t n;
    while ((n = read(fd[0], buf, sizeof buf)) > 0)
        msg.append(buf, (size_t)n);
    close(fd[0]);
    int st = 0;
    waitpid(p, &st, 0);
    if (WIFSIGNALED(st)) {
        stat("capi_crashed");
        oracle = "FAIL:crash:" + (t.size() > 1 ? t[1] : std::string("?")) + " killed the process with signal "
                 + std::to_string(WTERMSIG(st)) + " instead of returning an error code";
        return "c=CRASH:" + std::to_string(WTERMSIG(st));
    }
    size_t k = msg.find('\t');
    if (k == std::string::npos)
        return "bad-op:child";
    oracle = msg.substr(k + 1);
    return msg.substr(0, k);
}

// ---- containers
static bool assert_build()
{
#ifdef WITH_SYMENGINE_ASSERT
    return true;
#else
    return false;
#endif
}
static void check_eq_dump(const std::vector<B> &els, std::string &oracle)
{
    for (size_t i = 0; i < els.size(); i++)
        for (size_t j = 0; j < els.size(); j++)
            if (eq(*els[i], *els[j]) != (dump(els[i]) == dump(els[j])) && oracle == "ok")
                oracle = "FAIL:eqdump:eq and dump equality disagree on " + dump(els[i]) + " / " + dump(els[j]);
}
static std::string run_vec(const std::string &body, std::string &oracle)
{
    Hvec v;
    vec_basic sh; // shadow through the C++ type
    Strs outs;
    std::vector<B> seen;
    for (auto &o : split(body, ';')) {
        Strs t = toks(o);
        if (t.empty()) return "bad-op";
        std::string r;
        if (t[0] == "push" && t.size() == 2) {
            B e = vsexp::parse(t[1]); seen.push_back(e);
            Hb h(e);
            r = std::to_string(vecbasic_push_back(v.v, h.b));
            sh.push_back(e);
        } else if (t[0] == "get" && t.size() == 2) {
            size_t n = std::stoul(t[1]);
            if (n < sh.size()) {
                Hb h;
                int rc = vecbasic_get(v.v, n, h.b);
                r = std::to_string(rc) + ":" + h.d();
                if (rc == 0 && !eq(*rcp_of(h.b), *sh[n]) && oracle == "ok")
                    oracle = "FAIL:vec:vecbasic_get(" + t[1] + ") differs from the vector element";
            } else if (assert_build()) {
                Hb h;
                int rc = vecbasic_get(v.v, n, h.b); // SYMENGINE_ASSERT -> (hook) exception -> catch(...) -> 1
                r = rc == SYMENGINE_RUNTIME_ERROR ? "E:oob" : "rc=" + std::to_string(rc);
            } else
                r = "E:oob"; // undefined behaviour in a release build: not executed
        } else if (t[0] == "set" && t.size() == 3) {
            size_t n = std::stoul(t[1]);
            B e = vsexp::parse(t[2]); seen.push_back(e);
            Hb h(e);
            if (n < sh.size()) {
                r = std::to_string(vecbasic_set(v.v, n, h.b));
                sh[n] = e;
            } else if (assert_build()) {
                int rc = vecbasic_set(v.v, n, h.b);
                r = rc == SYMENGINE_RUNTIME_ERROR ? "E:oob" : "rc=" + std::to_string(rc);
            } else
                r = "E:oob";
        } else if (t[0] == "erase" && t.size() == 2) {
            size_t n = std::stoul(t[1]);
            if (n < sh.size()) {
                r = std::to_string(vecbasic_erase(v.v, n));
                sh.erase(sh.begin() + n);
            } else if (assert_build()) {
                int rc = vecbasic_erase(v.v, n);
                r = rc == SYMENGINE_RUNTIME_ERROR ? "E:oob" : "rc=" + std::to_string(rc);
            } else
                r = "E:oob";
        } else if (t[0] == "size" && t.size() == 1) {
            r = std::to_string(vecbasic_size(v.v));
        } else
            return "bad-op";
        // the property itself: the C vector equals the C++ vector after every call
        if (vecbasic_size(v.v) != sh.size() && oracle == "ok")
            oracle = "FAIL:vec:size " + std::to_string(vecbasic_size(v.v)) + " expected " + std::to_string(sh.size()) + " after " + o;
        else if (oracle == "ok" && v.ds() != dumps_of(sh))
            oracle = "FAIL:vec:content differs from the std::vector after " + o;
        outs.push_back(r);
        stat("container_calls");
    }
    check_eq_dump(seen, oracle);
    return join(outs, "|");
}
static std::string run_set(const std::string &body, std::string &oracle)
{
    Hset s;
    set_basic sh;
    Strs outs;
    std::vector<B> seen;
    for (auto &o : split(body, ';')) {
        Strs t = toks(o);
        if (t.empty()) return "bad-op";
        std::string r;
        if (t.size() == 2 && (t[0] == "insert" || t[0] == "find" || t[0] == "erase")) {
            B e = vsexp::parse(t[1]); seen.push_back(e);
            Hb h(e);
            int got, want;
            if (t[0] == "insert") { got = setbasic_insert(s.s, h.b); want = sh.insert(e).second ? 1 : 0; }
            else if (t[0] == "find") { got = setbasic_find(s.s, h.b); want = sh.count(e) ? 1 : 0; }
            else { got = setbasic_erase(s.s, h.b); want = sh.erase(e) ? 1 : 0; }
            r = std::to_string(got);
            if (got != want && oracle == "ok")
                oracle = "FAIL:set:" + t[0] + " returned " + r + " expected " + std::to_string(want);
        } else if (t[0] == "size" && t.size() == 1) {
            r = std::to_string(setbasic_size(s.s));
        } else if (t[0] == "all" && t.size() == 1) {
            r = "{" + join(s.ds(), " ") + "}";
            // setbasic_get enumerates in the container order, without repetition
            RCPBasicKeyLess less;
            for (size_t i = 0; i + 1 < setbasic_size(s.s); i++) {
                Hb x, y;
                setbasic_get(s.s, (int)i, x.b); setbasic_get(s.s, (int)i + 1, y.b);
                if (!less(rcp_of(x.b), rcp_of(y.b)) && oracle == "ok")
                    oracle = "FAIL:set:setbasic_get does not enumerate in strictly increasing key order";
            }
        } else
            return "bad-op";
        if (oracle == "ok" && (setbasic_size(s.s) != sh.size() || s.ds() != sorted_dumps(sh)))
            oracle = "FAIL:set:content differs from the std::set after " + o;
        outs.push_back(r);
        stat("container_calls");
    }
    check_eq_dump(seen, oracle);
    return join(outs, "|");
}
static std::string run_map(const std::string &body, std::string &oracle)
{
    CMapBasicBasic *m = mapbasicbasic_new();
    map_basic_basic sh;
    Strs outs;
    std::vector<B> seen;
    for (auto &o : split(body, ';')) {
        Strs t = toks(o);
        std::string r;
        if (t.size() == 3 && t[0] == "insert") {
            B k = vsexp::parse(t[1]), v = vsexp::parse(t[2]); seen.push_back(k);
            Hb hk(k), hv(v);
            mapbasicbasic_insert(m, hk.b, hv.b);
            sh[k] = v;
            r = "-";
        } else if (t.size() == 2 && t[0] == "get") {
            B k = vsexp::parse(t[1]); seen.push_back(k);
            Hb hk(k), hv;
            int got = mapbasicbasic_get(m, hk.b, hv.b);
            r = got ? "1:" + hv.d() : "0";
            auto it = sh.find(k);
            if (oracle == "ok" && ((it != sh.end()) != (got == 1) || (got == 1 && !eq(*it->second, *rcp_of(hv.b)))))
                oracle = "FAIL:map:get differs from the std::map";
            if (oracle == "ok" && got == 0 && hv.d() != OLD)
                oracle = "FAIL:map:get modified the output handle although the key is absent";
        } else if (t.size() == 1 && t[0] == "size") {
            r = std::to_string(mapbasicbasic_size(m));
        } else {
            mapbasicbasic_free(m);
            return "bad-op";
        }
        if (oracle == "ok" && mapbasicbasic_size(m) != sh.size())
            oracle = "FAIL:map:size differs from the std::map after " + o;
        outs.push_back(r);
        stat("container_calls");
    }
    mapbasicbasic_free(m);
    check_eq_dump(seen, oracle);
    return join(outs, "|");
}
static std::string run_vint(const std::string &body, std::string &oracle)
{
    CVectorInt *v = vectorint_new();
    std::vector<int> sh;
    Strs outs;
    for (auto &o : split(body, ';')) {
        Strs t = toks(o);
        std::string r;
        if (t.size() == 2 && t[0] == "push") {
            int x = std::stoi(t[1]);
            vectorint_push_back(v, x);
            sh.push_back(x);
            r = "-";
        } else if (t.size() == 2 && t[0] == "get") {
            size_t n = std::stoul(t[1]);
            if (n < sh.size()) {
                int g = vectorint_get(v, (int)n);
                r = std::to_string(g);
                if (g != sh[n] && oracle == "ok")
                    oracle = "FAIL:vint:get differs from the std::vector";
            } else
                r = "E:oob"; // undefined behaviour: not executed
        } else {
            vectorint_free(v);
            return "bad-op";
        }
        outs.push_back(r);
        stat("container_calls");
    }
    vectorint_free(v);
    return join(outs, "|");
}

// ---- Expression wrapper
static std::string run_expr(const Strs &t, std::string &oracle)
{
    if (t.size() < 4) return "bad-op";
    const std::string &op = t[1], &kinds = t[2];
    B a = vsexp::parse(t[3]);
    B b = t.size() > 4 ? vsexp::parse(t[4]) : B(integer(0));
    B c = t.size() > 5 ? vsexp::parse(t[5]) : B(integer(0));
    Expression A(a), Bx(b);
    std::string core, r, e;
    auto both = [&](std::function<B()> wr, std::function<B()> co) {
        try { r = dump(wr()); } catch (SymEngineException &ex) { r = "E:" + exc_class(ex); }
        try { e = dump(co()); } catch (SymEngineException &ex) { e = "E:" + exc_class(ex); }
    };
    auto bl = [](bool v) { return B(boolean(v)); };
#define BIN(OPNAME, OPSYM, COREFN)                                                                                     \
    if (op == OPNAME && kinds == "EE") { core = #COREFN; both([&] { return (A OPSYM Bx).get_basic(); }, [&] { return COREFN(a, b); }); } \
    else if (op == OPNAME && kinds == "BE") { core = #COREFN; both([&] { return (a OPSYM Bx).get_basic(); }, [&] { return COREFN(a, b); }); } \
    else if (op == OPNAME && kinds == "EB") { core = #COREFN; both([&] { return (A OPSYM b).get_basic(); }, [&] { return COREFN(a, b); }); }
#define ASG(OPNAME, OPSYM, COREFN)                                                                                     \
    if (op == OPNAME && kinds == "E") { core = #COREFN; both([&] { Expression x(a); x OPSYM Bx; return x.get_basic(); }, [&] { return COREFN(a, b); }); } \
    else if (op == OPNAME && kinds == "B") { core = #COREFN; both([&] { Expression x(a); x OPSYM b; return x.get_basic(); }, [&] { return COREFN(a, b); }); }
    BIN("operator+", +, add) else BIN("operator-", -, sub) else BIN("operator*", *, mul) else BIN("operator/", /, div)
    else ASG("operator+=", +=, add) else ASG("operator-=", -=, sub) else ASG("operator*=", *=, mul) else ASG("operator/=", /=, div)
    else if (op == "operator-" && kinds == "-") { core = "mul"; both([&] { return (-A).get_basic(); }, [&] { return mul(a, integer(-1)); }); }
    else if (op == "operator==" && kinds == "E") { core = "eq"; both([&] { return bl(A == Bx); }, [&] { return bl(eq(*a, *b)); }); }
    else if (op == "operator==" && kinds == "B") { core = "eq"; both([&] { return bl(A == b); }, [&] { return bl(eq(*a, *b)); }); }
    else if (op == "operator!=" && kinds == "E") { core = "not operator=="; both([&] { return bl(A != Bx); }, [&] { return bl(!eq(*a, *b)); }); }
    else if (op == "operator!=" && kinds == "B") { core = "not operator=="; both([&] { return bl(A != b); }, [&] { return bl(!eq(*a, *b)); }); }
    else if (op == "pow" && kinds == "EE") { core = "pow"; both([&] { return pow(A, Bx).get_basic(); }, [&] { return pow(a, b); }); }
    else if (op == "expand" && kinds == "E") { core = "expand"; both([&] { return expand(A).get_basic(); }, [&] { return expand(a); }); }
    else if (op == "diff" && kinds == "Sb") { core = "diff"; both([&] { return A.diff(Y(b)).get_basic(); }, [&] { return diff(a, Y(b), true); }); }
    else if (op == "diff" && kinds == "Bb") { core = "sdiff"; both([&] { return A.diff(b).get_basic(); }, [&] { return sdiff(a, b, true); }); }
    else if (op == "subs" && kinds == "M") { core = "subs"; both([&] { return A.subs({{b, c}}).get_basic(); }, [&] { return a->subs({{b, c}}); }); }
    else return "bad-op";
    stat("expr_calls");
    if (r != e)
        oracle = "FAIL:expr:Expression " + op + "(" + kinds + ") gives " + r + " but " + core + " gives " + e;
    return "r=" + r + " ; core=" + core + " ; e=" + e;
}

std::string hx_run(const std::string &line, std::string &oracle)
{
    if (REG.empty())
        build_registry();
    size_t sp = line.find(' ');
    std::string verb = line.substr(0, sp), body = sp == std::string::npos ? "" : line.substr(sp + 1);
    if (verb == "capi")
        return run_capi(toks(line), oracle);
    if (verb == "capif")
        return run_forked(toks(line), oracle);
    if (verb == "vec")
        return run_vec(body, oracle);
    if (verb == "set")
        return run_set(body, oracle);
    if (verb == "map")
        return run_map(body, oracle);
    if (verb == "vint")
        return run_vint(body, oracle);
    if (verb == "expr")
        return run_expr(toks(line), oracle);
    return "bad-op";
}

// ------------------------------------------------------------------ generation
static B gsym(Rng &r)
{
    static const char *n[] = {"x", "y", "z"};
    return symbol(n[r.below(3)]);
}
static B gnum(Rng &r)
{
    unsigned k = r.below(10);
    if (k < 6)
        return integer(r.range(-6, 6));
    if (k < 9)
        return Rational::from_two_ints(*integer(r.range(-7, 7)), *integer(r.range(2, 6)));
    return Complex::from_two_nums(*integer(r.range(-2, 2)), *integer(r.range(1, 2)));
}
static B gexpr(Rng &r, int depth)
{
    if (depth <= 0)
        return r.coin(3, 5) ? gsym(r) : gnum(r);
    try {
        switch (r.below(8)) {
            case 0:
            case 1:
                return add(gexpr(r, depth - 1), gexpr(r, depth - 1));
            case 2:
            case 3:
                return mul(gexpr(r, depth - 1), gexpr(r, depth - 1));
            case 4:
                return pow(gexpr(r, depth - 1), integer(r.coin(1, 4) ? -r.range(1, 2) : r.range(2, 3)));
            case 5:
                return r.coin() ? sin(gexpr(r, depth - 1)) : cos(gexpr(r, depth - 1));
            case 6:
                return r.coin() ? exp(gexpr(r, depth - 1)) : log(gexpr(r, depth - 1));
            default:
                return gexpr(r, depth - 1);
        }
    } catch (const std::exception &) {
        return gsym(r);
    }
}
static B gspecial(Rng &r)
{
    switch (r.below(9)) {
        case 0: return zero;
        case 1: return one;
        case 2: return minus_one;
        case 3: return Inf;
        case 4: return NegInf;
        case 5: return ComplexInf;
        case 6: return Nan;
        case 7: return I;
        default: return Rational::from_two_ints(*integer(1), *integer(2));
    }
}
static B gint(Rng &r, bool nonzero)
{
    long v = r.coin(1, 6) ? r.range(-1000000, 1000000) : r.range(-30, 30);
    if (nonzero && v == 0)
        v = 7;
    return integer(v);
}
static B gset(Rng &r, int depth = 1)
{
    try {
        switch (r.below(depth > 0 ? 8 : 6)) {
            case 0: {
                long a = r.range(-5, 5), b = a + r.range(0, 5);
                return interval(integer(a), integer(b), r.coin(), r.coin());
            }
            case 1:
            case 2: {
                set_basic s;
                int n = (int)r.below(4);
                for (int i = 0; i < n; i++)
                    s.insert(r.coin(1, 4) ? gsym(r) : B(integer(r.range(-4, 8))));
                return finiteset(s);
            }
            // only intervals, finite sets and their unions/intersections are combined: the infinite sets
            // (Reals, Integers, Rationals ...) hit unbounded recursion in sets.cpp (C27 territory, reported)
            case 3: case 4: {
                long a = r.range(-5, 5), b = a + r.range(1, 4);
                return interval(integer(a), integer(b), r.coin(), r.coin());
            }
            case 5: return emptyset();
            case 6: return rcp_static_cast<const Set>(gset(r, 0))->set_union(rcp_static_cast<const Set>(gset(r, 0)));
            default: return rcp_static_cast<const Set>(gset(r, 0))->set_intersection(rcp_static_cast<const Set>(gset(r, 0)));
        }
    } catch (const std::exception &) {
        return emptyset();
    }
}
static std::string D(const B &b)
{
    return dump(b);
}
static std::string enc(std::string s)
{
    for (auto &c : s)
        if (c == ' ')
            c = '~';
    return "s:" + s;
}
static std::string I_(long v)
{
    return "i:" + std::to_string(v);
}

// The generator builds its operands through the real library; whatever the library throws while doing so
// (DomainError of sin(zoo), division by zero in a constructor ...) only skips that case.
static long g_gen_skipped = 0;
#define SAFE(stmt)                                                                                                     \
    try {                                                                                                              \
        stmt;                                                                                                          \
    } catch (const std::exception &) {                                                                                 \
        g_gen_skipped++;                                                                                               \
    }

static const char *ONE_FUNCS[] = {"expand", "neg", "abs", "erf", "erfc", "sin", "cos", "tan", "csc", "sec", "cot", "asin",
    "acos", "asec", "acsc", "atan", "acot", "sinh", "cosh", "tanh", "csch", "sech", "coth", "asinh", "acosh", "asech",
    "acsch", "atanh", "acoth", "lambertw", "zeta", "dirichlet_eta", "gamma", "loggamma", "sqrt", "cbrt", "exp", "log",
    "floor", "ceiling", "sign"};
static const char *TWO_FUNCS[] = {"add", "sub", "mul", "pow", "div", "atan2", "kronecker_delta", "lowergamma", "uppergamma",
    "beta", "polygamma"};
static const char *STR_FUNCS[] = {"basic_str", "basic_str_julia", "basic_str_mathml", "basic_str_latex", "basic_str_jscode",
    "basic_str_ccode", "basic_str_cudacode", "basic_str_metalcode"};
static const char *PARSE_STRS[] = {"x + 1", "x**2 - y", "(x+1)*(y", "x +* 2", "sin(x)/0", "2^x", "1/0", "", "x y", "f(x, y) + 3",
    "3.5e", "pi*E", "sqrt(", "1e400", "x***2", "((((x))))", "-", "(a > 1) & (b < 2)", "x > 2", "0x1F", "2.5 + x", ")", "max(x, 2)", "unknownfn(1,2)"};
static const char *INT_STRS[] = {"12345678901234567890123", "-42", "0", "abc", "", "12x", "+7", " 5", "0x10", "1.5"};

void hx_gen(Rng &r, const std::string &tier)
{
    bool th = tier == "thorough";
    int scale = th ? 8 : 1;
    // ---- reproducers of the recorded findings (always; see docs/C42.md)
    try {
        B x = symbol("x");
        B U = interval(integer(0), integer(1), false, false)->set_union(interval(integer(2), integer(3), false, false));
        B F = finiteset({x});
        SAFE(emit("capi basic_dumps " + D(complexes()), "escape-repro"));
        SAFE(emit("capi basic_set_is_subset " + D(F) + " " + D(U), "escape-repro"));
        SAFE(emit("capi basic_set_is_proper_subset " + D(F) + " " + D(U), "escape-repro"));
        SAFE(emit("capi basic_set_is_superset " + D(U) + " " + D(F), "escape-repro"));
        SAFE(emit("capi basic_set_is_proper_superset " + D(U) + " " + D(F), "escape-repro"));
        SAFE(emit("capi lambda_real_double_visitor_init i:0 i:0 " + D(x), "escape-repro"));
        SAFE(emit("capi lambda_real_double_visitor_init i:1 i:0 " + D(x) + " " + D(function_symbol("f", x)), "escape-repro"));
        SAFE(emit("capi basic_set_universalset", "result-repro"));
        SAFE(emit("capif basic_parse s:a~&~b", "crash-repro"));
        SAFE(emit("capif basic_parse2 s:2^x i:0", "crash-repro"));
        SAFE(emit("capif rational_set_si i:1 i:0", "crash-repro"));
        SAFE(emit("capif rational_set_ui i:1 i:0", "crash-repro"));
        for (const char *f : {"mod", "quotient", "mod_f", "quotient_f", "quotient_mod", "quotient_mod_f"})
            SAFE(emit(std::string("capif ntheory_") + f + " 5 0", "crash-repro"));
    } catch (const std::exception &) {
        g_gen_skipped++;
    }
    // ---- boundary cases with documented error codes / throwing C++
    SAFE(emit("capi basic_diff " + D(mul(symbol("x"), symbol("y"))) + " 3", "capi-throwing"));
    SAFE(emit("capi basic_diff " + D(mul(symbol("x"), symbol("y"))) + " " + D(add(symbol("x"), one)), "capi-throwing"));
    SAFE(emit("capi rational_set " + D(symbol("x")) + " 2", "capi-throwing"));
    SAFE(emit("capi rational_set 3 0", "capi-throwing"));
    SAFE(emit("capi rational_set 0 0", "capi-throwing"));
    SAFE(emit("capi rational_set 1/2 3", "capi-throwing"));
    SAFE(emit("capi basic_max", "capi-throwing"));
    SAFE(emit("capi basic_min", "capi-throwing"));
    SAFE(emit("capi basic_max " + D(I) + " 2", "capi-throwing"));
    SAFE(emit("capi basic_evalf " + D(add(symbol("x"), one)) + " u:53 i:1", "capi-throwing"));
    SAFE(emit("capi basic_evalf " + D(pi) + " u:200 i:1", "capi-throwing"));
    SAFE(emit("capi basic_evalf " + D(pow(integer(-2), Rational::from_two_ints(*integer(1), *integer(2)))) + " u:53 i:1", "capi-throwing"));
    SAFE(emit("capi basic_set_interval 3 1 i:0 i:0", "capi-throwing"));
    SAFE(emit("capi basic_set_interval " + D(I) + " 4 i:0 i:0", "capi-throwing"));
    SAFE(emit("capi basic_set_interval " + D(Inf) + " " + D(Inf) + " i:0 i:0", "capi-throwing"));
    SAFE(emit("capi basic_set_sup " + D(emptyset()), "capi-throwing"));
    SAFE(emit("capi basic_set_inf " + D(reals()), "capi-throwing"));
    SAFE(emit("capi basic_set_sup " + D(finiteset({symbol("x"), one})), "capi-throwing"));
    SAFE(emit("capi basic_solve_poly " + D(sin(symbol("x"))) + " " + D(symbol("x")), "capi-throwing"));
    SAFE(emit("capi basic_solve_poly " + D(add(pow(symbol("x"), integer(5)), add(symbol("x"), one))) + " " + D(symbol("x")), "capi-throwing"));
    SAFE(emit("capi dense_matrix_inv i:2 i:2 1 2 2 4", "capi-throwing"));
    SAFE(emit("capi dense_matrix_inv i:2 i:3 1 2 3 4 5 6", "capi-throwing"));
    SAFE(emit("capi dense_matrix_det i:2 i:3 1 2 3 4 5 6", "capi-throwing"));
    SAFE(emit("capi dense_matrix_diff i:1 i:1 " + D(symbol("x")) + " 2", "capi-throwing"));
    SAFE(emit("capi ntheory_binomial -3 u:2", "capi-ntheory"));
    SAFE(emit("capi ntheory_mod_inverse 3 0", "capi-ntheory"));
    SAFE(emit("capi ntheory_mod_inverse 2 4", "capi-ntheory"));
    SAFE(emit("capi basic_subs " + D(add(symbol("x"), symbol("y"))) + " " + D(symbol("x")) + " " + D(symbol("y")) + " " + D(symbol("y")) + " " + D(symbol("x")), "capi-arith"));
    for (const char *s : PARSE_STRS) {
        SAFE(emit("capi basic_parse " + enc(s), "capi-parse"));
        // convert_xor = 0 turns ^ into logical xor, which segfaults on non-Boolean operands (finding C42-K2)
        bool has_xor = std::string(s).find('^') != std::string::npos;
        SAFE(emit("capi basic_parse2 " + enc(s) + " i:" + std::to_string(has_xor ? 1 : r.below(2)), "capi-parse"));
    }
    for (const char *s : INT_STRS)
        SAFE(emit("capi integer_set_str " + enc(s), "capi-parse"));
    for (const char *c : {"basic_const_zero", "basic_const_one", "basic_const_minus_one", "basic_const_I", "basic_const_pi",
                          "basic_const_E", "basic_const_EulerGamma", "basic_const_Catalan", "basic_const_GoldenRatio",
                          "basic_const_infinity", "basic_const_neginfinity", "basic_const_complex_infinity", "basic_const_nan",
                          "bool_set_true", "bool_set_false", "basic_set_emptyset", "basic_set_complexes", "basic_set_reals",
                          "basic_set_rationals", "basic_set_integers"})
        SAFE(emit(std::string("capi ") + c, "capi-const"));
    SAFE(emit("capi basic_const_set s:tau", "capi-const"));
    SAFE(emit("capi symbol_set s:alpha", "capi-const"));
    SAFE(emit("capi integer_set_si i:-9223372036854775807", "capi-const"));
    SAFE(emit("capi integer_set_ui u:18446744073709551615", "capi-const"));
    SAFE(emit("capi rational_set_si i:6 i:-4", "capi-const"));
    SAFE(emit("capi rational_set_ui u:6 u:4", "capi-const"));
    SAFE(emit("capi dense_matrix_eye i:2 i:3 i:1", "capi-matrix"));
    // ---- random calls
    for (int n = 0; n < 60 * scale; n++) {
        try {
            const char *f = ONE_FUNCS[r.below(sizeof ONE_FUNCS / sizeof *ONE_FUNCS)];
            B a = r.coin(1, 4) ? gspecial(r) : gexpr(r, (int)r.below(3));
            emit(std::string("capi basic_") + f + " " + D(a), "capi-onearg");
        } catch (const std::exception &) {
            g_gen_skipped++;
        }
    }
    for (int n = 0; n < 60 * scale; n++) {
        try {
            const char *f = TWO_FUNCS[r.below(sizeof TWO_FUNCS / sizeof *TWO_FUNCS)];
            B a = r.coin(1, 5) ? gspecial(r) : gexpr(r, (int)r.below(3));
            B b = r.coin(1, 5) ? gspecial(r) : gexpr(r, (int)r.below(3));
            emit(std::string("capi basic_") + f + " " + D(a) + " " + D(b), "capi-twoarg");
        } catch (const std::exception &) {
            g_gen_skipped++;
        }
    }
    for (int n = 0; n < 30 * scale; n++) {
        try {
            B e = gexpr(r, 1 + (int)r.below(3));
            switch (r.below(12)) {
                case 0: emit("capi basic_diff " + D(e) + " " + D(r.coin(1, 6) ? gexpr(r, 1) : gsym(r)), "capi-calculus"); break;
                case 1: emit("capi basic_subs2 " + D(e) + " " + D(gsym(r)) + " " + D(gexpr(r, 1)), "capi-calculus"); break;
                case 2: emit("capi basic_coeff " + D(e) + " " + D(gsym(r)) + " " + D(integer(r.range(0, 3))), "capi-calculus"); break;
                case 3: emit("capi basic_as_numer_denom " + D(e), "capi-calculus"); break;
                case 4: emit("capi basic_get_args " + D(e), "capi-calculus"); break;
                case 5: emit("capi basic_free_symbols " + D(e), "capi-calculus"); break;
                case 6: emit("capi basic_function_symbols " + D(add(e, function_symbol("f", gexpr(r, 1)))), "capi-calculus"); break;
                case 7: if (is_a<Add>(*e)) emit("capi basic_add_as_two_terms " + D(e), "capi-calculus");
                        else if (is_a<Mul>(*e)) emit("capi basic_mul_as_two_terms " + D(e), "capi-calculus");
                        break;
                case 8: emit("capi basic_evalf " + D(e->subs({{symbol("x"), integer(2)}, {symbol("y"), integer(3)}, {symbol("z"), one}}))
                             + " u:53 i:" + std::to_string(r.below(3)), "capi-calculus"); break;
                case 9: emit("capi basic_loads " + D(e) + " i:" + std::to_string(r.coin(1, 3) ? -1 : (long)r.below(60)), "capi-serial"); break;
                case 10: emit("capi basic_dumps " + D(e), "capi-serial"); break;
                default: emit("capi basic_assign " + D(e), "capi-calculus"); break;
            }
        } catch (const std::exception &) {
            g_gen_skipped++;
        }
    }
    for (int n = 0; n < 25 * scale; n++) {
        try {
            B e = r.coin(1, 5) ? gspecial(r) : r.coin(1, 6) ? gset(r) : gexpr(r, (int)r.below(3));
            emit(std::string("capi ") + STR_FUNCS[r.below(8)] + " " + D(e), "capi-str");
            B e2 = r.coin(1, 3) ? e : gexpr(r, (int)r.below(2));
            switch (r.below(6)) {
                case 0: emit("capi basic_eq " + D(e) + " " + D(e2), "capi-pred"); break;
                case 1: emit("capi basic_neq " + D(e) + " " + D(e2), "capi-pred"); break;
                case 2: emit("capi basic_hash " + D(e), "capi-pred"); break;
                case 3: emit("capi basic_get_type " + D(e), "capi-pred"); break;
                case 4: emit("capi basic_has_symbol " + D(e) + " " + D(gsym(r)), "capi-pred"); break;
                default: {
                    static const char *isa[] = {"is_a_Number", "is_a_Integer", "is_a_Rational", "is_a_Symbol", "is_a_Complex",
                                                "is_a_RealDouble", "is_a_ComplexDouble", "is_a_Set"};
                    emit(std::string("capi ") + isa[r.below(8)] + " " + D(e), "capi-pred");
                }
            }
            B nn = r.coin() ? gspecial(r) : gnum(r);
            static const char *np[] = {"number_is_zero", "number_is_negative", "number_is_positive", "number_is_complex"};
            emit(std::string("capi ") + np[r.below(4)] + " " + D(nn), "capi-pred");
        } catch (const std::exception &) {
            g_gen_skipped++;
        }
    }
    for (int n = 0; n < 30 * scale; n++) {
        try {
            static const char *nt[] = {"gcd", "lcm", "mod", "quotient", "mod_f", "quotient_f", "quotient_mod", "quotient_mod_f", "gcd_ext", "mod_inverse"};
            const char *f = nt[r.below(10)];
            bool nz = std::string(f) != "gcd" && std::string(f) != "lcm" && std::string(f) != "gcd_ext";
            emit(std::string("capi ntheory_") + f + " " + D(gint(r, false)) + " " + D(gint(r, nz)), "capi-ntheory");
            switch (r.below(5)) {
                case 0: emit("capi ntheory_nextprime " + D(gint(r, false)), "capi-ntheory"); break;
                case 1: emit("capi ntheory_binomial " + D(integer(r.range(-5, 40))) + " u:" + std::to_string(r.below(12)), "capi-ntheory"); break;
                case 2: emit(std::string("capi ntheory_") + (r.coin() ? "fibonacci" : "lucas") + " u:" + std::to_string(r.below(90)), "capi-ntheory"); break;
                case 3: emit(std::string("capi ntheory_") + (r.coin() ? "fibonacci2" : "lucas2") + " u:" + std::to_string(1 + r.below(90)), "capi-ntheory"); break;
                default: emit("capi ntheory_factorial u:" + std::to_string(r.below(30)), "capi-ntheory"); break;
            }
        } catch (const std::exception &) {
            g_gen_skipped++;
        }
    }
    for (int n = 0; n < 30 * scale; n++) {
        try {
            B s1 = gset(r), s2 = gset(r);
            static const char *s2f[] = {"union", "intersection", "complement", "is_subset", "is_proper_subset", "is_superset", "is_proper_superset"};
            static const char *s1f[] = {"inf", "sup", "boundary", "interior", "closure"};
            switch (r.below(4)) {
                case 0: case 1: emit(std::string("capi basic_set_") + s2f[r.below(7)] + " " + D(s1) + " " + D(s2), "capi-sets"); break;
                case 2: emit(std::string("capi basic_set_") + s1f[r.below(5)] + " " + D(r.coin(1, 5) ? B(reals()) : r.coin(1, 5) ? B(integers()) : s1), "capi-sets"); break;
                default: emit("capi basic_set_contains " + D(s1) + " " + D(r.coin() ? gnum(r) : gsym(r)), "capi-sets"); break;
            }
            if (r.coin(1, 3)) {
                std::string l = "capi basic_set_finiteset";
                for (int k = (int)r.below(5); k > 0; k--) l += " " + D(r.coin() ? gnum(r) : gexpr(r, 1));
                emit(l, "capi-sets");
            }
            if (r.coin(1, 3)) {
                long a = r.range(-4, 4), b = r.range(-4, 6);
                emit("capi basic_set_interval " + std::to_string(a) + " " + std::to_string(b) + " i:" + std::to_string(r.below(2)) + " i:" + std::to_string(r.below(2)), "capi-sets");
            }
        } catch (const std::exception &) {
            g_gen_skipped++;
        }
    }
    for (int n = 0; n < 20 * scale; n++) {
        try {
            static const char *vf[] = {"basic_max", "basic_min", "basic_add_vec", "basic_mul_vec"};
            unsigned k = r.below(4);
            std::string l = std::string("capi ") + vf[k];
            for (int j = (int)r.below(5); j > 0; j--) l += " " + D(k < 2 ? (r.coin(1, 8) ? gsym(r) : gnum(r)) : gexpr(r, 1));
            emit(l, "capi-vecfn");
            if (r.coin(1, 3)) {
                std::string c = "capi basic_cse";
                B sub = gexpr(r, 1);
                for (int j = 1 + (int)r.below(3); j > 0; j--) c += " " + D(add(mul(sub, gexpr(r, 1)), sin(sub)));
                emit(c, "capi-vecfn");
            }
            if (r.coin(1, 3)) {
                B x = symbol("x"), y = symbol("y");
                B e1 = add(add(mul(integer(r.range(1, 5)), x), mul(integer(r.range(-5, 5)), y)), integer(r.range(-9, 9)));
                B e2 = add(add(mul(integer(r.range(-5, 5)), x), mul(integer(r.range(1, 5)), y)), integer(r.range(-9, 9)));
                emit("capi vecbasic_linsolve i:2 " + D(e1) + " " + D(e2) + " " + D(x) + " " + D(y), "capi-vecfn");
            }
            if (r.coin(1, 3)) {
                B x = symbol("x");
                B p = add(add(mul(integer(r.range(1, 3)), pow(x, integer(r.range(2, 3)))), mul(integer(r.range(-5, 5)), x)), integer(r.range(-6, 6)));
                emit("capi basic_solve_poly " + D(p) + " " + D(x), "capi-vecfn");
            }
            if (r.coin(1, 2)) {
                unsigned na = 1 + (unsigned)r.below(2);
                std::string l2 = "capi lambda_real_double_visitor_init i:" + std::to_string(na) + " i:" + std::to_string(r.below(2));
                l2 += " " + D(symbol("x"));
                if (na == 2) l2 += " " + D(symbol("y"));
                for (int j = 1 + (int)r.below(2); j > 0; j--) {
                    B e = gexpr(r, 2);
                    e = e->subs({{symbol("z"), integer(2)}, {I, integer(3)}});
                    if (na == 1) e = e->subs({{symbol("y"), integer(5)}});
                    l2 += " " + D(e);
                }
                emit(l2, "capi-lambda");
            }
        } catch (const std::exception &) {
            g_gen_skipped++;
        }
    }
    for (int n = 0; n < 16 * scale; n++) {
        try {
            static const char *mf[] = {"det", "inv", "transpose", "mul_matrix", "add_matrix", "mul_scalar", "add_scalar", "diff", "FFLU", "str", "eq", "get_basic"};
            unsigned k = r.below(12);
            unsigned dim = 1 + (unsigned)r.below(3);
            std::string l = std::string("capi dense_matrix_") + mf[k] + " i:" + std::to_string(dim) + " i:" + std::to_string(dim);
            if (k == 11) l += " i:" + std::to_string(r.below(dim)) + " i:" + std::to_string(r.below(dim));
            for (unsigned j = 0; j < dim * dim; j++) l += " " + D(r.coin(1, 4) ? gexpr(r, 1) : B(integer(r.range(-4, 4))));
            if (k == 5 || k == 6) l += " " + D(gexpr(r, 1));
            if (k == 7) l += " " + D(r.coin(1, 8) ? B(integer(2)) : gsym(r));
            emit(l, "capi-matrix");
        } catch (const std::exception &) {
            g_gen_skipped++;
        }
    }
    // ---- container histories
    auto gel = [&]() { return D(r.coin(2, 3) ? (r.coin() ? gsym(r) : B(integer(r.range(-3, 3)))) : gexpr(r, 1)); };
    for (int n = 0; n < 25 * scale; n++) {
        try {
            Strs ops;
            int len = 1 + (int)r.below(th ? 30 : 12), sz = 0;
            for (int i = 0; i < len; i++) {
                unsigned k = r.below(10);
                auto idx = [&]() { return std::to_string(r.coin(1, 7) ? sz + (int)r.below(3) : (sz ? (int)r.below(sz) : 0)); };
                if (k < 4 || sz == 0) { ops.push_back("push " + gel()); sz++; }
                else if (k < 6) ops.push_back("get " + idx());
                else if (k < 7) ops.push_back("set " + idx() + " " + gel());
                else if (k < 9) { std::string ix = idx(); if (std::stoi(ix) < sz) sz--; ops.push_back("erase " + ix); }
                else ops.push_back("size");
            }
            emit("vec " + join(ops, ";"), "vec");
        } catch (const std::exception &) {
            g_gen_skipped++;
        }
    }
    for (int n = 0; n < 25 * scale; n++) {
        try {
            Strs ops;
            int len = 1 + (int)r.below(th ? 30 : 12);
            for (int i = 0; i < len; i++) {
                unsigned k = r.below(10);
                if (k < 4) ops.push_back("insert " + gel());
                else if (k < 6) ops.push_back("find " + gel());
                else if (k < 8) ops.push_back("erase " + gel());
                else if (k < 9) ops.push_back("size");
                else ops.push_back("all");
            }
            ops.push_back("all");
            emit("set " + join(ops, ";"), "set");
        } catch (const std::exception &) {
            g_gen_skipped++;
        }
    }
    for (int n = 0; n < 25 * scale; n++) {
        try {
            Strs ops;
            int len = 1 + (int)r.below(th ? 30 : 12);
            for (int i = 0; i < len; i++) {
                unsigned k = r.below(10);
                if (k < 5) ops.push_back("insert " + gel() + " " + gel());
                else if (k < 9) ops.push_back("get " + gel());
                else ops.push_back("size");
            }
            ops.push_back("size");
            emit("map " + join(ops, ";"), "map");
        } catch (const std::exception &) {
            g_gen_skipped++;
        }
    }
    for (int n = 0; n < 8 * scale; n++) {
        try {
            Strs ops;
            int len = 1 + (int)r.below(12), sz = 0;
            for (int i = 0; i < len; i++) {
                if (r.coin() || sz == 0) { ops.push_back("push " + std::to_string(r.range(-2147483647L, 2147483647L))); sz++; }
                else ops.push_back("get " + std::to_string(r.coin(1, 8) ? sz + 1 : (int)r.below(sz)));
            }
            emit("vint " + join(ops, ";"), "vint");
        } catch (const std::exception &) {
            g_gen_skipped++;
        }
    }
    // ---- Expression wrapper
    static const char *eops[][2] = {{"operator+", "EE"}, {"operator+", "BE"}, {"operator+", "EB"}, {"operator+=", "E"}, {"operator+=", "B"},
        {"operator-", "EE"}, {"operator-", "BE"}, {"operator-", "EB"}, {"operator-=", "E"}, {"operator-=", "B"},
        {"operator*", "EE"}, {"operator*", "BE"}, {"operator*", "EB"}, {"operator*=", "E"}, {"operator*=", "B"},
        {"operator/", "EE"}, {"operator/", "BE"}, {"operator/", "EB"}, {"operator/=", "E"}, {"operator/=", "B"},
        {"operator==", "E"}, {"operator==", "B"}, {"operator!=", "E"}, {"operator!=", "B"}, {"operator-", "-"},
        {"pow", "EE"}, {"expand", "E"}, {"diff", "Sb"}, {"diff", "Bb"}, {"subs", "M"}};
    for (int n = 0; n < 3 * scale; n++)
        for (auto &eo : eops) {
            try {
                B a = r.coin(1, 6) ? gspecial(r) : gexpr(r, (int)r.below(3));
                B b = r.coin(1, 6) ? gspecial(r) : r.coin(1, 5) ? a : gexpr(r, (int)r.below(3));
                std::string op = eo[0], k = eo[1];
                if (op == "diff" || op == "subs") b = gsym(r);
                std::string l = "expr " + op + " " + k + " " + D(a) + " " + D(b);
                if (op == "subs") l += " " + D(gexpr(r, 1));
                emit(l, "expr");
            } catch (const std::exception &) {
                g_gen_skipped++;
            }
        }
    if (g_gen_skipped)
        std::cerr << "c42 gen: " << g_gen_skipped << " case(s) skipped because the library threw while building the operands\n";
}
