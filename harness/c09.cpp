// C09: expand is value-preserving, complete, idempotent and decides identity.
//
// Op lines (operands are canonical dumps, harness/sexp.h):
//   expand E          exact integer-exponent family; output dump(expand(E)); judged by the proven Lean certificate
//                     checker (value through NF, structural completeness, canonical polynomial form) and by the oracles
//   rexpand E         radical family (radicals of sums, D9): Lean answers SKIP; oracles only
//   pair E1 E2        output  dump(expand E1) ;; dump(expand E2) ;; eq-flag      (identity decision)
//   rpair E1 E2       radical / symbolic-power products: E1 = symbols * (base)^q ... with products and integer powers
//                     of sums *inside* the bases, E2 = the same with the bases expanded by the harness' own
//                     schoolbook expansion; the two expansions must be eq; Lean answers SKIP; oracles only
//   multinomial m n   output  k1,k2,..=c;...  (entries of multinomial_coefficients_mpz(m, n) in key order)
//
// Oracles (independent of the Lean side and of the library's own arithmetic):
//   dict      own schoolbook expansion of the *stored fields* of E into a monomial dictionary over Q(i)
//             (GMP rationals; exponent vectors over atoms; a negative power of a sum is the opaque factor
//             INV{D} keyed by the normalised dictionary D of the denominator) compared with the dictionary
//             read off the result; structural shape of the result's top level (keys are neither numbers,
//             sums nor products with a non-unit coefficient; distinct keys are distinct monomials)
//   value     own exact evaluator over Q(i) at pseudo-random points (atoms keyed by dump string)
//   numeric   (radical family) own long-double evaluator at positive points
//   expanded  structural completeness on the real result: outside function arguments no Add key inside an
//             Add, no Mul factor (Add)^(positive integer), no Pow(Add, positive integer)
//   idem      eq(expand(expand E), expand E)
//   identity  (pair) eq(expand E1, expand E2) <=> the two schoolbook dictionaries are equal
//   multinomial  every coefficient = n!/prod(k_i!) (own GMP factorials), keys = all compositions of n
#include "common.h"
#include "sexp.h"
#include <cmath>
#include <memory>
#include <set>
#include <gmp.h>
#include <symengine/visitor.h>

using namespace SymEngine;
typedef RCP<const Basic> B;

// ------------------------------------------------------------------ exact numbers: Q and Q(i) on GMP's C API
struct MQ {
    mpq_t v;
    MQ()
    {
        mpq_init(v);
    }
    MQ(long n, unsigned long d = 1)
    {
        mpq_init(v);
        mpq_set_si(v, n, d);
        mpq_canonicalize(v);
    }
    MQ(const MQ &o)
    {
        mpq_init(v);
        mpq_set(v, o.v);
    }
    MQ &operator=(const MQ &o)
    {
        mpq_set(v, o.v);
        return *this;
    }
    ~MQ()
    {
        mpq_clear(v);
    }
    static MQ fromStr(const std::string &s)
    {
        MQ r;
        if (mpq_set_str(r.v, s.c_str(), 10) != 0)
            throw std::runtime_error("c09: bad rational " + s);
        mpq_canonicalize(r.v);
        return r;
    }
    bool isZero() const
    {
        return mpq_sgn(v) == 0;
    }
    std::string str() const
    {
        char *s = mpq_get_str(nullptr, 10, v);
        std::string o(s);
        free(s);
        return o;
    }
    long double toLD() const
    {
        if (mpq_sgn(v) == 0)
            return 0.0L;
        long en = 0, ed = 0;
        double dn = mpz_get_d_2exp(&en, mpq_numref(v)), dd = mpz_get_d_2exp(&ed, mpq_denref(v));
        return ldexpl((long double)dn / (long double)dd, (int)(en - ed));
    }
};
static MQ operator+(const MQ &a, const MQ &b)
{
    MQ r;
    mpq_add(r.v, a.v, b.v);
    return r;
}
static MQ operator-(const MQ &a, const MQ &b)
{
    MQ r;
    mpq_sub(r.v, a.v, b.v);
    return r;
}
static MQ operator*(const MQ &a, const MQ &b)
{
    MQ r;
    mpq_mul(r.v, a.v, b.v);
    return r;
}
static MQ operator/(const MQ &a, const MQ &b)
{
    MQ r;
    mpq_div(r.v, a.v, b.v);
    return r;
}
static bool operator==(const MQ &a, const MQ &b)
{
    return mpq_equal(a.v, b.v) != 0;
}
struct GQ {
    MQ re, im;
    GQ() {}
    GQ(long n) : re(n), im(0) {}
    GQ(const MQ &r, const MQ &i) : re(r), im(i) {}
    bool isZero() const
    {
        return re.isZero() && im.isZero();
    }
    bool isOne() const
    {
        return im.isZero() && re == MQ(1);
    }
    std::string str() const
    {
        return im.isZero() ? re.str() : re.str() + "+" + im.str() + "i";
    }
};
static GQ operator+(const GQ &a, const GQ &b)
{
    return GQ(a.re + b.re, a.im + b.im);
}
static GQ operator*(const GQ &a, const GQ &b)
{
    return GQ(a.re * b.re - a.im * b.im, a.re * b.im + a.im * b.re);
}
static GQ inv(const GQ &a)
{
    MQ n = a.re * a.re + a.im * a.im;
    return GQ(a.re / n, (MQ(0) - a.im) / n);
}
static bool operator==(const GQ &a, const GQ &b)
{
    return a.re == b.re && a.im == b.im;
}
static bool gqPow(const GQ &b, long n, GQ &out)
{
    GQ base = b;
    if (n < 0) {
        if (b.isZero())
            return false;
        base = inv(b);
        n = -n;
    }
    GQ r(1);
    for (long k = 0; k < n; k++)
        r = r * base;
    out = r;
    return true;
}
static GQ numValue(const Basic &b)
{
    if (is_a<Complex>(b)) {
        const Complex &c = down_cast<const Complex &>(b);
        return GQ(MQ::fromStr(vsexp::rat_str(c.real_)), MQ::fromStr(vsexp::rat_str(c.imaginary_)));
    }
    return GQ(MQ::fromStr(vsexp::dump(b)), MQ(0));
}
static bool exactNumber(const Basic &b)
{
    return is_a<Integer>(b) || is_a<Rational>(b) || is_a<Complex>(b);
}
static bool intExp(const Basic &e, long &n)
{
    if (!is_a<Integer>(e))
        return false;
    const integer_class &i = down_cast<const Integer &>(e).as_integer_class();
    if (i > 4096 || i < -4096)
        return false;
    n = mp_get_si(i);
    return true;
}
static uint64_t strHash(const std::string &s, uint64_t salt)
{
    uint64_t h = 1469598103934665603ULL ^ (salt * 0x9E3779B97F4A7C15ULL);
    for (unsigned char c : s) {
        h ^= c;
        h *= 1099511628211ULL;
    }
    h ^= h >> 31;
    h *= 0xBF58476D1CE4E5B9ULL;
    h ^= h >> 29;
    return h;
}

// ------------------------------------------------------------------ schoolbook dictionaries
struct TooBig : std::exception {
};
struct Undefined : std::exception {
};
struct Unsupported : std::exception {
    std::string what_;
    explicit Unsupported(const std::string &s) : what_(s) {}
    const char *what() const noexcept override
    {
        return what_.c_str();
    }
};

struct PolyD;
typedef std::shared_ptr<const PolyD> PolyP;
struct TermKey {
    std::map<std::string, long> ex; // atom dump -> exponent (non-zero, any sign)
    PolyP inv;                      // normalised denominator dictionary (first coefficient 1) or null
    std::string str() const;
};
struct PolyD {
    std::map<std::string, std::pair<TermKey, GQ>> t; // key string -> (key, non-zero coefficient)
    std::string str() const
    {
        std::string o;
        for (auto &kv : t)
            o += kv.first + "=>" + kv.second.second.str() + ";";
        return o;
    }
    size_t size() const
    {
        return t.size();
    }
    void addTerm(const TermKey &k, const GQ &c)
    {
        if (c.isZero())
            return;
        std::string s = k.str();
        auto it = t.find(s);
        if (it == t.end())
            t.emplace(s, std::make_pair(k, c));
        else {
            it->second.second = it->second.second + c;
            if (it->second.second.isZero())
                t.erase(it);
        }
    }
};
std::string TermKey::str() const
{
    std::string o;
    for (auto &kv : ex)
        o += kv.first + "^" + std::to_string(kv.second) + "*";
    if (inv)
        o += "/{" + inv->str() + "}";
    return o;
}

static long g_work = 0, g_workCap = 400000;
static size_t g_termCap = 3000;

static PolyD polyConst(const GQ &c)
{
    PolyD p;
    p.addTerm(TermKey(), c);
    return p;
}
static PolyD polyAdd(const PolyD &a, const PolyD &b)
{
    PolyD r = a;
    for (auto &kv : b.t)
        r.addTerm(kv.second.first, kv.second.second);
    return r;
}
static PolyD polyScale(const PolyD &a, const GQ &c)
{
    PolyD r;
    if (c.isZero())
        return r;
    for (auto &kv : a.t)
        r.t.emplace(kv.first, std::make_pair(kv.second.first, kv.second.second * c));
    return r;
}
static PolyD polyMul(const PolyD &a, const PolyD &b);

// divide by the first coefficient; returns that coefficient
static GQ normaliseLead(PolyD &p)
{
    if (p.t.empty())
        throw Undefined();
    GQ lc = p.t.begin()->second.second;
    if (!lc.isOne()) {
        GQ li = inv(lc);
        for (auto &kv : p.t)
            kv.second.second = kv.second.second * li;
    }
    return lc;
}

// product of two keys; `scal` receives the scalar split off by normalising the merged denominator
static TermKey keyMul(const TermKey &a, const TermKey &b, GQ &scal)
{
    TermKey k;
    k.ex = a.ex;
    for (auto &kv : b.ex) {
        long &e = k.ex[kv.first];
        e += kv.second;
        if (e == 0)
            k.ex.erase(kv.first);
    }
    scal = GQ(1);
    if (a.inv && b.inv) {
        PolyD d = polyMul(*a.inv, *b.inv);
        GQ lc = normaliseLead(d);
        scal = inv(lc);
        k.inv = std::make_shared<const PolyD>(d);
    } else if (a.inv)
        k.inv = a.inv;
    else if (b.inv)
        k.inv = b.inv;
    return k;
}
static PolyD polyMul(const PolyD &a, const PolyD &b)
{
    g_work += (long)(a.size() * b.size());
    if (g_work > g_workCap)
        throw TooBig();
    PolyD r;
    for (auto &x : a.t)
        for (auto &y : b.t) {
            GQ s;
            TermKey k = keyMul(x.second.first, y.second.first, s);
            r.addTerm(k, x.second.second * y.second.second * s);
        }
    if (r.size() > g_termCap)
        throw TooBig();
    return r;
}
static PolyD polyPowNat(const PolyD &a, long n)
{
    PolyD r = polyConst(GQ(1));
    for (long i = 0; i < n; i++)
        r = polyMul(r, a);
    return r;
}
// a^(-n), n > 0
static PolyD polyPowNeg(const PolyD &a, long n)
{
    if (a.t.empty())
        throw Undefined();
    if (a.size() == 1) {
        const TermKey &k = a.t.begin()->second.first;
        GQ c;
        gqPow(a.t.begin()->second.second, -n, c);
        TermKey nk;
        for (auto &kv : k.ex)
            nk.ex[kv.first] = -n * kv.second;
        PolyD r;
        r.addTerm(nk, c);
        if (k.inv)
            r = polyMul(r, polyPowNat(*k.inv, n));
        return r;
    }
    PolyD d = polyPowNat(a, n);
    GQ lc = normaliseLead(d);
    TermKey k;
    k.inv = std::make_shared<const PolyD>(d);
    PolyD r;
    r.addTerm(k, inv(lc));
    return r;
}
static PolyD polyPow(const PolyD &a, long n)
{
    return n >= 0 ? polyPowNat(a, n) : polyPowNeg(a, -n);
}
static PolyD polyAtom(const std::string &name)
{
    TermKey k;
    k.ex[name] = 1;
    PolyD p;
    p.addTerm(k, GQ(1));
    return p;
}

// schoolbook expansion of the stored fields
static PolyD normalise(const Basic &b)
{
    switch (b.get_type_code()) {
        case SYMENGINE_INTEGER:
        case SYMENGINE_RATIONAL:
        case SYMENGINE_COMPLEX:
            return polyConst(numValue(b));
        case SYMENGINE_REAL_DOUBLE:
        case SYMENGINE_COMPLEX_DOUBLE:
        case SYMENGINE_INFTY:
        case SYMENGINE_NOT_A_NUMBER:
        case SYMENGINE_REAL_MPFR:
        case SYMENGINE_COMPLEX_MPC:
            throw Unsupported("inexact or non-finite number " + vsexp::dump(b));
        case SYMENGINE_ADD: {
            const Add &a = down_cast<const Add &>(b);
            PolyD acc = normalise(*a.get_coef());
            for (auto &p : a.get_dict()) {
                if (!exactNumber(*p.second))
                    throw Unsupported("inexact coefficient");
                acc = polyAdd(acc, polyScale(normalise(*p.first), numValue(*p.second)));
            }
            return acc;
        }
        case SYMENGINE_MUL: {
            const Mul &m = down_cast<const Mul &>(b);
            PolyD acc = normalise(*m.get_coef());
            for (auto &p : m.get_dict()) {
                long n;
                if (intExp(*p.second, n))
                    acc = polyMul(acc, polyPow(normalise(*p.first), n));
                else
                    acc = polyMul(acc, polyAtom("(^ " + vsexp::dump(*p.first) + " " + vsexp::dump(*p.second) + ")"));
            }
            return acc;
        }
        case SYMENGINE_POW: {
            const Pow &p = down_cast<const Pow &>(b);
            long n;
            if (intExp(*p.get_exp(), n))
                return polyPow(normalise(*p.get_base()), n);
            return polyAtom(vsexp::dump(b));
        }
        default:
            return polyAtom(vsexp::dump(b));
    }
}

// ------------------------------------------------------------------ exact point evaluation (value oracle)
enum Ev { EV_OK, EV_UNDEF, EV_UNSUPPORTED };
static Ev evx(const Basic &b, uint64_t pt, GQ &out)
{
    switch (b.get_type_code()) {
        case SYMENGINE_INTEGER:
        case SYMENGINE_RATIONAL:
        case SYMENGINE_COMPLEX:
            out = numValue(b);
            return EV_OK;
        case SYMENGINE_REAL_DOUBLE:
        case SYMENGINE_COMPLEX_DOUBLE:
        case SYMENGINE_INFTY:
        case SYMENGINE_NOT_A_NUMBER:
        case SYMENGINE_REAL_MPFR:
        case SYMENGINE_COMPLEX_MPC:
            return EV_UNSUPPORTED;
        case SYMENGINE_ADD: {
            const Add &a = down_cast<const Add &>(b);
            GQ acc;
            Ev e = evx(*a.get_coef(), pt, acc);
            if (e != EV_OK)
                return e;
            for (auto &p : a.get_dict()) {
                GQ k, c;
                if ((e = evx(*p.first, pt, k)) != EV_OK)
                    return e;
                if ((e = evx(*p.second, pt, c)) != EV_OK)
                    return e;
                acc = acc + k * c;
            }
            out = acc;
            return EV_OK;
        }
        case SYMENGINE_MUL: {
            const Mul &m = down_cast<const Mul &>(b);
            GQ acc;
            Ev e = evx(*m.get_coef(), pt, acc);
            if (e != EV_OK)
                return e;
            for (auto &p : m.get_dict()) {
                long n;
                GQ pw;
                if (!intExp(*p.second, n)) {
                    // non-integer exponent: the whole power is an atom
                    uint64_t h = strHash("(^ " + vsexp::dump(*p.first) + " " + vsexp::dump(*p.second) + ")", pt);
                    pw = GQ(MQ((long)(h % 19) + 1, (unsigned long)((h >> 8) % 7) + 1), MQ(0));
                } else {
                    GQ base;
                    if ((e = evx(*p.first, pt, base)) != EV_OK)
                        return e;
                    if (!gqPow(base, n, pw))
                        return EV_UNDEF;
                }
                acc = acc * pw;
            }
            out = acc;
            return EV_OK;
        }
        case SYMENGINE_POW: {
            const Pow &p = down_cast<const Pow &>(b);
            long n;
            if (intExp(*p.get_exp(), n)) {
                GQ base;
                Ev e = evx(*p.get_base(), pt, base);
                if (e != EV_OK)
                    return e;
                return gqPow(base, n, out) ? EV_OK : EV_UNDEF;
            }
        } // fall through: atom
        default: {
            uint64_t h = strHash(vsexp::dump(b), pt);
            long rn = (long)(h % 19) + 1, rd = (long)((h >> 8) % 7) + 1;
            if ((h >> 16) & 1)
                rn = -rn;
            long in = 0, id = 1;
            if (b.get_type_code() != SYMENGINE_POW && ((h >> 20) % 3) == 0) {
                in = (long)((h >> 24) % 9) + 1;
                id = (long)((h >> 32) % 5) + 1;
            }
            if (b.get_type_code() == SYMENGINE_POW)
                rn = rn < 0 ? -rn : rn;
            out = GQ(MQ(rn, rd), MQ(in, id));
            return EV_OK;
        }
    }
}

// ------------------------------------------------------------------ numeric evaluation at positive points (radical family)
// 0 ok, 1 discard (non-positive base of a fractional power, overflow), 2 unsupported
static int evn(const Basic &b, uint64_t pt, long double &out)
{
    switch (b.get_type_code()) {
        case SYMENGINE_INTEGER:
        case SYMENGINE_RATIONAL:
            out = MQ::fromStr(vsexp::dump(b)).toLD();
            return 0;
        case SYMENGINE_ADD: {
            const Add &a = down_cast<const Add &>(b);
            long double acc, k, c;
            int s = evn(*a.get_coef(), pt, acc);
            if (s)
                return s;
            for (auto &p : a.get_dict()) {
                if ((s = evn(*p.first, pt, k)))
                    return s;
                if ((s = evn(*p.second, pt, c)))
                    return s;
                acc += k * c;
            }
            out = acc;
            return 0;
        }
        case SYMENGINE_MUL: {
            const Mul &m = down_cast<const Mul &>(b);
            long double acc, base, ex;
            int s = evn(*m.get_coef(), pt, acc);
            if (s)
                return s;
            for (auto &p : m.get_dict()) {
                if ((s = evn(*p.first, pt, base)))
                    return s;
                if ((s = evn(*p.second, pt, ex)))
                    return s;
                long n;
                if (intExp(*p.second, n)) {
                    if (base == 0 && n < 0)
                        return 1;
                    acc *= powl(base, (long double)n);
                } else {
                    if (!(base > 0))
                        return 1;
                    acc *= powl(base, ex);
                }
            }
            out = acc;
            return 0;
        }
        case SYMENGINE_POW: {
            const Pow &p = down_cast<const Pow &>(b);
            long double base, ex;
            int s;
            if ((s = evn(*p.get_base(), pt, base)))
                return s;
            if ((s = evn(*p.get_exp(), pt, ex)))
                return s;
            long n;
            if (intExp(*p.get_exp(), n)) {
                if (base == 0 && n < 0)
                    return 1;
                out = powl(base, (long double)n);
            } else {
                if (!(base > 0))
                    return 1;
                out = powl(base, ex);
            }
            return 0;
        }
        case SYMENGINE_SYMBOL:
        case SYMENGINE_FUNCTIONSYMBOL: {
            uint64_t h = strHash(vsexp::dump(b), pt + 1000);
            out = 0.5L + (long double)(h % 100000) / 40000.0L; // in [0.5, 3)
            return 0;
        }
        default:
            return 2;
    }
}

// ------------------------------------------------------------------ structural checks on the real result
// completeness: "" when expanded, otherwise the reason
static std::string notExpanded(const Basic &b)
{
    if (is_a<Add>(b)) {
        for (auto &p : down_cast<const Add &>(b).get_dict()) {
            if (is_a<Add>(*p.first))
                return "a sum is a key of a sum: " + vsexp::dump(*p.first).substr(0, 80);
            std::string w = notExpanded(*p.first);
            if (!w.empty())
                return w;
        }
        return "";
    }
    if (is_a<Mul>(b)) {
        for (auto &p : down_cast<const Mul &>(b).get_dict()) {
            if (is_a<Add>(*p.first) && is_a<Integer>(*p.second) && down_cast<const Integer &>(*p.second).is_positive())
                return "product with a positive integer power of a sum: (" + vsexp::dump(*p.first).substr(0, 80) + ")^"
                       + vsexp::dump(*p.second);
            std::string w = notExpanded(*p.first);
            if (!w.empty())
                return w;
        }
        return "";
    }
    if (is_a<Pow>(b)) {
        const Pow &p = down_cast<const Pow &>(b);
        if (is_a<Add>(*p.get_base()) && is_a<Integer>(*p.get_exp())
            && down_cast<const Integer &>(*p.get_exp()).is_positive())
            return "positive integer power of a sum: (" + vsexp::dump(*p.get_base()).substr(0, 80) + ")^"
                   + vsexp::dump(*p.get_exp());
        return notExpanded(*p.get_base());
    }
    return ""; // numbers, symbols, function applications (arguments are not inspected)
}

// shape of the top level of an expanded result: reason or ""
static std::string badTopShape(const Basic &r)
{
    if (!is_a<Add>(r))
        return "";
    for (auto &p : down_cast<const Add &>(r).get_dict()) {
        if (is_a_Number(*p.first))
            return "a number is a key of the sum";
        if (is_a<Mul>(*p.first) && !down_cast<const Mul &>(*p.first).get_coef()->is_one())
            return "a key of the sum carries a numeric coefficient: " + vsexp::dump(*p.first).substr(0, 80);
        if (is_a_Number(*p.second) && down_cast<const Number &>(*p.second).is_zero())
            return "zero coefficient in the sum";
    }
    return "";
}

static std::string firstDiff(const PolyD &want, const PolyD &got)
{
    for (auto &kv : want.t) {
        auto it = got.t.find(kv.first);
        if (it == got.t.end())
            return "monomial [" + kv.first.substr(0, 100) + "] with coefficient " + kv.second.second.str()
                   + " is missing in the result";
        if (!(it->second.second == kv.second.second))
            return "monomial [" + kv.first.substr(0, 100) + "] has coefficient " + it->second.second.str()
                   + " in the result, schoolbook expansion gives " + kv.second.second.str();
    }
    for (auto &kv : got.t)
        if (!want.t.count(kv.first))
            return "result has the extra monomial [" + kv.first.substr(0, 100) + "] with coefficient "
                   + kv.second.second.str();
    return "";
}

static bool hasNegPowOfSum(const Basic &b)
{
    if (is_a<Pow>(b)) {
        const Pow &p = down_cast<const Pow &>(b);
        if (is_a<Add>(*p.get_base()) && is_a<Integer>(*p.get_exp())
            && down_cast<const Integer &>(*p.get_exp()).is_negative())
            return true;
        return hasNegPowOfSum(*p.get_base());
    }
    if (is_a<Mul>(b)) {
        for (auto &p : down_cast<const Mul &>(b).get_dict()) {
            if (is_a<Add>(*p.first) && is_a<Integer>(*p.second)
                && down_cast<const Integer &>(*p.second).is_negative())
                return true;
            if (hasNegPowOfSum(*p.first))
                return true;
        }
        return false;
    }
    if (is_a<Add>(b)) {
        for (auto &p : down_cast<const Add &>(b).get_dict())
            if (hasNegPowOfSum(*p.first))
                return true;
    }
    return false;
}

// the result contains (sum)^k with an integer k <= -2 (as a Pow or as a factor of a Mul), outside function arguments
static bool hasDeepNegPowOfSum(const Basic &b)
{
    auto deep = [](const Basic &base, const Basic &ex) {
        return is_a<Add>(base) && is_a<Integer>(ex) && down_cast<const Integer &>(ex).as_integer_class() <= -2;
    };
    if (is_a<Pow>(b)) {
        const Pow &p = down_cast<const Pow &>(b);
        return deep(*p.get_base(), *p.get_exp()) || hasDeepNegPowOfSum(*p.get_base());
    }
    if (is_a<Mul>(b)) {
        for (auto &p : down_cast<const Mul &>(b).get_dict())
            if (deep(*p.first, *p.second) || hasDeepNegPowOfSum(*p.first))
                return true;
        return false;
    }
    if (is_a<Add>(b))
        for (auto &p : down_cast<const Add &>(b).get_dict())
            if (hasDeepNegPowOfSum(*p.first))
                return true;
    return false;
}

// some integer power of a sum in `b` has a base whose schoolbook expansion is a single term or a number
static bool hasCollapsingPowBase(const Basic &b)
{
    auto collapses = [](const Basic &base, const Basic &ex) {
        if (!is_a<Add>(base) || !is_a<Integer>(ex))
            return false;
        try {
            g_work = 0;
            return normalise(base).size() <= 1;
        } catch (const std::exception &) {
            return false;
        }
    };
    if (is_a<Pow>(b)) {
        const Pow &p = down_cast<const Pow &>(b);
        return collapses(*p.get_base(), *p.get_exp()) || hasCollapsingPowBase(*p.get_base());
    }
    if (is_a<Mul>(b)) {
        for (auto &p : down_cast<const Mul &>(b).get_dict())
            if (collapses(*p.first, *p.second) || hasCollapsingPowBase(*p.first))
                return true;
        return false;
    }
    if (is_a<Add>(b))
        for (auto &p : down_cast<const Add &>(b).get_dict())
            if (hasCollapsingPowBase(*p.first))
                return true;
    return false;
}

// ------------------------------------------------------------------ running one op
static const int NPTS = 3;

static void judgeExpand(const B &e, const B &r, bool radical, std::string &oracle)
{
    std::string out = vsexp::dump(*r);
    // completeness
    std::string w = notExpanded(*r);
    if (!w.empty()) {
        oracle = "FAIL:not-expanded:" + w;
        return;
    }
    // idempotence
    {
        B r2 = expand(r);
        if (!eq(*r, *r2) || vsexp::dump(*r2) != out) {
            std::string key = "idem";
            // classification of the known family D9b: the result contains (sum)^-k, k >= 2, created by multiplying
            // expanded keys; expand rewrites it on the second pass
            if (!radical && hasDeepNegPowOfSum(*r))
                key = "idem-negpow";
            oracle = "FAIL:" + key + ":expand(expand(e)) = " + vsexp::dump(*r2).substr(0, 160) + " differs from expand(e) = "
                     + out.substr(0, 160);
            return;
        }
    }
    if (!radical) {
        // value at exact points
        int judged = 0;
        for (int pt = 0; pt < NPTS; pt++) {
            GQ want, got;
            Ev a = evx(*e, pt, want);
            if (a == EV_UNSUPPORTED) {
                stat("value_unsupported_input");
                break;
            }
            if (a == EV_UNDEF) {
                stat("value_points_discarded_undefined");
                continue;
            }
            Ev c = evx(*r, pt, got);
            if (c == EV_UNSUPPORTED) {
                oracle = "FAIL:value:result is outside the exact fragment: " + out.substr(0, 160);
                return;
            }
            if (c == EV_UNDEF) {
                oracle = "FAIL:value:result is undefined at a point where the input is defined, point " + std::to_string(pt);
                return;
            }
            judged++;
            if (!(got == want)) {
                oracle = "FAIL:value:result evaluates to " + got.str().substr(0, 60) + ", input to " + want.str().substr(0, 60)
                         + " at point " + std::to_string(pt);
                return;
            }
        }
        stat("value_points_judged", judged);
        // dictionary
        try {
            g_work = 0;
            PolyD want = normalise(*e);
            g_work = 0;
            PolyD got = normalise(*r);
            std::string d = firstDiff(want, got);
            if (!d.empty()) {
                oracle = "FAIL:dict:" + d;
                return;
            }
            std::string s = badTopShape(*r);
            if (!s.empty()) {
                oracle = "FAIL:shape:" + s;
                return;
            }
            size_t entries = 0;
            if (is_a<Add>(*r)) {
                const Add &a = down_cast<const Add &>(*r);
                entries = a.get_dict().size() + (a.get_coef()->is_zero() ? 0 : 1);
                if (entries != got.size()) {
                    if (hasNegPowOfSum(*e)) {
                        // 1/(A*B) and 1/(A B expanded) are the same INV{...} factor for the oracle but different
                        // keys for the library, which does not normalise rational functions: not a defect
                        stat("ratfun_uncombined_denominators");
                    } else {
                        oracle = "FAIL:duplicate:the sum has " + std::to_string(entries) + " entries but only "
                                 + std::to_string(got.size()) + " distinct monomials";
                        return;
                    }
                }
            } else if (got.size() > 1) {
                oracle = "FAIL:shape:result is not a sum but has " + std::to_string(got.size()) + " monomials";
                return;
            }
            stat("dict_judged");
            stat("dict_terms_total", (long)got.size());
        } catch (const TooBig &) {
            stat("dict_skipped_too_big");
        } catch (const Undefined &) {
            stat("dict_skipped_undefined");
        } catch (const Unsupported &) {
            stat("dict_skipped_unsupported");
        }
    } else {
        int judged = 0;
        for (int pt = 0; pt < 4; pt++) {
            long double want, got;
            int a = evn(*e, pt, want);
            if (a == 2) {
                stat("numeric_unsupported_input");
                break;
            }
            if (a == 1) {
                stat("numeric_points_discarded");
                continue;
            }
            int c = evn(*r, pt, got);
            if (c == 2) {
                oracle = "FAIL:numeric:result contains a node the numeric evaluator does not know: " + out.substr(0, 160);
                return;
            }
            if (c == 1) {
                stat("numeric_points_discarded");
                continue;
            }
            long double scale = std::max(fabsl(want), fabsl(got));
            if (!(scale < 1e300L)) {
                stat("numeric_points_discarded");
                continue;
            }
            judged++;
            if (fabsl(want - got) > 1e-9L * std::max(scale, 1.0L)) {
                char buf[200];
                snprintf(buf, sizeof buf, "result=%.15Lg input=%.15Lg at point %d", got, want, pt);
                oracle = std::string("FAIL:numeric:") + buf;
                return;
            }
        }
        stat("numeric_points_judged", judged);
    }
}

static std::string multinomialRun(unsigned m, unsigned n, std::string &oracle)
{
    map_vec_mpz r;
    multinomial_coefficients_mpz(m, n, r);
    std::string out;
    // oracle: n!/prod k_i!, all compositions present
    mpz_t nf, den, q;
    mpz_init(nf);
    mpz_init(den);
    mpz_init(q);
    mpz_fac_ui(nf, n);
    for (auto &kv : r) {
        if (!out.empty())
            out += ";";
        unsigned long sum = 0;
        mpz_set_ui(den, 1);
        for (size_t i = 0; i < kv.first.size(); i++) {
            out += (i ? "," : "") + std::to_string(kv.first[i]);
            sum += kv.first[i];
            mpz_fac_ui(q, kv.first[i]);
            mpz_mul(den, den, q);
        }
        out += "=" + vsexp::int_str(kv.second);
        mpz_divexact(q, nf, den);
        std::string want = mpz_get_str(nullptr, 10, q);
        if (kv.first.size() != m || sum != n)
            oracle = "FAIL:multinomial:key of wrong length or sum";
        else if (want != vsexp::int_str(kv.second))
            oracle = "FAIL:multinomial:coefficient " + vsexp::int_str(kv.second) + " should be " + want;
    }
    // number of compositions of n into m parts = C(n+m-1, m-1)
    mpz_bin_uiui(q, n + m - 1, m - 1);
    if (oracle == "ok" && mpz_cmp_ui(q, r.size()) != 0)
        oracle = "FAIL:multinomial:" + std::to_string(r.size()) + " entries, expected C(n+m-1,m-1)";
    mpz_clear(nf);
    mpz_clear(den);
    mpz_clear(q);
    return out;
}

std::string hx_run(const std::string &line, std::string &oracle)
{
    std::vector<vsexp::Node> nodes = vsexp::parse_all(line);
    if (nodes.empty() || !nodes[0].is_atom() || !nodes[0].kids.empty())
        return "bad-op";
    const std::string op = nodes[0].atom;
    if (op == "multinomial" && nodes.size() == 3) {
        stat("ops_multinomial");
        return multinomialRun((unsigned)std::stoul(nodes[1].atom), (unsigned)std::stoul(nodes[2].atom), oracle);
    }
    if ((op == "expand" || op == "rexpand") && nodes.size() == 2) {
        B e = vsexp::build(nodes[1]);
        B r;
        try {
            r = expand(e);
        } catch (const VerifAssertError &ex) {
            // known family D9c: the expanded base of a power is a number or a monomial with a coefficient and is
            // inserted as a key of the result (Add::is_canonical fails)
            bool d9c = std::string(ex.what()).find("add.cpp") != std::string::npos && hasCollapsingPowBase(*e);
            oracle = std::string(d9c ? "FAIL:assert-collapsed-base:" : "FAIL:assert:") + ex.what();
            return "E:Assert";
        } catch (const std::exception &ex) {
            oracle = std::string("FAIL:exception:") + exc_name(ex) + " " + ex.what();
            return exc_name(ex);
        }
        stat(op == "expand" ? "ops_expand" : "ops_rexpand");
        try {
            judgeExpand(e, r, op == "rexpand", oracle);
        } catch (const VerifAssertError &ex) {
            oracle = std::string("FAIL:assert-second-pass:") + ex.what();
        }
        return vsexp::dump(*r);
    }
    if (op == "rpair" && nodes.size() == 3) {
        B e1 = vsexp::build(nodes[1]), e2 = vsexp::build(nodes[2]);
        B r1, r2;
        try {
            r1 = expand(e1);
            r2 = expand(e2);
        } catch (const VerifAssertError &ex) {
            oracle = std::string("FAIL:assert:") + ex.what();
            return "E:Assert";
        } catch (const std::exception &ex) {
            oracle = std::string("FAIL:exception:") + exc_name(ex) + " " + ex.what();
            return exc_name(ex);
        }
        stat("ops_rpair");
        bool same = eq(*r1, *r2);
        std::string d1 = vsexp::dump(*r1), d2 = vsexp::dump(*r2);
        try {
            // completeness (also inside the bases of non-integer powers: ExpandVisitor::bvisit(Pow) expands the
            // base whatever the exponent is), idempotence and value of both expansions
            judgeExpand(e1, r1, true, oracle);
            if (oracle == "ok")
                judgeExpand(e2, r2, true, oracle);
        } catch (const VerifAssertError &ex) {
            oracle = std::string("FAIL:assert-second-pass:") + ex.what();
        }
        if (oracle == "ok" && (!same || d1 != d2))
            oracle = "FAIL:radical-identity:expand of the nested form = " + d1.substr(0, 150)
                     + " differs from expand of the form with expanded bases = " + d2.substr(0, 150);
        return d1 + " ;; " + d2 + " ;; " + (same ? "1" : "0");
    }
    if (op == "pair" && nodes.size() == 3) {
        B e1 = vsexp::build(nodes[1]), e2 = vsexp::build(nodes[2]);
        B r1, r2;
        try {
            r1 = expand(e1);
            r2 = expand(e2);
        } catch (const VerifAssertError &ex) {
            oracle = std::string("FAIL:assert:") + ex.what();
            return "E:Assert";
        } catch (const std::exception &ex) {
            oracle = std::string("FAIL:exception:") + exc_name(ex) + " " + ex.what();
            return exc_name(ex);
        }
        stat("ops_pair");
        bool same = eq(*r1, *r2);
        std::string d1 = vsexp::dump(*r1), d2 = vsexp::dump(*r2);
        if (same != (d1 == d2))
            oracle = "FAIL:identity:eq and the canonical dumps disagree";
        try {
            g_work = 0;
            PolyD p1 = normalise(*e1);
            g_work = 0;
            PolyD p2 = normalise(*e2);
            bool polyEq = firstDiff(p1, p2).empty();
            stat(polyEq ? "pair_equal_polynomials" : "pair_different_polynomials");
            if (polyEq != same)
                oracle = std::string("FAIL:identity:the inputs are ") + (polyEq ? "equal" : "different")
                         + " as polynomials but eq(expand e1, expand e2) = " + (same ? "true" : "false");
            judgeExpand(e1, r1, false, oracle);
            if (oracle == "ok")
                judgeExpand(e2, r2, false, oracle);
        } catch (const TooBig &) {
            stat("pair_skipped_too_big");
        } catch (const Undefined &) {
            stat("pair_skipped_undefined");
        }
        return d1 + " ;; " + d2 + " ;; " + (same ? "1" : "0");
    }
    return "bad-op";
}

// ------------------------------------------------------------------ generator
struct GenOpts {
    bool gauss = false;   // Gaussian rational coefficients
    bool rats = true;     // rational coefficients
    bool big = false;     // multi-limb integers
    bool fatoms = false;  // f(x), g(x, y), sin(x + y) as opaque atoms
    bool negatom = false; // negative powers of atoms
    bool negsum = false;  // negative powers of sums
    bool radical = false; // rational powers of sums
    int nsyms = 3;
    int maxpow = 6;
    std::vector<B> pool; // shared special atoms (radicals / negative powers of sums) that may occur several times
};

static B gsym(Rng &r, const GenOpts &o)
{
    static const char *names[] = {"x", "y", "z", "w", "u"};
    return symbol(names[r.below(o.nsyms)]);
}
static B gnum(Rng &r, const GenOpts &o, bool nonzero = true)
{
    unsigned k = r.below(100);
    if (o.big && k < 10) {
        integer_class v(1);
        int limbs = 1 + (int)r.below(3);
        for (int i = 0; i < limbs; i++)
            v = v * integer_class(4294967296UL) + integer_class((unsigned long)(r.next() & 0xffffffffUL));
        if (r.coin())
            v = -v;
        return integer(v);
    }
    if (o.rats && k < 30) {
        long n = r.range(1, 9), d = r.range(2, 7);
        if (r.coin())
            n = -n;
        return Rational::from_two_ints(*integer(n), *integer(d));
    }
    if (o.gauss && k < 50) {
        long a = r.range(-3, 3), b = r.range(1, 3);
        if (r.coin())
            b = -b;
        if (r.coin(1, 3))
            return Complex::from_two_nums(*Rational::from_two_ints(*integer(a), *integer(r.range(1, 3))),
                                          *Rational::from_two_ints(*integer(b), *integer(r.range(1, 3))));
        return Complex::from_two_nums(*integer(a), *integer(b));
    }
    long v = r.range(-6, 6);
    if (nonzero && v == 0)
        v = 1 + (long)r.below(5);
    return integer(v);
}
static B gatom(Rng &r, const GenOpts &o)
{
    if (!o.pool.empty() && r.coin(2, 5))
        return o.pool[r.below(o.pool.size())];
    if (o.fatoms && r.coin(1, 4)) {
        switch (r.below(4)) {
            case 0:
                return function_symbol("f", gsym(r, o));
            case 1:
                return function_symbol("g", vec_basic{gsym(r, o), gsym(r, o)});
            case 2:
                return sin(add(gsym(r, o), symbol("t")));
            default:
                return function_symbol("f", add(mul(integer(2), gsym(r, o)), one));
        }
    }
    return gsym(r, o);
}
static B gexpr(Rng &r, const GenOpts &o, int depth);

static B gsum(Rng &r, const GenOpts &o, int depth, int nterms)
{
    vec_basic v;
    for (int i = 0; i < nterms; i++) {
        B t;
        unsigned k = r.below(100);
        if (depth <= 0 || k < 45) {
            // coefficient * power product of atoms
            t = r.coin(1, 5) ? gnum(r, o) : gatom(r, o);
            if (r.coin(1, 3))
                t = mul(t, pow(gatom(r, o), integer(r.range(1, 3))));
            if (r.coin(1, 3))
                t = mul(gnum(r, o), t);
        } else
            t = gexpr(r, o, depth - 1);
        v.push_back(t);
    }
    return add(v);
}

static B gexpr(Rng &r, const GenOpts &o, int depth)
{
    if (depth <= 0) {
        unsigned k = r.below(100);
        if (k < 65)
            return gatom(r, o);
        if (k < 75 && o.negatom)
            return pow(gatom(r, o), integer(-(long)r.range(1, 3)));
        return gnum(r, o);
    }
    unsigned k = r.below(100);
    if (k < 28)
        return gsum(r, o, depth, 2 + (int)r.below(4));
    if (k < 56) {
        int n = 2 + (int)r.below(2);
        vec_basic v;
        for (int i = 0; i < n; i++)
            v.push_back(r.coin(2, 3) ? gsum(r, o, depth - 1, 2 + (int)r.below(3)) : gexpr(r, o, depth - 1));
        return mul(v);
    }
    if (k < 82) {
        // positive power of a sum: square_expand (n = 2) and pow_expand (multinomial, 2-5 terms)
        static const int ws[] = {2, 2, 2, 3, 3, 3, 4, 4, 5, 6};
        long n = ws[r.below(10)];
        if (n > o.maxpow)
            n = o.maxpow;
        return pow(gsum(r, o, depth - 1, 2 + (int)r.below(4)), integer(n));
    }
    if (k < 90 && (o.negsum || o.negatom)) {
        long n = r.range(1, 3);
        if (o.negsum && r.coin(2, 3))
            return pow(gsum(r, o, depth - 1, 2 + (int)r.below(2)), integer(-n));
        return pow(gatom(r, o), integer(-n));
    }
    if (k < 96 && o.radical) {
        static const long nums[] = {1, 1, 1, 3, -1, 1, 2, 5};
        static const long dens[] = {2, 2, 3, 2, 2, 4, 3, 2};
        unsigned j = r.below(8);
        // radicand: positive combination of symbols so that the numeric oracle stays on the positive axis
        vec_basic v;
        int nt = 1 + (int)r.below(2);
        v.push_back(integer(r.range(1, 3)));
        for (int i = 0; i < nt; i++)
            v.push_back(mul(integer(r.range(1, 3)), gsym(r, o)));
        return pow(add(v), Rational::from_two_ints(*integer(nums[j]), *integer(dens[j])));
    }
    return gexpr(r, o, depth - 1);
}

// number of sums under a negative integer exponent (bounds the work of the Lean normaliser)
static int countNegSums(const Basic &b)
{
    int c = 0;
    if (is_a<Pow>(b)) {
        const Pow &p = down_cast<const Pow &>(b);
        if (is_a<Add>(*p.get_base()) && is_a<Integer>(*p.get_exp())
            && down_cast<const Integer &>(*p.get_exp()).is_negative())
            c++;
        return c + countNegSums(*p.get_base());
    }
    if (is_a<Mul>(b)) {
        for (auto &p : down_cast<const Mul &>(b).get_dict()) {
            if (is_a<Add>(*p.first) && is_a<Integer>(*p.second)
                && down_cast<const Integer &>(*p.second).is_negative())
                c++;
            c += countNegSums(*p.first);
        }
        return c;
    }
    if (is_a<Add>(b))
        for (auto &p : down_cast<const Add &>(b).get_dict())
            c += countNegSums(*p.first);
    return c;
}

// size of the schoolbook expansion, -1 when too big / undefined
static long expansionSize(const B &e, long workCap, size_t termCap)
{
    long saveW = g_workCap;
    size_t saveT = g_termCap;
    g_workCap = workCap;
    g_termCap = termCap;
    g_work = 0;
    long n = -1;
    try {
        PolyD p = normalise(*e);
        n = (long)p.size();
        // exponents beyond 48 are outside what the Lean normaliser accepts (NF.maxExp = 64)
        for (auto &kv : p.t)
            for (auto &x : kv.second.first.ex)
                if (x.second > 48 || x.second < -48)
                    n = -1;
    } catch (const std::exception &) {
        n = -1;
    }
    g_workCap = saveW;
    g_termCap = saveT;
    return n;
}

static bool containsRadical(const Basic &b)
{
    if (is_a<Pow>(b) && !is_a<Integer>(*down_cast<const Pow &>(b).get_exp()))
        return true;
    if (is_a<Mul>(b)) {
        for (auto &p : down_cast<const Mul &>(b).get_dict())
            if (!is_a<Integer>(*p.second) || containsRadical(*p.first))
                return true;
        return false;
    }
    if (is_a<Pow>(b))
        return containsRadical(*down_cast<const Pow &>(b).get_base());
    if (is_a<Add>(b))
        for (auto &p : down_cast<const Add &>(b).get_dict())
            if (containsRadical(*p.first))
                return true;
    return false;
}

static std::set<std::string> g_seen;
static bool emitExpand(const B &e, const std::string &tag, bool radical = false)
{
    std::string d = vsexp::dump(*e);
    if (d.size() > 6000 || !g_seen.insert(d).second)
        return false;
    emit(std::string(radical ? "rexpand " : "expand ") + d, tag);
    return true;
}

static void genFamily(Rng &r, const GenOpts &o, const std::string &tag, int count, int depth, long termCap,
                      int maxNegSums)
{
    int made = 0, tries = 0;
    while (made < count && tries < count * 60) {
        tries++;
        B e;
        try {
            GenOpts oo = o;
            if (o.radical && r.coin(3, 4)) {
                // the same radicand under several rational exponents: products of keys re-create sums (D9)
                B rad = add(integer(r.range(1, 3)), mul(integer(r.range(1, 2)), gsym(r, o)));
                if (r.coin(1, 3))
                    rad = add(rad, gsym(r, o));
                static const long nums[] = {1, 3, 1, 2, 1, -1};
                static const long dens[] = {2, 2, 3, 3, 4, 2};
                int np = 1 + (int)r.below(2);
                for (int k = 0; k < np; k++) {
                    unsigned j = r.below(6);
                    oo.pool.push_back(pow(rad, Rational::from_two_ints(*integer(nums[j]), *integer(dens[j]))));
                }
            }
            if (o.negsum && r.coin(1, 2)) {
                // a negative power of a sum that may occur several times inside a power / product of sums
                B s = add(gsym(r, o), r.coin() ? gsym(r, o) : gnum(r, o));
                if (is_a<Add>(*s))
                    oo.pool.push_back(pow(s, integer(-(long)r.range(1, 2))));
            }
            e = gexpr(r, oo, 1 + (int)r.below(depth));
        } catch (const std::exception &) {
            stat("gen_constructor_exception");
            continue;
        }
        if (is_a_Number(*e) || is_a<Symbol>(*e))
            continue;
        bool rad = containsRadical(*e);
        if (rad != o.radical)
            continue;
        if (countNegSums(*e) > maxNegSums)
            continue;
        if (!o.negsum && !o.negatom && !o.radical) {
            // keep a good share of inputs where something has to be expanded
        }
        long n = expansionSize(e, 300000, (size_t)termCap);
        if (n < 0)
            continue;
        std::string t = tag;
        if (n <= 3)
            t += "-small";
        else if (n <= 30)
            t += "-mid";
        else
            t += "-large";
        if (emitExpand(e, t, o.radical))
            made++;
    }
}

// build an Add from our own dictionary of a univariate/multivariate polynomial through the public API
static B fromCoeffs(const std::vector<long> &c, const B &x)
{
    vec_basic v;
    for (size_t i = 0; i < c.size(); i++)
        if (c[i] != 0)
            v.push_back(mul(integer(c[i]), pow(x, integer((long)i))));
    return add(v);
}

static void emitPair(const B &a, const B &b, const std::string &tag)
{
    std::string da = vsexp::dump(*a), db = vsexp::dump(*b);
    if (da.size() + db.size() > 8000)
        return;
    if (expansionSize(a, 300000, 400) < 0 || expansionSize(b, 300000, 400) < 0)
        return;
    emit("pair " + da + " " + db, tag);
}

static void genPairs(Rng &r, int count)
{
    GenOpts o;
    o.nsyms = 3;
    GenOpts og = o;
    og.gauss = true;
    for (int i = 0; i < count; i++) {
        const GenOpts &oo = r.coin(1, 4) ? og : o;
        B A = gsum(r, oo, 0, 1 + (int)r.below(3)), Bq = gsum(r, oo, 0, 1 + (int)r.below(3)),
          C = gsum(r, oo, 0, 1 + (int)r.below(2));
        B e1, e2;
        switch (r.below(7)) {
            case 0: // distributivity
                e1 = mul(A, add(Bq, C));
                e2 = add(mul(A, Bq), mul(A, C));
                break;
            case 1: // binomial square
                e1 = pow(add(A, Bq), integer(2));
                e2 = add({pow(A, integer(2)), mul({integer(2), A, Bq}), pow(Bq, integer(2))});
                break;
            case 2: // difference of squares
                e1 = mul(add(A, Bq), sub(A, Bq));
                e2 = sub(pow(A, integer(2)), pow(Bq, integer(2)));
                break;
            case 3: // binomial cube
                e1 = pow(add(A, Bq), integer(3));
                e2 = add({pow(A, integer(3)), mul({integer(3), pow(A, integer(2)), Bq}),
                          mul({integer(3), A, pow(Bq, integer(2))}), pow(Bq, integer(3))});
                break;
            case 4: { // product of linear factors against our own convolution
                int deg = 2 + (int)r.below(4);
                std::vector<long> c{1};
                vec_basic fs;
                B x = gsym(r, o);
                for (int k = 0; k < deg; k++) {
                    long root = r.range(-4, 4), lead = r.range(1, 2);
                    fs.push_back(add(mul(integer(lead), x), integer(-root)));
                    std::vector<long> n(c.size() + 1, 0);
                    for (size_t j = 0; j < c.size(); j++) {
                        n[j + 1] += lead * c[j];
                        n[j] += -root * c[j];
                    }
                    c = n;
                }
                e1 = mul(fs);
                e2 = fromCoeffs(c, x);
                break;
            }
            case 5: // (A+B+C)^2 against the six products
                e1 = pow(add({A, Bq, C}), integer(2));
                e2 = add({mul(A, A), mul(Bq, Bq), mul(C, C), mul({integer(2), A, Bq}), mul({integer(2), A, C}),
                          mul({integer(2), Bq, C})});
                break;
            default: // nested: (A*(B+C))^2 against A^2*(B+C)^2
                e1 = pow(mul(A, add(Bq, C)), integer(2));
                e2 = mul(pow(A, integer(2)), add({pow(Bq, integer(2)), mul({integer(2), Bq, C}), pow(C, integer(2))}));
                break;
        }
        if (r.coin(2, 5)) {
            // perturb: the two inputs become different polynomials
            B delta;
            switch (r.below(3)) {
                case 0:
                    delta = gnum(r, o);
                    break;
                case 1:
                    delta = mul(gnum(r, o), gsym(r, o));
                    break;
                default:
                    delta = mul({gnum(r, o), gsym(r, o), gsym(r, o)});
                    break;
            }
            emitPair(e1, add(e2, delta), "pair-perturbed");
        } else
            emitPair(e1, e2, "pair-equal");
    }
}

// Sums that collapse when expanded: the expanded base of a power is a number or a monomial with a coefficient
// (ExpandVisitor::bvisit(Pow), branch "base is not an Add after expansion").
static void genCancel(Rng &r, int count)
{
    GenOpts o;
    o.nsyms = 3;
    int made = 0, tries = 0;
    while (made < count && tries < count * 40) {
        tries++;
        B m = gsym(r, o);
        if (r.coin(1, 3))
            m = mul(m, pow(gsym(r, o), integer(r.range(1, 2))));
        B Q = gsum(r, o, 0, 1 + (int)r.below(2));
        B base;
        switch (r.below(4)) {
            case 0: // m*(1+Q) - m*Q + k*m  =  (k+1)*m
                base = add({mul(m, add(one, Q)), neg(mul(m, Q)), mul(integer(r.range(1, 4)), m)});
                break;
            case 1: { // (x+a)^2 - x^2 - 2*a*x + c  =  a^2 + c
                B x = gsym(r, o);
                long a = r.range(1, 3), c = r.range(0, 3);
                base = add({pow(add(x, integer(a)), integer(2)), neg(pow(x, integer(2))), mul(integer(-2 * a), x),
                            integer(c)});
                break;
            }
            case 2: // m*(1+Q) - m*Q  =  m
                base = add(mul(m, add(one, Q)), neg(mul(m, Q)));
                break;
            default: // k*m*(Q+1) - k*m*Q + Q*(m+1) - Q*m  =  k*m + Q
                base = add({mul({integer(r.range(2, 3)), m, add(Q, one)}), neg(mul({integer(2), m, Q})), neg(mul(m, Q))});
                break;
        }
        if (!is_a<Add>(*base))
            continue;
        long n = r.coin(1, 5) ? -(long)r.range(1, 2) : (long)r.range(2, 4);
        B p = pow(base, integer(n));
        B e;
        switch (r.below(4)) {
            case 0:
                e = add(p, pow(m, integer(n)));
                break;
            case 1:
                e = add({p, gsum(r, o, 0, 2), integer(r.range(1, 5))});
                break;
            case 2:
                e = mul(add(gsym(r, o), one), p);
                break;
            default:
                e = pow(add(p, gsym(r, o)), integer(2));
                break;
        }
        if (expansionSize(e, 300000, 300) < 0)
            continue;
        if (emitExpand(e, n < 0 ? "cancel-negpow" : "cancel"))
            made++;
    }
}

// rebuild an expression from a schoolbook dictionary (no INV factors, real rational coefficients) through the
// public API
static B fromPoly(const PolyD &p)
{
    vec_basic terms;
    for (auto &kv : p.t) {
        const TermKey &k = kv.second.first;
        const GQ &c = kv.second.second;
        if (k.inv || !c.im.isZero())
            throw Unsupported("fromPoly");
        vec_basic fs;
        fs.push_back(vsexp::num_from_rat(vsexp::parse_rat(c.re.str())));
        for (auto &a : k.ex)
            fs.push_back(pow(vsexp::parse(a.first), integer(a.second)));
        terms.push_back(mul(fs));
    }
    return add(terms);
}

// Products of symbols with radicals / symbolic powers whose bases contain products or integer powers of sums
// (ExpandVisitor::bvisit(Mul) -> as_two_terms -> bvisit(Pow) must expand the bases).  Every coefficient is
// positive so that the numeric oracle stays on the positive axis.
static void genRadProd(Rng &r, int count)
{
    GenOpts o;
    o.nsyms = 4;
    int made = 0, tries = 0;
    auto psum = [&](int n) { // positive linear sum
        vec_basic v;
        if (r.coin())
            v.push_back(integer(r.range(1, 3)));
        for (int i = 0; i < n; i++)
            v.push_back(mul(integer(r.range(1, 3)), gsym(r, o)));
        return add(v);
    };
    auto inner = [&]() -> B {
        switch (r.below(5)) {
            case 0: // s + (sum)^n
                return add(gsym(r, o), pow(psum(1 + (int)r.below(2)), integer(r.range(2, 3))));
            case 1: // s + s*(sum)
                return add(gsym(r, o), mul(gsym(r, o), psum(2)));
            case 2: // c + (sum)^2 + s*(sum)
                return add({integer(r.range(1, 4)), pow(psum(2), integer(2)), mul(gsym(r, o), psum(1 + (int)r.below(2)))});
            case 3: // (sum)*(sum) + s
                return add(mul(psum(1 + (int)r.below(2)), psum(2)), gsym(r, o));
            default: // 2*(sum)^2*s + c   (product with coefficient and a power of a sum)
                return add(mul({integer(2), pow(psum(2), integer(2)), gsym(r, o)}), integer(r.range(1, 3)));
        }
    };
    static const long nums[] = {1, -1, 1, 3, -1, 2, 1, 5};
    static const long dens[] = {2, 2, 3, 2, 3, 3, 4, 2};
    while (made < count && tries < count * 40) {
        tries++;
        try {
            int nrad = 1 + (int)r.coin(1, 3);
            vec_basic f1, f2;
            bool ok = true;
            for (int k = 0; k < nrad && ok; k++) {
                B in = inner();
                if (!is_a<Add>(*in)) {
                    ok = false;
                    break;
                }
                g_work = 0;
                B ex = fromPoly(normalise(*in));
                B q;
                if (r.coin(1, 4))
                    q = r.coin() ? rcp_static_cast<const Basic>(symbol("t")) : div(gsym(r, o), integer(2));
                else {
                    unsigned j = r.below(8);
                    q = Rational::from_two_ints(*integer(nums[j]), *integer(dens[j]));
                }
                f1.push_back(pow(in, q));
                f2.push_back(pow(ex, q));
            }
            if (!ok)
                continue;
            // the other factors: bare symbols, integer powers of symbols, symbol^symbol, a numeric coefficient
            int nsym = 1 + (int)r.below(2);
            for (int k = 0; k < nsym; k++) {
                B sfac = gsym(r, o);
                unsigned c = r.below(10);
                if (c < 3)
                    sfac = pow(sfac, integer(r.range(2, 3)));
                else if (c < 4)
                    sfac = pow(sfac, symbol("t"));
                f1.push_back(sfac);
                f2.push_back(sfac);
            }
            if (r.coin(1, 3)) {
                B c = r.coin() ? rcp_static_cast<const Basic>(integer(r.range(2, 5)))
                               : rcp_static_cast<const Basic>(Rational::from_two_ints(*integer(r.range(1, 5)), *integer(r.range(2, 3))));
                f1.push_back(c);
                f2.push_back(c);
            }
            B e1 = mul(f1), e2 = mul(f2);
            if (!is_a<Mul>(*e1))
                continue;
            std::string tag = "radprod";
            if (r.coin(1, 4)) { // the product as a term of a sum
                B extra = add(gsym(r, o), integer(r.range(1, 3)));
                e1 = add(e1, extra);
                e2 = add(e2, extra);
                tag = "radprod-in-sum";
            }
            std::string d1 = vsexp::dump(*e1), d2 = vsexp::dump(*e2);
            if (d1 == d2 || d1.size() + d2.size() > 6000 || !g_seen.insert(d1).second)
                continue;
            emit("rpair " + d1 + " " + d2, tag);
            made++;
        } catch (const std::exception &) {
            stat("gen_constructor_exception");
        }
    }
}

// Integer powers n >= 3 (multinomial path, pow_expand) of sums in which one term is a product with a numeric surd:
// (1 + y + sqrt(2)*x)^3 — the k-th power of that term is a Mul with a non-unit numeric coefficient
// (sqrt(2)^3 = 2*sqrt(2)), which pow_expand has to multiply into the term's coefficient.  The Lean normaliser treats
// 2^(1/2) as an opaque atom (a^3 is not 2*a), so the family runs as `rexpand` with the numeric oracle.
static void genSurdPow(Rng &r, int count)
{
    GenOpts o;
    o.nsyms = 3;
    static const long ps[] = {2, 3, 5, 6, 7, 10};
    int made = 0, tries = 0;
    while (made < count && tries < count * 40) {
        tries++;
        try {
            B surd;
            unsigned k = r.below(10);
            long p = ps[r.below(6)];
            if (k < 6)
                surd = sqrt(integer(p));
            else if (k < 8)
                surd = pow(integer(p), Rational::from_two_ints(*integer(1), *integer(3)));
            else if (k < 9)
                surd = pow(integer(p), Rational::from_two_ints(*integer(2), *integer(3)));
            else
                surd = pow(integer(p), Rational::from_two_ints(*integer(1), *integer(4)));
            B t = mul(surd, gsym(r, o));
            if (r.coin(1, 2))
                t = mul(r.coin() ? rcp_static_cast<const Basic>(integer(r.range(2, 5)))
                                 : rcp_static_cast<const Basic>(Rational::from_two_ints(*integer(r.range(1, 5)), *integer(r.range(2, 3)))),
                        t);
            if (r.coin(1, 4))
                t = mul(t, gsym(r, o));
            vec_basic v{t};
            int extra = 1 + (int)r.below(3);
            for (int i = 0; i < extra; i++) {
                unsigned c = r.below(10);
                if (c < 3)
                    v.push_back(integer(r.range(1, 4)));
                else if (c < 8)
                    v.push_back(mul(integer(r.range(1, 3)), gsym(r, o)));
                else
                    v.push_back(mul(sqrt(integer(ps[r.below(4)])), gsym(r, o))); // a second surd term
            }
            B base = add(v);
            if (!is_a<Add>(*base) || down_cast<const Add &>(*base).get_dict().size() + 1 < 2)
                continue;
            long n = r.range(3, 6);
            if (down_cast<const Add &>(*base).get_dict().size() >= 4 && n > 5)
                n = 5;
            B e = pow(base, integer(n));
            unsigned w = r.below(10);
            std::string tag = "surdpow";
            if (w < 2) {
                e = mul(e, add(gsym(r, o), integer(r.range(1, 3)))); // inside a product of sums
                tag = "surdpow-in-product";
            } else if (w < 4) {
                e = add(e, mul(integer(r.range(1, 3)), gsym(r, o))); // inside a sum
                tag = "surdpow-in-sum";
            }
            if (emitExpand(e, tag, true))
                made++;
        } catch (const std::exception &) {
            stat("gen_constructor_exception");
        }
    }
}

static void genFixed()
{
    B x = symbol("x"), y = symbol("y"), z = symbol("z"), w = symbol("w");
    B i2 = integer(2), i3 = integer(3);
    // test_arit style cases and boundaries
    emitExpand(pow(add({x, y, z, w}), integer(4)), "fixed");
    emitExpand(mul(w, add({x, y, z})), "fixed");
    emitExpand(mul(add(x, y), add(z, w)), "fixed");
    emitExpand(pow(add(x, y), integer(-1)), "fixed");
    emitExpand(pow(add(x, y), integer(-2)), "fixed");
    emitExpand(pow(add(mul(I, x), i2), i2), "fixed");
    emitExpand(pow(add(mul(I, y), x), i3), "fixed");
    emitExpand(pow(sub(sub(pow(add(x, one), i2), pow(x, i2)), mul(x, i2)), i2), "fixed");
    emitExpand(mul(i3, add(x, one)), "fixed");
    emitExpand(add(mul(i2, add(x, one)), mul(i3, mul(x, add(x, one)))), "fixed");
    emitExpand(pow(add(x, Complex::from_two_nums(*integer(2), *integer(3))), integer(7)), "fixed");
    emitExpand(pow(add({x, y, integer(1)}), integer(6)), "fixed");
    emitExpand(pow(add({x, y, z, w, integer(-1)}), integer(3)), "fixed");
    emitExpand(mul(pow(add(x, one), i2), pow(add(x, integer(-1)), i2)), "fixed");
    emitExpand(mul({add(x, one), add(x, i2), add(x, i3), add(x, integer(4))}), "fixed");
    emitExpand(mul(x, pow(add(x, y), integer(-2))), "fixed");
    emitExpand(mul(add(x, one), pow(add(x, y), integer(-2))), "fixed");
    emitExpand(pow(add(function_symbol("f", x), one), i3), "fixed");
    emitExpand(function_symbol("f", pow(add(x, one), i2)), "fixed");
    emitExpand(mul(function_symbol("f", pow(add(x, one), i2)), add(x, one)), "fixed");
    emitExpand(pow(add(pow(x, integer(-1)), x), integer(4)), "fixed");
    // powers of sums that contain a negative power of a sum (second pass rewrites the result: idempotence)
    emitExpand(pow(add(one, pow(add(x, y), integer(-1))), i2), "fixed-negpow");
    emitExpand(pow(add(one, pow(add(x, y), integer(-1))), i3), "fixed-negpow");
    // radicals of sums (D9)
    emitExpand(mul(add(one, sqrt(add(one, y))), add(i2, sqrt(add(one, y)))), "fixed-radical", true);
    emitExpand(pow(add(sqrt(add(x, y)), one), i2), "fixed-radical", true);
    emitExpand(pow(add(one, mul(i2, sqrt(add(y, z)))), i2), "fixed-radical", true);
    emitExpand(mul(add(x, sqrt(add(one, y))), add(x, pow(add(one, y), div(i3, i2)))), "fixed-radical", true);
}

void hx_gen(Rng &r, const std::string &tier)
{
    bool th = tier == "thorough";
    int scale = th ? 6 : 1;
    genFixed();
    // multinomial tables (pow_expand uses them for n >= 3)
    for (unsigned m = 2; m <= (th ? 7u : 6u); m++)
        for (unsigned n = 0; n <= (th ? 12u : 8u); n++) {
            if (m >= 6 && n > 7)
                continue;
            emit("multinomial " + std::to_string(m) + " " + std::to_string(n), "multinomial");
        }
    GenOpts poly; // polynomials in symbols with integer/rational coefficients
    genFamily(r, poly, "poly", 260 * scale, 3, 400, 0);
    GenOpts polyg = poly; // Gaussian rational coefficients
    polyg.gauss = true;
    genFamily(r, polyg, "poly-gauss", 110 * scale, 3, 300, 0);
    GenOpts polyb = poly;
    polyb.big = true;
    polyb.nsyms = 4;
    genFamily(r, polyb, "poly-big", 60 * scale, 3, 300, 0);
    GenOpts fat = poly; // opaque function applications as atoms
    fat.fatoms = true;
    fat.gauss = true;
    genFamily(r, fat, "fatom", 90 * scale, 3, 250, 0);
    GenOpts lau = poly; // negative powers of atoms
    lau.negatom = true;
    lau.fatoms = true;
    genFamily(r, lau, "laurent", 110 * scale, 3, 250, 0);
    GenOpts rf = poly; // negative powers of sums
    rf.negsum = true;
    rf.negatom = true;
    rf.maxpow = 3;
    genFamily(r, rf, "ratfun", 110 * scale, 2, 40, 2);
    GenOpts rad = poly; // radicals of sums: oracle only
    rad.radical = true;
    rad.maxpow = 3;
    genFamily(r, rad, "radical", 40 * scale, 2, 60, 0);
    genCancel(r, 60 * scale);
    genRadProd(r, 60 * scale);
    genSurdPow(r, 60 * scale);
    genPairs(r, 120 * scale);
}
