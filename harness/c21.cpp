// C21: univariate polynomial arithmetic (UIntPoly, URatPoly, UExprPoly) agrees with schoolbook
// arithmetic on coefficient vectors.
// Op line:  <kind> <op> <poly> [<poly>|<n>]     kind = uint | urat | uexpr
//   ops: add sub mul neg pow divides eval diff coeff degree lc rt rtmul rtpow
//   poly = d:c,d:c,...  (ascending degrees; c integer or n/d), zero polynomial = 0
// Output: polynomial in the same syntax / number / "T <poly>" | "F" (see lean/Drv/C21.lean).
// The oracle is independent of the library's polynomial code: dense coefficient vectors of
// rational_class (GMP mpq) with schoolbook loops.
#include "common.h"
#include <symengine/polys/uintpoly.h>
#include <symengine/polys/uratpoly.h>
#include <symengine/polys/uexprpoly.h>
#include <symengine/polys/basic_conversions.h>
#include <symengine/symbol.h>
#include <symengine/integer.h>
#include <symengine/rational.h>
#include <symengine/add.h>
#include <symengine/mul.h>
#include <symengine/pow.h>
#include <symengine/visitor.h>
#include <unistd.h>
#include <sys/resource.h>

using namespace SymEngine;
typedef integer_class Z;
typedef rational_class Q;
typedef std::vector<Q> Vec; // dense coefficient vector, no trailing zeros

// ------------------------------------------------------------------ numbers <-> text
static Z parseZ(const std::string &s)
{
    if (s.empty() || s.find_first_not_of("-0123456789") != std::string::npos)
        throw std::runtime_error("bad integer " + s);
    return Z(s);
}
static Q parseQ(const std::string &s)
{
    auto p = s.find('/');
    if (p == std::string::npos)
        return Q(parseZ(s));
    Q q(parseZ(s.substr(0, p)), parseZ(s.substr(p + 1)));
    canonicalize(q);
    return q;
}
static std::string showZ(const Z &z)
{
    return tostr(z);
}
static std::string showQ(const Q &q)
{
    if (get_den(q) == 1)
        return tostr(get_num(q));
    return tostr(get_num(q)) + "/" + tostr(get_den(q));
}
static std::vector<std::pair<unsigned, Q>> parseTerms(const std::string &s)
{
    std::vector<std::pair<unsigned, Q>> t;
    if (s == "0")
        return t;
    for (auto &w : split(s, ',')) {
        auto p = w.find(':');
        if (p == std::string::npos)
            throw std::runtime_error("bad term " + w);
        t.push_back({(unsigned)std::stoul(w.substr(0, p)), parseQ(w.substr(p + 1))});
    }
    return t;
}

// ------------------------------------------------------------------ oracle arithmetic
static void trim(Vec &v)
{
    while (!v.empty() && v.back() == 0)
        v.pop_back();
}
static Vec vecOf(const std::vector<std::pair<unsigned, Q>> &t)
{
    Vec v;
    for (auto &p : t) {
        if (v.size() <= p.first)
            v.resize(p.first + 1, Q(0));
        v[p.first] = p.second; // m[d] = c : the last assignment wins
    }
    trim(v);
    return v;
}
static Vec vadd(const Vec &a, const Vec &b, int sign)
{
    Vec r(std::max(a.size(), b.size()), Q(0));
    for (size_t i = 0; i < a.size(); i++)
        r[i] = a[i];
    for (size_t i = 0; i < b.size(); i++)
        r[i] = sign > 0 ? Q(r[i] + b[i]) : Q(r[i] - b[i]);
    trim(r);
    return r;
}
static Vec vmul(const Vec &a, const Vec &b)
{
    if (a.empty() || b.empty())
        return Vec();
    Vec r(a.size() + b.size() - 1, Q(0));
    for (size_t i = 0; i < a.size(); i++)
        for (size_t j = 0; j < b.size(); j++)
            r[i + j] = r[i + j] + a[i] * b[j];
    trim(r);
    return r;
}
static Vec vpow(const Vec &a, unsigned p)
{
    Vec r(1, Q(1));
    for (unsigned i = 0; i < p; i++)
        r = vmul(r, a);
    return r;
}
static Q veval(const Vec &a, const Q &x)
{
    Q s(0), xp(1);
    for (size_t i = 0; i < a.size(); i++) {
        s = s + a[i] * xp;
        xp = xp * x;
    }
    return s;
}
static Vec vdiff(const Vec &a)
{
    Vec r;
    for (size_t i = 1; i < a.size(); i++)
        r.push_back(a[i] * Q(Z((unsigned long)i)));
    trim(r);
    return r;
}
// long division over Q: b = a*q + rem, a != 0
static void vdivmod(const Vec &b, const Vec &a, Vec &q, Vec &rem)
{
    rem = b;
    q.clear();
    while (rem.size() >= a.size()) {
        size_t k = rem.size() - a.size();
        Q c = rem.back() / a.back();
        if (q.size() <= k)
            q.resize(k + 1, Q(0));
        q[k] = c;
        for (size_t i = 0; i < a.size(); i++)
            rem[k + i] = rem[k + i] - c * a[i];
        trim(rem); // the leading term cancels exactly
        if (rem.size() > k + a.size() - 1)
            throw std::runtime_error("oracle division did not cancel");
    }
    trim(q);
}
static bool allInt(const Vec &v)
{
    for (auto &c : v)
        if (get_den(c) != 1)
            return false;
    return true;
}
static std::string showVec(const Vec &v)
{
    std::vector<std::string> o;
    for (size_t i = 0; i < v.size(); i++)
        if (v[i] != 0)
            o.push_back(std::to_string(i) + ":" + showQ(v[i]));
    return o.empty() ? "0" : join(o, ",");
}

// ------------------------------------------------------------------ the three coefficient kinds
struct KInt {
    typedef UIntPoly P;
    typedef Z C;
    static const char *name()
    {
        return "uint";
    }
    static C fromQ(const Q &q)
    {
        if (get_den(q) != 1)
            throw std::runtime_error("non-integer coefficient for uint");
        return get_num(q);
    }
    static Q toQ(const C &c)
    {
        return Q(c);
    }
    static RCP<const P> make(const RCP<const Basic> &x, const std::vector<std::pair<unsigned, Q>> &t)
    {
        map_uint_mpz m;
        for (auto &p : t)
            m[p.first] = fromQ(p.second);
        return P::from_dict(x, std::move(m));
    }
};
struct KRat {
    typedef URatPoly P;
    typedef Q C;
    static const char *name()
    {
        return "urat";
    }
    static C fromQ(const Q &q)
    {
        return q;
    }
    static Q toQ(const C &c)
    {
        return c;
    }
    static RCP<const P> make(const RCP<const Basic> &x, const std::vector<std::pair<unsigned, Q>> &t)
    {
        map_uint_mpq m;
        for (auto &p : t)
            m[p.first] = p.second;
        return P::from_dict(x, std::move(m));
    }
};
struct KExpr {
    typedef UExprPoly P;
    typedef Expression C;
    static const char *name()
    {
        return "uexpr";
    }
    static C fromQ(const Q &q)
    {
        if (get_den(q) != 1)
            throw std::runtime_error("non-integer coefficient for uexpr");
        return Expression(integer(get_num(q)));
    }
    static Q toQ(const C &c)
    {
        RCP<const Basic> b = c.get_basic();
        if (is_a<Integer>(*b))
            return Q(down_cast<const Integer &>(*b).as_integer_class());
        if (is_a<Rational>(*b))
            return down_cast<const Rational &>(*b).as_rational_class();
        throw std::runtime_error("non-numeric Expression coefficient: " + b->__str__());
    }
    static RCP<const P> make(const RCP<const Basic> &x, const std::vector<std::pair<unsigned, Q>> &t)
    {
        map_int_Expr m;
        for (auto &p : t)
            m[(int)p.first] = fromQ(p.second);
        return P::from_dict(x, std::move(m));
    }
};

template <class K>
static Vec vecOfPoly(const typename K::P &p, bool &canonical)
{
    Vec v;
    canonical = true;
    for (auto it = p.begin(); it != p.end(); ++it) {
        Q c = K::toQ(it->second);
        if (c == 0)
            canonical = false; // a stored zero coefficient breaks the dictionary invariant
        size_t k = (size_t)it->first;
        if (k > 100000)
            throw std::runtime_error("degree " + std::to_string(k) + " in result");
        if (v.size() <= k)
            v.resize(k + 1, Q(0));
        v[k] = c;
    }
    trim(v);
    return v;
}
template <class K>
static std::string showPoly(const typename K::P &p)
{
    std::vector<std::string> o;
    for (auto it = p.begin(); it != p.end(); ++it)
        o.push_back(std::to_string((long)it->first) + ":" + showQ(K::toQ(it->second)));
    return o.empty() ? "0" : join(o, ",");
}

static void fail(std::string &oracle, const std::string &key, const std::string &detail)
{
    if (oracle == "ok")
        oracle = "FAIL:" + key + ":" + detail.substr(0, 700);
}

template <class K>
static void checkPoly(const typename K::P &r, const Vec &expect, const std::string &key, std::string &oracle)
{
    bool canon;
    Vec got = vecOfPoly<K>(r, canon);
    if (!canon)
        fail(oracle, "canon", std::string(K::name()) + " result stores a zero coefficient: " + showPoly<K>(r));
    if (got != expect)
        fail(oracle, key, std::string(K::name()) + " " + key + ": got " + showVec(got) + " expected " + showVec(expect));
}

// divides_upoly exists for UIntPoly and URatPoly only
static bool callDivides(const UIntPoly &a, const UIntPoly &b, RCP<const UIntPoly> &q)
{
    return divides_upoly(a, b, outArg(q));
}
static bool callDivides(const URatPoly &a, const URatPoly &b, RCP<const URatPoly> &q)
{
    return divides_upoly(a, b, outArg(q));
}
static bool callDivides(const UExprPoly &, const UExprPoly &, RCP<const UExprPoly> &)
{
    throw std::runtime_error("no divides_upoly for UExprPoly");
}
static Q callEval(const UIntPoly &p, const Q &x)
{
    return Q(p.eval(KInt::fromQ(x)));
}
static Q callEval(const URatPoly &p, const Q &x)
{
    return p.eval(x);
}
static Q callEval(const UExprPoly &p, const Q &x)
{
    return KExpr::toQ(p.eval(KExpr::fromQ(x)));
}
static Q callCoeff(const UIntPoly &p, unsigned n)
{
    return Q(p.get_coeff(n));
}
static Q callCoeff(const URatPoly &p, unsigned n)
{
    return p.get_coeff(n);
}
static Q callCoeff(const UExprPoly &p, unsigned n)
{
    return KExpr::toQ(p.get_coeff((int)n));
}
static Q callLc(const UIntPoly &p)
{
    return Q(p.get_lc());
}
static Q callLc(const URatPoly &p)
{
    return p.get_lc();
}
static Q callLc(const UExprPoly &p)
{
    return KExpr::toQ(p.get_poly().get_lc());
}

template <class K>
static std::string runKind(const std::vector<std::string> &w, std::string &oracle)
{
    typedef typename K::P P;
    static RCP<const Basic> x = symbol("x");
    const std::string &op = w[1];
    size_t nargs = w.size() - 2;
    auto needs = [&](size_t n) {
        if (nargs != n)
            throw std::runtime_error("arity");
    };
    auto ta = parseTerms(w.at(2));
    Vec va = vecOf(ta);
    RCP<const P> a = K::make(x, ta);
    {
        // from_dict: zero coefficients are dropped, everything else is kept
        bool canon;
        Vec got = vecOfPoly<K>(*a, canon);
        if (!canon || got != va)
            fail(oracle, "from_dict", "from_dict(" + w[2] + ") = " + showPoly<K>(*a));
    }
    stat(std::string(K::name()) + "_" + op);
    if (op == "add" || op == "sub" || op == "mul" || op == "divides" || op == "rtmul") {
        needs(2);
        auto tb = parseTerms(w[3]);
        Vec vb = vecOf(tb);
        RCP<const P> b = K::make(x, tb);
        if (op == "add") {
            auto r = add_upoly(*a, *b);
            checkPoly<K>(*r, vadd(va, vb, 1), "add", oracle);
            return showPoly<K>(*r);
        }
        if (op == "sub") {
            auto r = sub_upoly(*a, *b);
            checkPoly<K>(*r, vadd(va, vb, -1), "sub", oracle);
            return showPoly<K>(*r);
        }
        if (op == "mul") {
            auto r = mul_upoly(*a, *b);
            checkPoly<K>(*r, vmul(va, vb), "mul", oracle);
            return showPoly<K>(*r);
        }
        if (op == "rtmul") {
            // expression -> polynomial -> expression: the product is handed over unexpanded
            RCP<const Basic> e = mul(a->as_symbolic(), b->as_symbolic());
            RCP<const P> r = from_basic<P>(e, x);
            checkPoly<K>(*r, vmul(va, vb), "rtmul", oracle);
            if (!eq(*r->as_symbolic(), *expand(e)))
                fail(oracle, "roundtrip", "as_symbolic(from_basic(e)) = " + r->as_symbolic()->__str__()
                                              + " but expand(e) = " + expand(e)->__str__());
            return showPoly<K>(*r);
        }
        // divides
        RCP<const P> q;
        bool res = callDivides(*a, *b, q);
        bool expect = false;
        Vec eq_, er;
        if (!va.empty()) {
            vdivmod(vb, va, eq_, er);
            expect = er.empty() && (std::string(K::name()) != "uint" || allInt(eq_));
        }
        if (res != expect)
            fail(oracle, "divides", std::string(K::name()) + " divides_upoly(" + w[2] + ", " + w[3] + ") returned "
                                        + (res ? "true" : "false") + " expected " + (expect ? "true" : "false"));
        if (res) {
            if (q.is_null())
                throw std::runtime_error("divides_upoly returned true without a quotient");
            bool canon;
            Vec vq = vecOfPoly<K>(*q, canon);
            if (!canon)
                fail(oracle, "canon", "quotient stores a zero coefficient");
            if (vmul(va, vq) != vb)
                fail(oracle, "divides", std::string(K::name()) + " divides_upoly(" + w[2] + ", " + w[3]
                                            + ") quotient " + showVec(vq) + " times divisor is not the dividend");
            return "T " + showPoly<K>(*q);
        }
        return "F";
    }
    if (op == "neg") {
        needs(1);
        auto r = neg_upoly(*a);
        checkPoly<K>(*r, vadd(Vec(), va, -1), "neg", oracle);
        return showPoly<K>(*r);
    }
    if (op == "rt") {
        needs(1);
        RCP<const Basic> e = a->as_symbolic();
        RCP<const P> r = from_basic<P>(e, x);
        checkPoly<K>(*r, va, "rt", oracle);
        if (!eq(*r->as_symbolic(), *expand(e)))
            fail(oracle, "roundtrip", "as_symbolic(from_basic(e)) != expand(e) for e = " + e->__str__());
        return showPoly<K>(*r);
    }
    if (op == "pow" || op == "rtpow") {
        needs(2);
        unsigned p = (unsigned)std::stoul(w[3]);
        if (p > 64)
            throw std::runtime_error("exponent too large for the harness");
        RCP<const P> r;
        if (op == "pow")
            r = pow_upoly(*a, p);
        else {
            RCP<const Basic> e = pow(a->as_symbolic(), integer(p));
            r = from_basic<P>(e, x);
            if (!eq(*r->as_symbolic(), *expand(e)))
                fail(oracle, "roundtrip", "as_symbolic(from_basic(e)) = " + r->as_symbolic()->__str__()
                                              + " but expand(e) = " + expand(e)->__str__());
        }
        checkPoly<K>(*r, vpow(va, p), op, oracle);
        return showPoly<K>(*r);
    }
    if (op == "eval") {
        needs(2);
        Q xv = parseQ(w[3]);
        Q r = callEval(*a, xv);
        Q e = veval(va, xv);
        if (r != e)
            fail(oracle, "eval", std::string(K::name()) + " eval(" + w[2] + ", " + w[3] + ") = " + showQ(r) + " expected "
                                     + showQ(e));
        return showQ(r);
    }
    if (op == "diff") {
        needs(1);
        RCP<const Basic> d = a->diff(rcp_static_cast<const Symbol>(x));
        if (!is_a<P>(*d))
            throw std::runtime_error("diff did not return a polynomial");
        const P &r = down_cast<const P &>(*d);
        checkPoly<K>(r, vdiff(va), "diff", oracle);
        return showPoly<K>(r);
    }
    if (op == "coeff") {
        needs(2);
        unsigned n = (unsigned)std::stoul(w[3]);
        Q r = callCoeff(*a, n);
        Q e = n < va.size() ? va[n] : Q(0);
        if (r != e)
            fail(oracle, "coeff", "get_coeff(" + w[3] + ") = " + showQ(r) + " expected " + showQ(e));
        return showQ(r);
    }
    if (op == "degree") {
        needs(1);
        long d = a->get_degree();
        long e = va.empty() ? 0 : (long)va.size() - 1;
        long sz = a->size();
        if (d != e)
            fail(oracle, "degree", "get_degree = " + std::to_string(d) + " expected " + std::to_string(e));
        if (sz != (long)va.size())
            fail(oracle, "degree", "size() = " + std::to_string(sz) + " expected " + std::to_string(va.size()));
        return std::to_string(d);
    }
    if (op == "lc") {
        needs(1);
        Q r = callLc(*a);
        Q e = va.empty() ? Q(0) : va.back();
        if (r != e)
            fail(oracle, "lc", "get_lc = " + showQ(r) + " expected " + showQ(e));
        return showQ(r);
    }
    return "bad-op";
}

std::string hx_run(const std::string &line, std::string &oracle)
{
    static bool limited = false;
    if (!limited) {
        // a wrapped unsigned exponent makes the library shift by ~2^32 bits: bound the damage
        struct rlimit rl;
        rl.rlim_cur = rl.rlim_max = (rlim_t)3 << 30;
        setrlimit(RLIMIT_AS, &rl);
        limited = true;
    }
    auto w = split(line, ' ');
    if (w.size() < 3)
        return "bad-op";
    // watchdog: a non-terminating library loop ends this process (SIGALRM); the runner then
    // records the op as crashed (= hang) and restarts behind it.
    alarm(8);
    std::string out;
    try {
        if (w[0] == "uint")
            out = runKind<KInt>(w, oracle);
        else if (w[0] == "urat")
            out = runKind<KRat>(w, oracle);
        else if (w[0] == "uexpr")
            out = runKind<KExpr>(w, oracle);
        else
            out = "bad-op";
    } catch (...) {
        alarm(0);
        throw;
    }
    alarm(0);
    return out;
}

// ------------------------------------------------------------------ generation
static std::string bigRandom(Rng &r, unsigned bits)
{
    // uniformly random `bits`-bit magnitude with the top bit set, as a decimal string
    Z v(1);
    for (unsigned i = 1; i < bits; i++) {
        v = v * 2;
        if (r.coin())
            v = v + 1;
    }
    return tostr(v);
}
static Z pow2(unsigned k)
{
    Z v(1);
    for (unsigned i = 0; i < k; i++)
        v = v * 2;
    return v;
}
// style: 0 small, 1 adjacent to a power of two (<= 70 bits), 2 multi-limb power-of-two-adjacent,
//        3 multi-limb random, 4 all-ones 2^k-1 with fixed k (handled by caller)
static Z randCoef(Rng &r, int style, unsigned maxbits)
{
    Z v;
    switch (style) {
        case 0:
            v = Z((long)r.range(-9, 9));
            break;
        case 1: {
            unsigned k = 1 + (unsigned)r.below(70);
            v = pow2(k) + Z((long)r.range(-2, 2));
            break;
        }
        case 2: {
            unsigned k = 60 + (unsigned)r.below(maxbits > 60 ? maxbits - 60 : 1);
            v = pow2(k) + Z((long)r.range(-2, 2));
            break;
        }
        default:
            v = Z(bigRandom(r, 2 + (unsigned)r.below(maxbits)));
            break;
    }
    if (style != 0 && r.coin())
        v = -v;
    return v;
}
struct GenCfg {
    bool rat;
    unsigned maxdeg;
    int style;      // as above; -1 = mixed per coefficient
    unsigned maxbits;
    int signs;      // 0 mixed, 1 all positive, -1 all negative
    unsigned dens;  // percent of present terms
};
static std::vector<std::pair<unsigned, Q>> randTerms(Rng &r, const GenCfg &g)
{
    std::vector<std::pair<unsigned, Q>> t;
    unsigned deg = (unsigned)r.below(g.maxdeg + 1);
    for (unsigned d = 0; d <= deg; d++) {
        if (d != deg && r.below(100) >= g.dens)
            continue;
        int st = g.style >= 0 ? g.style : (int)r.below(4);
        Z c = randCoef(r, st, g.maxbits);
        if (g.signs > 0)
            c = mp_abs(c);
        if (g.signs < 0)
            c = -mp_abs(c);
        if (c == 0 && d == deg)
            c = Z(1);
        Q q(c);
        if (g.rat && r.coin(2, 3)) {
            Z den = r.coin() ? Z((long)r.range(1, 12)) : mp_abs(randCoef(r, 1, 70)) + 1;
            q = Q(c, den);
            canonicalize(q);
        }
        t.push_back({d, q});
    }
    return t;
}
static std::string showTerms(const std::vector<std::pair<unsigned, Q>> &t, bool keepZero = true)
{
    std::vector<std::string> o;
    for (auto &p : t)
        if (keepZero || p.second != 0)
            o.push_back(std::to_string(p.first) + ":" + showQ(p.second));
    return o.empty() ? "0" : join(o, ",");
}
static std::string allOnes(unsigned nterms, unsigned k, int sign, unsigned stride = 1)
{
    std::vector<std::string> o;
    Z c = pow2(k) - 1;
    if (sign < 0)
        c = -c;
    for (unsigned i = 0; i < nterms; i++)
        o.push_back(std::to_string(i * stride) + ":" + tostr(c));
    return join(o, ",");
}

static void genKind(Rng &r, const std::string &kind, bool th)
{
    bool rat = kind == "urat";
    bool expr = kind == "uexpr";
    auto E = [&](const std::string &op, const std::string &args, const std::string &tag) {
        emit(kind + " " + op + " " + args, tag);
    };
    auto cfg = [&](unsigned maxdeg, int style, unsigned maxbits, int signs, unsigned dens) {
        GenCfg g;
        g.rat = rat;
        g.maxdeg = maxdeg;
        g.style = style;
        g.maxbits = maxbits;
        g.signs = signs;
        g.dens = dens;
        return g;
    };
    auto P = [&](const GenCfg &g) { return showTerms(randTerms(r, g)); };

    // ---- fixed boundary cases
    const char *zp = "0";
    for (const char *op : {"add", "sub", "mul"}) {
        E(op, std::string(zp) + " " + zp, "zero");
        E(op, std::string(zp) + " 0:3,2:-1", "zero");
        E(op, std::string("0:3,2:-1 ") + zp, "zero");
    }
    E("sub", "0:3,2:-1 0:3,2:-1", "zero");
    E("add", "0:3,2:-1 0:-3,2:1", "zero");
    E("neg", zp, "zero");
    E("diff", zp, "zero");
    E("diff", "0:5", "zero");
    E("degree", zp, "zero");
    E("lc", zp, "zero");
    E("coeff", std::string(zp) + " 0", "zero");
    E("coeff", "0:4,3:0,5:2 3", "explicit-zero-coef");
    E("add", "0:0,1:0 2:0", "explicit-zero-coef");
    E("mul", "0:5 1:1,3:-2", "const-factor");
    E("mul", "1:1,3:-2 0:5", "const-factor");
    E("mul", "1:1,3:-2 0:-1", "const-factor");
    E("pow", "0:1,1:1 1", "pow-small");
    E("pow", "0:1,1:1 2", "pow-small");
    E("pow", "0:-1 5", "pow-small");
    E("pow", "3:2 6", "pow-small");
    if (!expr) {
        E("divides", std::string(zp) + " " + zp, "divides-zero");
        E("divides", std::string(zp) + " 0:1,1:1", "divides-zero");
        E("divides", std::string("0:1,1:1 ") + zp, "divides-zero");
        E("divides", "0:2 0:4,1:6", "divides-const");
        E("divides", "0:2 0:4,1:5", "divides-const");
        E("divides", "0:1,1:1 0:-1,2:1", "divides-exact");
        E("divides", "0:1,1:1 0:1,2:1", "divides-inexact");
        // divisor with more terms than the dividend although it divides it (x^3+1 = (x+1)(x^2-x+1))
        E("divides", "0:1,1:-1,2:1 0:1,3:1", "divides-fewer-terms");
        E("divides", "0:1,1:1,2:1,3:1 0:-1,4:1", "divides-fewer-terms");
        // dividend of lower degree with at least as many terms (urat: wrong answer; uint: see below)
        if (rat) {
            E("divides", "2:1 0:1,1:1", "divides-lower-degree");
            E("divides", "3:2,5:1 0:1,1:1/2,2:3", "divides-lower-degree");
        }
    }
    // ---- Kronecker adversarial: dense, same sign, coefficients 2^k-1 (largest accumulation)
    if (!rat && !expr) {
        E("mul", "0:7,1:7,2:7 0:7,1:7,2:7", "kron-allones");
        for (unsigned k : {1u, 2u, 3u, 5u, 8u, 31u, 32u, 33u, 63u, 64u, 65u, 127u, 128u})
            for (unsigned n : {1u, 2u, 3u, 4u, 7u, 8u, 15u, 16u}) {
                if (!th && r.below(100) >= 35)
                    continue;
                int s1 = r.coin() ? 1 : -1, s2 = r.coin() ? 1 : -1;
                unsigned n2 = r.coin() ? n : 1 + (unsigned)r.below(20);
                E("mul", allOnes(n, k, s1) + " " + allOnes(n2, 1 + (unsigned)r.below(k + 2), s2), "kron-allones");
            }
        E("pow", "0:7,1:7,2:7 2", "kron-allones");
        E("pow", "0:-3,1:3 3", "kron-allones");
    }
    int base = th ? 40 : 4;
    // ---- random binary ops
    for (int i = 0; i < 60 * base; i++) {
        const char *op = (i % 3 == 0) ? "add" : (i % 3 == 1) ? "sub" : "mul";
        int fam = (int)r.below(expr ? 3 : 6);
        GenCfg g = fam == 0   ? cfg(6, 0, 8, 0, 70)
                   : fam == 1 ? cfg(40, 0, 8, 0, 40)
                   : fam == 2 ? cfg(12, 1, 70, 0, 80)
                   : fam == 3 ? cfg(40, 1, 70, (int)r.below(3) - 1, 90)
                   : fam == 4 ? cfg(10, 2, th ? 2000 : 400, 0, 80)
                              : cfg(th ? 20 : 8, -1, th ? 2000 : 300, 0, 60);
        std::string tag = std::string(op) + (fam == 0   ? "-small"
                                             : fam == 1 ? "-sparse40"
                                             : fam == 2 ? "-pow2adj"
                                             : fam == 3 ? "-pow2adj-dense40"
                                             : fam == 4 ? "-multilimb-pow2adj"
                                                        : "-multilimb-mixed");
        std::string a = P(g), b = r.coin(1, 12) ? a : P(g);
        E(op, a + " " + b, tag);
    }
    // ---- cancellation: a + (-a + small), a - (a + small)
    for (int i = 0; i < 8 * base; i++) {
        auto ta = randTerms(r, cfg(12, 1, 70, 0, 70));
        auto tb = ta;
        for (auto &p : tb)
            if (r.coin(1, 4))
                p.second = p.second + Q(Z((long)r.range(-1, 1)));
        auto tn = tb;
        for (auto &p : tn)
            p.second = Q(0) - p.second;
        E("sub", showTerms(ta) + " " + showTerms(tb, false), "cancel");
        E("add", showTerms(ta) + " " + showTerms(tn, false), "cancel");
    }
    // ---- unary / queries
    for (int i = 0; i < 12 * base; i++) {
        GenCfg g = r.coin() ? cfg(12, 0, 8, 0, 60) : cfg(40, -1, 200, 0, 50);
        std::string a = P(g);
        E("neg", a, "neg");
        E("diff", P(g), "diff");
        E("degree", P(g), "degree");
        E("lc", P(g), "lc");
        E("coeff", P(g) + " " + std::to_string(r.below(45)), "coeff");
        if (!expr || true) {
            std::string xv = rat ? showQ(Q(Z((long)r.range(-7, 7)), Z((long)r.range(1, 5))))
                                 : std::to_string(r.range(-9, 9));
            if (rat) {
                Q q = parseQ(xv);
                xv = showQ(q);
            }
            E("eval", P(r.coin() ? cfg(8, 0, 8, 0, 70) : cfg(30, 1, 70, 0, 40)) + " " + xv, "eval");
        }
        if (!expr)
            E("rt", P(cfg(10, 1, 70, 0, 60)), "roundtrip");
    }
    E("eval", "0:1,1:1,5:-2 0", "eval");
    E("eval", "3:1 2", "eval");
    // ---- pow, exponents 1..6
    for (int i = 0; i < 10 * base; i++) {
        unsigned p = 1 + (unsigned)r.below(6);
        int fam = (int)r.below(expr ? 2 : 3);
        GenCfg g = fam == 0 ? cfg(4, 0, 8, 0, 80) : fam == 1 ? cfg(8, 0, 8, 0, 30) : cfg(3, 1, 40, 0, 90);
        E("pow", P(g) + " " + std::to_string(p), fam == 2 ? "pow-pow2adj" : "pow-small");
    }
    // ---- expression round trip of unexpanded products / powers
    if (!expr)
        for (int i = 0; i < 6 * base; i++) {
            GenCfg g = cfg(5, i % 2 ? 1 : 0, 40, 0, 70);
            E("rtmul", P(g) + " " + P(g), "roundtrip-mul");
            E("rtpow", P(cfg(3, 0, 8, 0, 80)) + " " + std::to_string(1 + r.below(4)), "roundtrip-pow");
        }
    // ---- divides: exact (b = a*q built with the oracle arithmetic) and perturbed
    if (!expr)
        for (int i = 0; i < 14 * base; i++) {
            GenCfg ga = r.coin() ? cfg(5, 0, 8, 0, 60) : cfg(8, 1, 40, 0, 50);
            GenCfg gq = r.coin() ? cfg(6, 0, 8, 0, 50) : cfg(10, 1, 40, 0, 70);
            auto ta = randTerms(r, ga), tq = randTerms(r, gq);
            Vec va = vecOf(ta), vq = vecOf(tq);
            Vec vb = vmul(va, vq);
            E("divides", showVec(va) + " " + showVec(vb), "divides-exact");
            if (!vb.empty() && !va.empty()) {
                // perturbations that keep the degree of the remainder >= degree of the divisor's
                // cofactor path well defined: change one low coefficient
                Vec vc = vb;
                size_t k = (size_t)r.below(vc.size());
                vc[k] = vc[k] + Q(Z((long)(1 + r.below(3))));
                trim(vc);
                E("divides", showVec(va) + " " + showVec(vc), "divides-perturbed");
            }
        }
    // ---- operations whose pre-fix behaviour is a crash or a hang come last and are few
    E("eval", std::string(zp) + " 5", "zero-eval");
    if (!expr) {
        E("pow", std::string(zp) + " 1", "zero-pow");
        E("pow", std::string(zp) + " 3", "zero-pow");
    }
    E("pow", "0:1,1:1 0", "pow-zero-exponent");
    E("pow", std::string(zp) + " 0", "pow-zero-exponent");
    if (!rat && !expr) {
        E("divides", "2:1 0:1,1:1", "divides-lower-degree");
        E("divides", "1:1,4:3 0:1,1:1,3:5", "divides-lower-degree");
    }
    if (!expr)
        for (int i = 0; i < 5 * base; i++) {
            GenCfg g = cfg(8, 0, 8, 0, 50);
            E("divides", P(g) + " " + P(g), "divides-random");
        }
}

void hx_gen(Rng &r, const std::string &tier)
{
    bool th = tier == "thorough";
    genKind(r, "uint", th);
    genKind(r, "urat", th);
    genKind(r, "uexpr", th);
}
