// C36: algebraic rewriting transformations preserve value.
// Op lines (operands as canonical dumps, harness/sexp.h):
//   nd <e>      as_numer_denom(e)            ->  <n> <d>
//   rexp <e>    rewrite_as_exp(e)            ->  <r>
//   rsin <e>    rewrite_as_sin(e)            ->  <r>
//   rcos <e>    rewrite_as_cos(e)            ->  <r>
//   tsqrt <e>   trig_to_sqrt(e)              ->  <r>
//   conj <e>    conjugate(e)                 ->  <r>
//   ri <e>      as_real_imag(e)              ->  <re> <im>
//   xexp <e>    e->expand_as_exp()           ->  E:NotImplemented (no class overrides it)
//
// Oracle (independent of the Lean model): own evaluator over complex<long double> on the stored
// fields (harness/c36_eval.h, principal branches), relative tolerance 1e-9, points closer than 1e-6 to
// a branch cut or to a pole are discarded and counted.
//   nd         n/d = e at positive real symbol values; no negative exponent at the top level of n, d
//   rexp rsin rcos tsqrt   result = e at generic complex points
//   conj       value(result) = complex conjugate of value(e) at generic complex points
//   ri         re and im evaluate to reals and re + I*im = e (constant expressions)
#include "common.h"
#include "sexp.h"
#include "exprgen.h"
#include "c36_eval.h"
#include <symengine/visitor.h>

using namespace SymEngine;

namespace
{
bool neg_like(const Basic &ex)
{
    if (is_a_Number(ex))
        return down_cast<const Number &>(ex).is_negative();
    if (is_a<Mul>(ex))
        return down_cast<const Mul &>(ex).get_coef()->is_negative();
    return false;
}
// no negative exponent on the top level: through sums and products, not into bases / arguments
bool no_neg_top_exp(const Basic &b)
{
    if (is_a<Mul>(b)) {
        for (auto &p : down_cast<const Mul &>(b).get_dict())
            if (neg_like(*p.second))
                return false;
        return true;
    }
    if (is_a<Pow>(b))
        return !neg_like(*down_cast<const Pow &>(b).get_exp());
    if (is_a<Add>(b)) {
        for (auto &p : down_cast<const Add &>(b).get_dict())
            if (!no_neg_top_exp(*p.first))
                return false;
        return true;
    }
    if (is_a<Rational>(b))
        return false; // a numerator / denominator must not be a fraction
    return true;
}

// a power with a non-integer exponent whose base has a non-trivial denominator that is not a positive
// number: as_numer_denom splits it over numerator and denominator (known finding / fixed by patch)
bool has_quotient_power(const Basic &b)
{
    if (is_a<Pow>(b)) {
        const Pow &p = down_cast<const Pow &>(b);
        if (!is_a<Integer>(*p.get_exp())) {
            RCP<const Basic> n, d;
            as_numer_denom(p.get_base(), outArg(n), outArg(d));
            if (!(is_a_Number(*d) && down_cast<const Number &>(*d).is_positive()))
                return true;
        }
    }
    for (auto &a : b.get_args())
        if (has_quotient_power(*a))
            return true;
    return false;
}
// a power with a non-integer exponent whose base evaluates to a real number (own evaluator)
bool has_realbase_power(const Basic &b)
{
    if (is_a<Pow>(b)) {
        const Pow &p = down_cast<const Pow &>(b);
        if (!is_a<Integer>(*p.get_exp())) {
            try {
                nev::Env env;
                nev::C v = nev::ev(*p.get_base(), env);
                if (nev::is_real(v))
                    return true;
            } catch (...) {
            }
        }
    }
    for (auto &a : b.get_args())
        if (has_realbase_power(*a))
            return true;
    return false;
}
bool has_class(const Basic &b, TypeID t)
{
    if (b.get_type_code() == t)
        return true;
    for (auto &a : b.get_args())
        if (has_class(*a, t))
            return true;
    return false;
}

// compare at points; verdict string "" = ok
std::string judge_points(const Basic &lhs, const Basic &rhs, bool positive, bool conj_rhs, const std::string &key,
                         uint64_t seed)
{
    set_basic syms = free_symbols(lhs);
    set_basic sb = free_symbols(rhs);
    syms.insert(sb.begin(), sb.end());
    int judged = 0;
    const int npoints = 6;
    for (int k = 0; k < npoints; k++) {
        nev::Env env;
        env.salt = seed * 2654435761ULL + (uint64_t)k;
        for (auto &s : syms) {
            const std::string &n = down_cast<const Symbol &>(*s).get_name();
            uint64_t h = nev::strhash(n, env.salt);
            if (positive)
                env.sym[n] = nev::C(0.2L + 3.3L * nev::unit(h), 0);
            else
                env.sym[n] = nev::C(-1.6L + 3.2L * nev::unit(h), -1.3L + 2.6L * nev::unit(h >> 17));
        }
        try {
            nev::C a = nev::ev(lhs, env), b = nev::ev(rhs, env);
            if (conj_rhs)
                b = std::conj(b);
            if (!nev::finite(a) || !nev::finite(b)) {
                stat("points_discarded_overflow");
                continue;
            }
            judged++;
            stat("points_judged");
            if (!nev::close(a, b, 1e-9L)) {
                std::ostringstream ss;
                ss.precision(12);
                ss << "FAIL:" << key << ":point" << k << " got=(" << (double)a.real() << "," << (double)a.imag()
                   << ") want=(" << (double)b.real() << "," << (double)b.imag() << ")";
                for (auto &kv : env.sym)
                    ss << " " << kv.first << "=(" << (double)kv.second.real() << "," << (double)kv.second.imag()
                       << ")";
                return ss.str();
            }
        } catch (const nev::Sing &) {
            stat("points_discarded_singular_or_near_cut");
        }
    }
    if (judged == 0)
        stat("cases_without_judged_point");
    return "";
}
} // namespace

// ---------------------------------------------------------------------------------- run
std::string hx_run(const std::string &line, std::string &oracle)
{
    size_t sp = line.find(' ');
    if (sp == std::string::npos)
        return "bad-op";
    std::string op = line.substr(0, sp);
    RCP<const Basic> e = vsexp::parse(line.substr(sp + 1));
    uint64_t seed = nev::strhash(line, 36);
    stat("op_" + op);
    try {
        if (op == "nd") {
            RCP<const Basic> n, d;
            as_numer_denom(e, outArg(n), outArg(d));
            std::string out = vsexp::dump(n) + " " + vsexp::dump(d);
            if (!no_neg_top_exp(*n) || !no_neg_top_exp(*d)) {
                oracle = "FAIL:nd-negexp:" + n->__str__() + " / " + d->__str__();
                return out;
            }
            std::string v = judge_points(*div(n, d), *e, true, false, "nd-value", seed);
            if (!v.empty()) {
                // classify the split of a non-integer power of a quotient
                if (has_quotient_power(*e))
                    v.replace(0, std::string("FAIL:nd-value").size(), "FAIL:nd-quotpow-split");
                oracle = v + " e=" + e->__str__() + " n=" + n->__str__() + " d=" + d->__str__();
            }
            return out;
        }
        if (op == "rexp" || op == "rsin" || op == "rcos" || op == "tsqrt") {
            RCP<const Basic> r = op == "rexp"   ? rewrite_as_exp(e)
                                 : op == "rsin" ? rewrite_as_sin(e)
                                 : op == "rcos" ? rewrite_as_cos(e)
                                                : trig_to_sqrt(e);
            std::string v = judge_points(*r, *e, false, false, op + "-value", seed);
            if (!v.empty())
                oracle = v + " e=" + e->__str__() + " r=" + r->__str__();
            return vsexp::dump(r);
        }
        if (op == "conj") {
            RCP<const Basic> r = conjugate(e);
            std::string v = judge_points(*r, *e, false, true, "conj-value", seed);
            if (!v.empty())
                oracle = v + " e=" + e->__str__() + " r=" + r->__str__();
            return vsexp::dump(r);
        }
        if (op == "ri") {
            RCP<const Basic> re, im;
            as_real_imag(e, outArg(re), outArg(im));
            std::string out = vsexp::dump(re) + " " + vsexp::dump(im);
            nev::Env env;
            try {
                nev::C vr = nev::ev(*re, env), vi = nev::ev(*im, env), ve = nev::ev(*e, env);
                if (!nev::finite(vr) || !nev::finite(vi) || !nev::finite(ve)) {
                    stat("points_discarded_overflow");
                    return out;
                }
                stat("points_judged");
                nev::R scale = std::max((nev::R)1, std::abs(ve));
                if (std::fabs(vr.imag()) > 1e-9L * scale || std::fabs(vi.imag()) > 1e-9L * scale) {
                    std::ostringstream ss;
                    ss.precision(12);
                    ss << (has_realbase_power(*e) ? "FAIL:ri-realbase-pow:re=(" : "FAIL:ri-notreal:re=(") << (double)vr.real() << "," << (double)vr.imag() << ") im=("
                       << (double)vi.real() << "," << (double)vi.imag() << ") e=" << e->__str__()
                       << " re=" << re->__str__() << " im=" << im->__str__();
                    oracle = ss.str();
                    return out;
                }
                nev::C sum = vr + nev::C(0, 1) * vi;
                if (!nev::close(sum, ve, 1e-9L)) {
                    std::ostringstream ss;
                    ss.precision(12);
                    // the imaginary part of cot(a + b*I) has the wrong sign (known finding): every value
                    // mismatch on an input that contains a Cot is filed under that key
                    bool cotsign = has_class(*e, SYMENGINE_COT);
                    ss << (cotsign ? "FAIL:ri-cot-imag-sign:re+I*im=(" : "FAIL:ri-value:re+I*im=(") << (double)sum.real() << "," << (double)sum.imag() << ") e=("
                       << (double)ve.real() << "," << (double)ve.imag() << ") e=" << e->__str__();
                    oracle = ss.str();
                }
            } catch (const nev::Sing &) {
                stat("points_discarded_singular_or_near_cut");
            }
            return out;
        }
        if (op == "xexp") {
            RCP<const Basic> r = e->expand_as_exp();
            return vsexp::dump(r);
        }
    } catch (const nev::Unsup &u) {
        stat("oracle_unsupported_" + u.why.substr(0, 24));
        throw std::runtime_error("oracle-unsupported");
    }
    return "bad-op";
}

// ---------------------------------------------------------------------------------- gen
namespace
{
struct G {
    Rng &r;
    explicit G(Rng &r_) : r(r_) {}
    RCP<const Basic> sym()
    {
        return vgen::sym((int)r.below(4));
    }
    RCP<const Basic> smallnum(bool allow_rat = true)
    {
        if (allow_rat && r.coin(1, 4))
            return Rational::from_two_ints(*integer(r.range(-5, 5)), *integer(r.range(2, 5)));
        long v = r.range(-4, 5);
        return integer(v == 0 ? 2 : v);
    }
    // polynomial-ish argument in the symbols
    RCP<const Basic> lin(int depth)
    {
        if (depth <= 0 || r.coin(1, 3))
            return r.coin(3, 4) ? sym() : mul(smallnum(), sym());
        switch (r.below(4)) {
            case 0:
                return add(lin(depth - 1), lin(depth - 1));
            case 1:
                return mul(lin(depth - 1), lin(depth - 1));
            case 2:
                return add(lin(depth - 1), smallnum());
            default:
                return mul(smallnum(), lin(depth - 1));
        }
    }
    RCP<const Basic> trig1(const RCP<const Basic> &a, bool hyper)
    {
        switch (r.below(hyper ? 12 : 6)) {
            case 0:
                return sin(a);
            case 1:
                return cos(a);
            case 2:
                return tan(a);
            case 3:
                return cot(a);
            case 4:
                return sec(a);
            case 5:
                return csc(a);
            case 6:
                return sinh(a);
            case 7:
                return cosh(a);
            case 8:
                return tanh(a);
            case 9:
                return coth(a);
            case 10:
                return sech(a);
            default:
                return csch(a);
        }
    }
    // expressions with trigonometric / hyperbolic functions of symbolic arguments
    RCP<const Basic> trigexpr(int depth, bool hyper)
    {
        if (depth <= 0)
            return r.coin() ? trig1(lin(1), hyper) : sym();
        switch (r.below(8)) {
            case 0:
                return add(trigexpr(depth - 1, hyper), trigexpr(depth - 1, hyper));
            case 1:
                return mul(trigexpr(depth - 1, hyper), trigexpr(depth - 1, hyper));
            case 2:
                return pow(trigexpr(depth - 1, hyper), integer(r.coin() ? 2 : -1));
            case 3:
                return trig1(trigexpr(depth - 1, hyper), hyper);
            case 4:
                return function_symbol("f", trigexpr(depth - 1, hyper));
            case 5:
                return mul(smallnum(), trig1(lin(1), hyper));
            case 6:
                return pow(sym(), trig1(lin(1), hyper));
            default:
                return trig1(lin(2), hyper);
        }
    }
    // rational-function like expressions with atoms
    RCP<const Basic> atom()
    {
        switch (r.below(9)) {
            case 0:
                return sin(sym());
            case 1:
                return function_symbol("f", sym());
            case 2:
                return exp(sym());
            case 3:
                return log(add(sym(), integer(r.range(1, 4))));
            default:
                return sym();
        }
    }
    RCP<const Basic> ratfun(int depth)
    {
        if (depth <= 0)
            return r.coin(1, 5) ? rcp_static_cast<const Basic>(smallnum()) : atom();
        switch (r.below(10)) {
            case 0:
            case 1:
                return add(ratfun(depth - 1), ratfun(depth - 1));
            case 2:
            case 3:
                return mul(ratfun(depth - 1), ratfun(depth - 1));
            case 4:
                return div(ratfun(depth - 1), ratfun(depth - 1));
            case 5:
                return pow(ratfun(depth - 1), integer(-(long)r.range(1, 3)));
            case 6:
                return pow(ratfun(depth - 1), integer(r.range(2, 3)));
            case 7: {
                // non-integer exponents: rational, symbolic, negative symbolic
                RCP<const Basic> b = ratfun(depth - 1);
                unsigned k = r.below(4);
                RCP<const Basic> ex;
                if (k == 0)
                    ex = Rational::from_two_ints(*integer(r.coin() ? 1 : -1), *integer(r.range(2, 3)));
                else if (k == 1)
                    ex = sym();
                else if (k == 2)
                    ex = mul(integer(-(long)r.range(1, 3)), sym());
                else
                    ex = add(sym(), integer(r.range(-3, 3)));
                if (is_a_Number(*b))
                    b = sym();
                return pow(b, ex);
            }
            case 8:
                return add(ratfun(depth - 1), div(one, ratfun(depth - 1)));
            default:
                return atom();
        }
    }
    // constant expressions for as_real_imag
    RCP<const Basic> cnum()
    {
        switch (r.below(8)) {
            case 0:
                return I;
            case 1:
                return Complex::from_two_nums(*integer(r.range(-3, 3)), *integer(r.range(1, 3)));
            case 2:
                return pi;
            case 3:
                return E;
            case 4:
                return Complex::from_two_nums(*Rational::from_two_ints(*integer(r.range(-3, 3)), *integer(2)),
                                              *Rational::from_two_ints(*integer(r.range(1, 5)), *integer(3)));
            default:
                return smallnum();
        }
    }
    RCP<const Basic> cexpr(int depth)
    {
        if (depth <= 0)
            return cnum();
        switch (r.below(12)) {
            case 0:
            case 1:
                return add(cexpr(depth - 1), cexpr(depth - 1));
            case 2:
            case 3:
                return mul(cexpr(depth - 1), cexpr(depth - 1));
            case 4:
                return pow(cexpr(depth - 1), integer(r.range(-3, 3)));
            case 5:
                return pow(cexpr(depth - 1), Rational::from_two_ints(*integer(r.range(-3, 3)), *integer(r.range(2, 3))));
            case 6: {
                RCP<const Basic> a = cexpr(depth - 1);
                switch (r.below(12)) {
                    case 0:
                        return sin(a);
                    case 1:
                        return cos(a);
                    case 2:
                        return tan(a);
                    case 3:
                        return cot(a);
                    case 4:
                        return sec(a);
                    case 5:
                        return csc(a);
                    case 6:
                        return sinh(a);
                    case 7:
                        return cosh(a);
                    case 8:
                        return tanh(a);
                    case 9:
                        return coth(a);
                    case 10:
                        return sech(a);
                    default:
                        return csch(a);
                }
            }
            case 7:
                return abs(cexpr(depth - 1));
            case 8:
                return exp(cexpr(depth - 1));
            case 9:
                return pow(cexpr(depth - 1), cexpr(depth - 1));
            default:
                return cnum();
        }
    }
    // sums containing integer powers (2..5) of (constant + q*I): real and imaginary part of such a
    // power are themselves sums with a non-zero numeric constant, which the Add visitor has to merge
    RCP<const Basic> realconst()
    {
        switch (r.below(6)) {
            case 0:
                return pi;
            case 1:
                return E;
            case 2:
                return sqrt(integer(r.range(2, 3)));
            case 3:
                return add(pi, integer(r.range(1, 3)));
            case 4:
                return Rational::from_two_ints(*integer(r.range(1, 7)), *integer(r.range(2, 3)));
            default:
                return integer(r.range(1, 4));
        }
    }
    RCP<const Basic> gausspow()
    {
        RCP<const Number> q = r.coin(2, 3) ? rcp_static_cast<const Number>(integer(r.coin() ? 1 : -1))
                                          : Rational::from_two_ints(*integer(r.range(-3, 3) | 1), *integer(2));
        RCP<const Basic> z = add(realconst(), mul(q, I));
        return pow(z, integer(r.range(2, 5)));
    }
    RCP<const Basic> ripowsum()
    {
        vec_basic v;
        v.push_back(gausspow());
        int n = 1 + (int)r.below(3);
        for (int i = 0; i < n; i++) {
            switch (r.below(7)) {
                case 0:
                    v.push_back(integer(r.range(-4, 5)));
                    break;
                case 1:
                    v.push_back(sqrt(I));
                    break;
                case 2:
                    v.push_back(realconst());
                    break;
                case 3:
                    v.push_back(gausspow());
                    break;
                case 4:
                    v.push_back(mul(smallnum(), gausspow()));
                    break;
                case 5:
                    v.push_back(sin(add(integer(r.range(1, 3)), I)));
                    break;
                default:
                    v.push_back(Complex::from_two_nums(*integer(r.range(-3, 3)), *integer(r.range(1, 3))));
                    break;
            }
        }
        RCP<const Basic> e = add(v);
        if (r.coin(1, 5))
            e = mul(e, add(realconst(), I));
        return e;
    }
    // expressions for conjugate
    RCP<const Basic> conjexpr(int depth)
    {
        if (depth <= 0) {
            switch (r.below(6)) {
                case 0:
                    return I;
                case 1:
                    return Complex::from_two_nums(*integer(r.range(-3, 3)), *integer(r.range(1, 3)));
                case 2:
                    return pi;
                case 3:
                    return smallnum();
                default:
                    return sym();
            }
        }
        switch (r.below(14)) {
            case 0:
                return add(conjexpr(depth - 1), conjexpr(depth - 1));
            case 1:
            case 2:
                return mul(conjexpr(depth - 1), conjexpr(depth - 1));
            case 3:
                return pow(conjexpr(depth - 1), integer(r.range(-3, 3)));
            case 4:
                return pow(conjexpr(depth - 1), Rational::from_two_ints(*integer(1), *integer(r.range(2, 3))));
            case 5:
                return trig1(conjexpr(depth - 1), true);
            case 6:
                return abs(conjexpr(depth - 1));
            case 7:
                return sign(conjexpr(depth - 1));
            case 8:
                return log(conjexpr(depth - 1));
            case 9:
                return conjugate(conjexpr(depth - 1));
            case 10:
                return pow(conjexpr(depth - 1), conjexpr(depth - 1));
            case 11:
                return function_symbol("f", conjexpr(depth - 1));
            case 12:
                return exp(conjexpr(depth - 1));
            default:
                return mul(Complex::from_two_nums(*integer(r.range(-2, 2)), *integer(r.range(1, 2))),
                           conjexpr(depth - 1));
        }
    }
    // the patterns of trig_to_sqrt
    RCP<const Basic> tsq()
    {
        RCP<const Basic> a = r.coin(2, 3) ? sym() : lin(1);
        if (is_a_Number(*a)) // e.g. x - x: the patterns divide by the argument
            a = sym();
        RCP<const Basic> inner;
        switch (r.below(8)) {
            case 0:
                inner = asin(a);
                break;
            case 1:
                inner = acos(a);
                break;
            case 2:
                inner = atan(a);
                break;
            case 3:
                inner = acot(a);
                break;
            case 4:
                inner = asec(a);
                break;
            case 5:
                inner = acsc(a);
                break;
            case 6:
                inner = a;
                break;
            default:
                inner = mul(integer(2), asin(a));
                break;
        }
        return trig1(inner, false);
    }
};

bool has_inf(const std::string &s)
{
    return s.find("(oo ") != std::string::npos || s.find("nan") != std::string::npos;
}
void emit_op(const std::string &op, const RCP<const Basic> &e, const std::string &tag, size_t maxlen)
{
    std::string d = vsexp::dump(e);
    if (has_inf(d) || d.size() > maxlen)
        return;
    if (op == "ri") {
        // constant expressions sitting on a pole (coth(I*pi)) have no value: outside the property
        try {
            nev::Env env;
            if (!nev::finite(nev::ev(*e, env)))
                return;
        } catch (const nev::Sing &) {
            return;
        } catch (const nev::Unsup &) {
        }
    }
    emit(op + " " + d, tag);
}
} // namespace

void hx_gen(Rng &rng, const std::string &tier)
{
    bool thorough = tier == "thorough";
    RCP<const Basic> x = symbol("x"), y = symbol("y"), z = symbol("z");
    RCP<const Number> half = Rational::from_two_ints(*integer(1), *integer(2));
    // fixed cases
    {
        std::vector<RCP<const Basic>> nds
            = {add(div(one, x), div(one, y)), add(pow(x, integer(-2)), div(y, x)),
               pow(add(div(one, x), y), integer(-2)), pow(integer(2), neg(x)), exp(neg(x)),
               pow(x, sub(y, integer(2))), pow(div(x, y), z), pow(div(x, y), neg(z)),
               pow(div(x, y), half), pow(Rational::from_two_ints(*integer(2), *integer(5)), mul(integer(-3), x)),
               div(add(x, Complex::from_two_nums(*half, *integer(2))), y), sin(div(one, x))};
        for (auto &e : nds)
            emit_op("nd", e, "nd-fixed", 4000);
        // the denominator can be negative for positive symbols: sqrt(x/(y-3))
        emit_op("nd", pow(div(x, sub(y, integer(3))), half), "nd-quotpow", 4000);
        std::vector<RCP<const Basic>> ris
            = {exp(I), pow(integer(2), I), sqrt(sub(one, pi)), sin(add(one, I)), sqrt(add(one, I)),
               pow(add(pi, I), integer(-3)), tan(add(one, I)), pow(I, Rational::from_two_ints(*integer(2), *integer(3))),
               sqrt(neg(I)), csc(add(integer(2), I)), abs(add(one, I)), sqrt(integer(2)), pow(pi, half),
               // nested sums with constants in the real / imaginary parts of the terms
               add(pow(add(pi, I), integer(3)), integer(2)), add(pow(add(pi, I), integer(3)), sqrt(I)),
               add(pow(add(pi, I), integer(5)), E), add(pow(add(E, neg(I)), integer(4)), pow(add(pi, I), integer(2)))};
        for (auto &e : ris)
            emit_op("ri", e, "ri-fixed", 4000);
        emit_op("xexp", sin(x), "xexp", 4000);
        emit_op("xexp", add(x, y), "xexp", 4000);
    }
    G g(rng);
    int n = thorough ? 1500 : 120;
    size_t maxlen = thorough ? 900 : 600;
    for (int it = 0; it < n; it++) {
        try {
            emit_op("nd", g.ratfun(2 + (int)rng.below(thorough ? 3 : 2)), "nd", maxlen);
        } catch (const std::exception &) {
        }
        try {
            emit_op("rexp", g.trigexpr(1 + (int)rng.below(3), true), "rexp", maxlen);
        } catch (const std::exception &) {
        }
        try {
            emit_op(rng.coin() ? "rsin" : "rcos", g.trigexpr(1 + (int)rng.below(3), rng.coin(1, 4)), "rsincos", maxlen);
        } catch (const std::exception &) {
        }
        try {
            if (it % 3 == 0)
                emit_op("tsqrt", g.tsq(), "tsqrt", maxlen);
        } catch (const std::exception &) {
        }
        try {
            emit_op("conj", g.conjexpr(1 + (int)rng.below(3)), "conj", maxlen);
        } catch (const std::exception &) {
        }
        try {
            emit_op("ri", g.cexpr(1 + (int)rng.below(3)), "ri", maxlen);
        } catch (const std::exception &) {
        }
        try {
            if (it % 2 == 0)
                emit_op("ri", g.ripowsum(), "ri-powsum", maxlen);
        } catch (const std::exception &) {
        }
    }
}
