// C06: mixed-kind number arithmetic is commutative and obeys the oo/nan rules.
// Op line:  <op> <a> <b>     op in add sub mul div pow
// value tokens: i<int> | r<num>/<den> | c<n>/<d>,<n>/<d> | d<16 hex> | z<16 hex>,<16 hex> | oo | -oo | zoo | nan
// output: canonical dump of a.op(b):  I:<n> | Q:<n>/<d> | C:<n>/<d>,<n>/<d> | D:<16 hex|nan> | Z:<..>,<..> | oo | -oo | zoo | nan | E:<exc>
#include "common.h"
#include <symengine/basic.h>
#include <symengine/integer.h>
#include <symengine/rational.h>
#include <symengine/complex.h>
#include <symengine/real_double.h>
#include <symengine/complex_double.h>
#include <symengine/infinity.h>
#include <symengine/nan.h>
#include <symengine/constants.h>
#include <cmath>
#include <complex>

using namespace SymEngine;
typedef RCP<const Number> Num;

// ---------------------------------------------------------------- value syntax (shared text with c05.cpp / c29.cpp)
static std::string hex16(double d)
{
    if (std::isnan(d))
        return "nan";
    uint64_t u;
    memcpy(&u, &d, 8);
    char buf[20];
    snprintf(buf, sizeof buf, "%016llx", (unsigned long long)u);
    return buf;
}
static double from_hex(const std::string &s)
{
    uint64_t u = strtoull(s.c_str(), nullptr, 16);
    double d;
    memcpy(&d, &u, 8);
    return d;
}
static integer_class zint(const std::string &s)
{
    integer_class z;
    mpz_set_str(get_mpz_t(z), s.c_str(), 10);
    return z;
}
static Num parse_q(const std::string &s)
{
    auto p = split(s, '/');
    return Rational::from_two_ints(*integer(zint(p[0])), *integer(zint(p.size() > 1 ? p[1] : "1")));
}
static Num parse_num(const std::string &t)
{
    if (t == "oo")
        return Inf;
    if (t == "-oo")
        return NegInf;
    if (t == "zoo")
        return ComplexInf;
    if (t == "nan")
        return Nan;
    std::string r = t.substr(1);
    switch (t[0]) {
        case 'i':
            return integer(zint(r));
        case 'r':
            return parse_q(r);
        case 'c': {
            auto p = split(r, ',');
            return Complex::from_two_nums(*parse_q(p[0]), *parse_q(p[1]));
        }
        case 'd':
            return real_double(from_hex(r));
        case 'z': {
            auto p = split(r, ',');
            return complex_double(std::complex<double>(from_hex(p[0]), from_hex(p[1])));
        }
    }
    throw std::runtime_error("bad value token " + t);
}
static std::string zstr(const integer_class &z)
{
    char *c = mpz_get_str(nullptr, 10, get_mpz_t(z));
    std::string s(c);
    free(c);
    return s;
}
static std::string qstr(const rational_class &q)
{
    return zstr(get_num(q)) + "/" + zstr(get_den(q));
}
static std::string dump(const Basic &b)
{
    if (is_a<Integer>(b))
        return "I:" + zstr(down_cast<const Integer &>(b).as_integer_class());
    if (is_a<Rational>(b))
        return "Q:" + qstr(down_cast<const Rational &>(b).as_rational_class());
    if (is_a<Complex>(b)) {
        const Complex &c = down_cast<const Complex &>(b);
        return "C:" + qstr(c.real_) + "," + qstr(c.imaginary_);
    }
    if (is_a<RealDouble>(b))
        return "D:" + hex16(down_cast<const RealDouble &>(b).i);
    if (is_a<ComplexDouble>(b)) {
        auto z = down_cast<const ComplexDouble &>(b).i;
        return "Z:" + hex16(z.real()) + "," + hex16(z.imag());
    }
    if (is_a<Infty>(b)) {
        const Infty &f = down_cast<const Infty &>(b);
        RCP<const Number> d = f.get_direction();
        if (is_a<Integer>(*d)) {
            if (d->is_one())
                return "oo";
            if (d->is_minus_one())
                return "-oo";
            if (d->is_zero())
                return "zoo";
        }
        return "INFTY-NONCANONICAL(" + dump(*d) + ")";
    }
    if (is_a<NaN>(b))
        return "nan";
    return "OTHER(" + b.__str__() + ")";
}

static Num apply(const std::string &op, const Num &a, const Num &b)
{
    if (op == "add")
        return a->add(*b);
    if (op == "sub")
        return a->sub(*b);
    if (op == "mul")
        return a->mul(*b);
    if (op == "div")
        return a->div(*b);
    if (op == "pow")
        return a->pow(*b);
    throw std::runtime_error("bad op");
}
static std::string eval(const std::string &op, const Num &a, const Num &b, std::string &oracle)
{
    try {
        return dump(*apply(op, a, b));
    } catch (const VerifAssertError &e) {
        if (oracle == "ok")
            oracle = std::string("FAIL:assert:") + e.what();
        return "E:Assert";
    } catch (const std::exception &e) {
        return exc_name(e);
    }
}

// ---------------------------------------------------------------- classification used by the oracle
static bool is_sym_nan(const Num &x)
{
    return is_a<NaN>(*x);
}
static bool is_exactk(const Num &x)
{
    return is_a<Integer>(*x) or is_a<Rational>(*x) or is_a<Complex>(*x);
}
static bool is_floatk(const Num &x)
{
    return is_a<RealDouble>(*x) or is_a<ComplexDouble>(*x);
}
static bool float_finite(const Num &x)
{
    if (is_a<RealDouble>(*x))
        return std::isfinite(down_cast<const RealDouble &>(*x).i);
    auto z = down_cast<const ComplexDouble &>(*x).i;
    return std::isfinite(z.real()) and std::isfinite(z.imag());
}
static bool finite_num(const Num &x)
{
    return is_exactk(x) or (is_floatk(x) and float_finite(x));
}
// sign of a finite real number: -1, 0, 1;  2 = not a finite real
static int real_sign(const Num &x)
{
    if (is_a<Integer>(*x) or is_a<Rational>(*x))
        return x->is_positive() ? 1 : (x->is_negative() ? -1 : 0);
    if (is_a<RealDouble>(*x)) {
        double d = down_cast<const RealDouble &>(*x).i;
        if (!std::isfinite(d))
            return 2;
        return d > 0 ? 1 : (d < 0 ? -1 : 0);
    }
    return 2;
}
static int infdir(const Num &x)
{ // 1, -1, 0 (zoo); 9 = not an Infty
    if (!is_a<Infty>(*x))
        return 9;
    const Infty &f = down_cast<const Infty &>(*x);
    return f.is_positive_infinity() ? 1 : (f.is_negative_infinity() ? -1 : 0);
}
static std::string dirstr(int d)
{
    return d > 0 ? "oo" : (d < 0 ? "-oo" : "zoo");
}
static void fail(std::string &oracle, const std::string &key, const std::string &d)
{
    if (oracle == "ok")
        oracle = "FAIL:" + key + ":" + d;
}

std::string hx_run(const std::string &line, std::string &oracle)
{
    auto w = split(line, ' ');
    if (w.size() != 3)
        return "bad-op";
    const std::string &op = w[0];
    Num a = parse_num(w[1]), b = parse_num(w[2]);
    std::string out = eval(op, a, b, oracle);
    stat("op_" + op);
    std::string ctx = op + "(" + dump(*a) + "," + dump(*b) + ")=" + out;

    // (1) commutativity of add and mul, on fresh objects in the other order
    if (op == "add" or op == "mul") {
        Num a2 = parse_num(w[1]), b2 = parse_num(w[2]);
        std::string rev = eval(op, b2, a2, oracle);
        if (rev != out)
            fail(oracle, "comm", ctx + " but reversed operands give " + rev);
        stat("checked_comm");
    }
    // (2) nan absorbs every operation
    if (is_sym_nan(a) or is_sym_nan(b)) {
        if (out != "nan")
            fail(oracle, "nan-absorb", ctx + " expected nan");
        stat("checked_nan_absorb");
    } else {
        int da = infdir(a), db = infdir(b);
        // (3) oo + -oo, oo - oo, and any two different directions added: nan
        if (op == "add" and da != 9 and db != 9) {
            std::string exp = (da == db and da != 0) ? dirstr(da) : "nan";
            if (out != exp)
                fail(oracle, "inf-add", ctx + " expected " + exp);
            stat("checked_inf_add");
        }
        if (op == "sub" and da != 9 and db != 9) {
            std::string exp = (da == -db and da != 0) ? dirstr(da) : "nan";
            if (out != exp)
                fail(oracle, "inf-sub", ctx + " expected " + exp);
            stat("checked_inf_sub");
        }
        // (4) zero * infinity = nan ; finite nonzero real factor keeps/flips the direction
        if (op == "mul" and (da != 9) != (db != 9)) {
            int d = da != 9 ? da : db;
            const Num &f = da != 9 ? b : a;
            int s = real_sign(f);
            if (s == 0) {
                if (out != "nan")
                    fail(oracle, "zero-mul-inf", ctx + " expected nan");
                stat("checked_zero_mul_inf");
            } else if (s != 2) {
                std::string exp = dirstr(d * s);
                if (out != exp)
                    fail(oracle, "dir-mul", ctx + " expected " + exp);
                stat("checked_dir_mul");
            } else if (finite_num(f)) {
                // complex finite factor: the direction is not representable; anything but a
                // signed infinity or a finite value is acceptable (nan, zoo, NotImplemented)
                if (out == "oo" or out == "-oo" or out[0] == 'I' or out[0] == 'Q' or out[0] == 'D')
                    fail(oracle, "cplx-mul-inf", ctx + " is not a possible value");
                stat("checked_cplx_mul_inf");
            }
        }
        if (op == "div" and da != 9 and db == 9) {
            int s = real_sign(b);
            if (s == 0) {
                if (out != "zoo")
                    fail(oracle, "inf-div-zero", ctx + " expected zoo");
                stat("checked_inf_div_zero");
            } else if (s != 2) {
                std::string exp = dirstr(da * s);
                if (out != exp)
                    fail(oracle, "dir-div", ctx + " expected " + exp);
                stat("checked_dir_div");
            } else if (finite_num(b)) {
                if (out == "oo" or out == "-oo" or out[0] == 'I' or out[0] == 'Q' or out[0] == 'D')
                    fail(oracle, "cplx-div-inf", ctx + " is not a possible value");
                stat("checked_cplx_div_inf");
            }
        }
        if (op == "div" and da != 9 and db != 9) {
            if (out != "nan")
                fail(oracle, "inf-div-inf", ctx + " expected nan");
            stat("checked_inf_div_inf");
        }
        // finite / infinity = 0 (exact zero or a float zero)
        if (op == "div" and da == 9 and db != 9 and finite_num(a)) {
            bool zero = out == "I:0" or out == "D:0000000000000000" or out == "D:8000000000000000"
                        or (out[0] == 'Z' and out.find_first_not_of("Z:08,") == std::string::npos);
            if (!zero)
                fail(oracle, "fin-div-inf", ctx + " expected a zero");
            stat("checked_fin_div_inf");
        }
        // (5) exact / exact zero
        if (op == "div" and is_exactk(a) and is_a<Integer>(*b) and b->is_zero()) {
            std::string exp = (is_a<Integer>(*a) and a->is_zero()) ? "nan" : "zoo";
            if (out != exp)
                fail(oracle, "div-zero", ctx + " expected " + exp);
            stat("checked_div_zero");
        }
        // (6) finite float (op) finite number is never an exact number
        if ((is_floatk(a) or is_floatk(b)) and finite_num(a) and finite_num(b) and out[0] != 'E') {
            if (out[0] != 'D' and out[0] != 'Z')
                fail(oracle, "float-exact", ctx + " is an exact number");
            stat("checked_float_stays_float");
        }
        // exact (op) exact never throws NotImplemented for + - * /
        if (is_exactk(a) and is_exactk(b) and op != "pow") {
            if (out[0] == 'E')
                fail(oracle, "exact-throws", ctx);
            stat("checked_exact_total");
        }
    }
    return out;
}

// ---------------------------------------------------------------- generation
static std::string dtok(double d)
{
    uint64_t u;
    memcpy(&u, &d, 8);
    char buf[24];
    snprintf(buf, sizeof buf, "d%016llx", (unsigned long long)u);
    return buf;
}
static std::string ztok(double re, double im)
{
    return "z" + dtok(re).substr(1) + "," + dtok(im).substr(1);
}
static const char *OPS[] = {"add", "sub", "mul", "div", "pow"};

static std::vector<std::string> universe()
{
    std::vector<std::string> v = {
        // integers: zero, units, small, multi-limb
        "i0", "i1", "i-1", "i2", "i-2", "i3", "i-7", "i12", "i18446744073709551617", "i-1180591620717411303427",
        // rationals
        "r1/2", "r-1/2", "r2/3", "r-7/3", "r5/4", "r36893488147419103233/5",
        // Gaussian rationals
        "c0/1,1/1", "c0/1,-1/1", "c1/1,1/1", "c1/2,-3/4", "c-2/1,1/1", "c3/5,4/5",
        // symbolic infinities and nan
        "oo", "-oo", "zoo", "nan"};
    const double ds[] = {0.0, -0.0, 1.0, -1.0, 0.5, -2.5, 3.0, 0.1, 1e300, -1e-300, INFINITY, -INFINITY, NAN};
    for (double d : ds)
        v.push_back(dtok(d));
    v.push_back(ztok(0.0, 0.0));
    v.push_back(ztok(1.0, 2.0));
    v.push_back(ztok(-0.5, 0.25));
    v.push_back(ztok(0.0, 1.0));
    v.push_back(ztok(3.0, -4.0));
    v.push_back(ztok(-0.0, 0.1));
    return v;
}

static std::string kind_of(const std::string &t)
{
    if (t == "oo" or t == "-oo" or t == "zoo")
        return "inf";
    if (t == "nan")
        return "nan";
    return std::string(1, t[0]);
}

static std::string rand_int(Rng &r, int maxbits)
{
    int bits = 1 + (int)r.below(maxbits);
    integer_class z = 0;
    for (int i = 0; i < bits; i += 32) {
        z = z * integer_class(4294967296UL) + integer_class((unsigned long)(r.next() & 0xffffffffULL));
    }
    integer_class m = 1;
    mpz_mul_2exp(get_mpz_t(m), get_mpz_t(m), bits);
    mpz_mod(get_mpz_t(z), get_mpz_t(z), get_mpz_t(m));
    if (r.coin())
        z = -z;
    return zstr(z);
}
static std::string rand_q(Rng &r, int maxbits)
{
    std::string n = rand_int(r, maxbits), d = rand_int(r, maxbits);
    if (d[0] == '-')
        d = d.substr(1);
    if (d == "0")
        d = "1";
    rational_class q(zint(n), zint(d));
    canonicalize(q);
    return qstr(q);
}
static double rand_double(Rng &r)
{
    switch (r.below(4)) {
        case 0: { // moderate magnitude, few mantissa bits (exactly representable sums)
            double d = (double)r.range(-64, 64) / (double)(1 << r.below(6));
            return d;
        }
        case 1: { // arbitrary mantissa, exponent in [-40, 40]
            uint64_t m = r.next() & 0xfffffffffffffULL;
            uint64_t e = 1023 - 40 + r.below(81);
            uint64_t u = (r.next() & 0x8000000000000000ULL) | (e << 52) | m;
            double d;
            memcpy(&d, &u, 8);
            return d;
        }
        case 2: { // any finite bit pattern, including subnormals and huge
            uint64_t u = r.next();
            if (((u >> 52) & 0x7ff) == 0x7ff)
                u &= ~(1ULL << 62);
            double d;
            memcpy(&d, &u, 8);
            return d;
        }
        default: {
            const double sp[] = {0.0, -0.0, 1.0, -1.0, INFINITY, -INFINITY, NAN, 0.5, 2.0};
            return sp[r.below(9)];
        }
    }
}
static std::string rand_value(Rng &r)
{
    switch (r.below(9)) {
        case 0:
            return "i" + rand_int(r, r.coin() ? 8 : 200);
        case 1: {
            std::string q = rand_q(r, r.coin() ? 6 : 150);
            return "r" + q;
        }
        case 2:
            return "c" + rand_q(r, r.coin() ? 5 : 100) + "," + rand_q(r, r.coin() ? 5 : 100);
        case 3:
        case 4:
            return dtok(rand_double(r));
        case 5:
            return ztok(rand_double(r), rand_double(r));
        case 6: {
            const char *s[] = {"oo", "-oo", "zoo", "nan"};
            return s[r.below(4)];
        }
        case 7:
            return "i" + std::to_string(r.range(-3, 3));
        default:
            return dtok((double)r.range(-4, 4) / 2.0);
    }
}

void hx_gen(Rng &r, const std::string &tier)
{
    bool th = tier == "thorough";
    auto U = universe();
    // the complete table: every ordered pair of representatives, every operation
    for (auto &a : U)
        for (auto &b : U)
            for (auto op : OPS)
                emit(std::string(op) + " " + a + " " + b, "table-" + kind_of(a) + "x" + kind_of(b));
    // random values of every kind (multi-limb exact numbers, arbitrary finite doubles)
    int n = th ? 60000 : 6000;
    for (int i = 0; i < n; i++) {
        std::string a = rand_value(r), b = rand_value(r);
        const char *op = OPS[r.below(5)];
        if (std::string(op) == "pow") { // keep integer exponents small (whatever token denotes them)
            Num bb = parse_num(b);
            if (is_a<Integer>(*bb) and mp_abs(down_cast<const Integer &>(*bb).as_integer_class()) > 40)
                b = "i" + std::to_string(r.range(-40, 40));
        }
        emit(std::string(op) + " " + a + " " + b, "random-" + kind_of(a) + "x" + kind_of(b));
    }
}
