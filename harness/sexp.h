// Canonical S-expression dump of real SymEngine expression objects, and the
// inverse (rebuild a real object from a dump *structurally*, i.e. through
// Add::from_dict / Mul::from_dict / make_rcp<Pow>, not through the smart
// constructors, so that what the op line says is what the library gets).
//
// Grammar (tokens separated by single spaces; no space after '(' / before ')'):
//   5  -3  1/2                      Integer, Rational (exact)
//   (C re im)                       Complex, re/im exact rationals
//   (D 3ff0000000000000)            RealDouble, 16 hex digits of the bit pattern
//   (CD hex hex)                    ComplexDouble
//   (oo 1) (oo -1) (oo 0)           Infty with direction 1, -1, 0 (zoo)
//   nan                             NaN
//   (s name)  (d name index)        Symbol, Dummy
//   (k name)                        Constant (pi E EulerGamma Catalan GoldenRatio)
//   (+ coef (key coef) ...)         Add: coef_ then dict_ entries, entries sorted by their own dump
//   (* coef (base exp) ...)         Mul: coef_ then dict_ entries, sorted by their own dump
//   (^ base exp)                    Pow
//   (F name arg ...)                FunctionSymbol
//   (Name arg ...)                  every other class: type_code_name + get_args() in order
//                                   (And Or Xor FiniteSet Union: args sorted by their own dump)
//   true false                      BooleanAtom
#ifndef VERIF_SEXP_H
#define VERIF_SEXP_H
#include <algorithm>
#include <cstdint>
#include <cstring>
#include <string>
#include <vector>
#include <symengine/basic.h>
#include <symengine/add.h>
#include <symengine/mul.h>
#include <symengine/pow.h>
#include <symengine/integer.h>
#include <symengine/rational.h>
#include <symengine/complex.h>
#include <symengine/real_double.h>
#include <symengine/complex_double.h>
#include <symengine/infinity.h>
#include <symengine/nan.h>
#include <symengine/symbol.h>
#include <symengine/constants.h>
#include <symengine/functions.h>
#include <symengine/logic.h>
#include <symengine/sets.h>
#include <symengine/visitor.h>

namespace vsexp
{
using namespace SymEngine;

inline std::string hex64(uint64_t v)
{
    char buf[17];
    snprintf(buf, sizeof buf, "%016llx", (unsigned long long)v);
    return buf;
}
inline std::string dbl_hex(double d)
{
    uint64_t u;
    memcpy(&u, &d, 8);
    return hex64(u);
}
inline double hex_dbl(const std::string &s)
{
    uint64_t u = strtoull(s.c_str(), nullptr, 16);
    double d;
    memcpy(&d, &u, 8);
    return d;
}
inline std::string int_str(const integer_class &i)
{
    std::ostringstream ss;
    ss << i;
    return ss.str();
}
inline std::string rat_str(const rational_class &q)
{
    integer_class n = get_num(q), d = get_den(q);
    if (d == 1)
        return int_str(n);
    return int_str(n) + "/" + int_str(d);
}

inline std::string dump(const Basic &b);
inline std::string dump(const RCP<const Basic> &b)
{
    return dump(*b);
}

inline std::string dump_sorted(const std::string &head, std::vector<std::string> items)
{
    std::sort(items.begin(), items.end());
    std::string o = "(" + head;
    for (auto &s : items)
        o += " " + s;
    return o + ")";
}

inline std::string dump(const Basic &b)
{
    switch (b.get_type_code()) {
        case SYMENGINE_INTEGER:
            return int_str(down_cast<const Integer &>(b).as_integer_class());
        case SYMENGINE_RATIONAL:
            return rat_str(down_cast<const Rational &>(b).as_rational_class());
        case SYMENGINE_COMPLEX: {
            const Complex &c = down_cast<const Complex &>(b);
            return "(C " + rat_str(c.real_) + " " + rat_str(c.imaginary_) + ")";
        }
        case SYMENGINE_REAL_DOUBLE:
            return "(D " + dbl_hex(down_cast<const RealDouble &>(b).i) + ")";
        case SYMENGINE_COMPLEX_DOUBLE: {
            auto z = down_cast<const ComplexDouble &>(b).i;
            return "(CD " + dbl_hex(z.real()) + " " + dbl_hex(z.imag()) + ")";
        }
        case SYMENGINE_INFTY:
            return "(oo " + dump(*down_cast<const Infty &>(b).get_direction()) + ")";
        case SYMENGINE_NOT_A_NUMBER:
            return "nan";
        case SYMENGINE_SYMBOL:
            return "(s " + down_cast<const Symbol &>(b).get_name() + ")";
        case SYMENGINE_DUMMY:
            return "(d " + down_cast<const Dummy &>(b).get_name() + " "
                   + std::to_string(down_cast<const Dummy &>(b).get_index()) + ")";
        case SYMENGINE_CONSTANT:
            return "(k " + down_cast<const Constant &>(b).get_name() + ")";
        case SYMENGINE_ADD: {
            const Add &a = down_cast<const Add &>(b);
            std::vector<std::string> items;
            for (auto &p : a.get_dict())
                items.push_back("(" + dump(*p.first) + " " + dump(*p.second) + ")");
            return dump_sorted("+ " + dump(*a.get_coef()), items);
        }
        case SYMENGINE_MUL: {
            const Mul &m = down_cast<const Mul &>(b);
            std::vector<std::string> items;
            for (auto &p : m.get_dict())
                items.push_back("(" + dump(*p.first) + " " + dump(*p.second) + ")");
            return dump_sorted("* " + dump(*m.get_coef()), items);
        }
        case SYMENGINE_POW: {
            const Pow &p = down_cast<const Pow &>(b);
            return "(^ " + dump(*p.get_base()) + " " + dump(*p.get_exp()) + ")";
        }
        case SYMENGINE_FUNCTIONSYMBOL: {
            const FunctionSymbol &f = down_cast<const FunctionSymbol &>(b);
            std::string o = "(F " + f.get_name();
            for (auto &a : f.get_args())
                o += " " + dump(*a);
            return o + ")";
        }
        case SYMENGINE_BOOLEAN_ATOM:
            return down_cast<const BooleanAtom &>(b).get_val() ? "true" : "false";
        case SYMENGINE_AND:
        case SYMENGINE_OR:
        case SYMENGINE_XOR:
        case SYMENGINE_FINITESET:
        case SYMENGINE_UNION:
        case SYMENGINE_INTERSECTION: {
            std::vector<std::string> items;
            for (auto &a : b.get_args())
                items.push_back(dump(*a));
            return dump_sorted(type_code_name(b.get_type_code()), items);
        }
        default: {
            std::string o = "(" + type_code_name(b.get_type_code());
            for (auto &a : b.get_args())
                o += " " + dump(*a);
            return o + ")";
        }
    }
}

// ------------------------------------------------------------------ parsing
struct Node {
    std::string atom;           // non-empty for atoms
    std::vector<Node> kids;     // for lists
    bool is_atom() const
    {
        return !atom.empty();
    }
};

inline Node parse_node(const std::string &s, size_t &i)
{
    while (i < s.size() && s[i] == ' ')
        i++;
    Node n;
    if (i < s.size() && s[i] == '(') {
        i++;
        while (true) {
            while (i < s.size() && s[i] == ' ')
                i++;
            if (i >= s.size())
                throw std::runtime_error("sexp: unbalanced");
            if (s[i] == ')') {
                i++;
                break;
            }
            n.kids.push_back(parse_node(s, i));
        }
        if (n.kids.empty())
            n.atom = "()";
        return n;
    }
    size_t j = i;
    while (j < s.size() && s[j] != ' ' && s[j] != '(' && s[j] != ')')
        j++;
    n.atom = s.substr(i, j - i);
    if (n.atom.empty())
        throw std::runtime_error("sexp: empty atom");
    i = j;
    return n;
}

// split a line into top-level S-expressions / atoms
inline std::vector<Node> parse_all(const std::string &s)
{
    std::vector<Node> out;
    size_t i = 0;
    while (true) {
        while (i < s.size() && s[i] == ' ')
            i++;
        if (i >= s.size())
            break;
        out.push_back(parse_node(s, i));
    }
    return out;
}

inline rational_class parse_rat(const std::string &a)
{
    size_t k = a.find('/');
    if (k == std::string::npos)
        return rational_class(integer_class(a.c_str()));
    rational_class q(integer_class(a.substr(0, k).c_str()), integer_class(a.substr(k + 1).c_str()));
    canonicalize(q);
    return q;
}

inline RCP<const Number> num_from_rat(const rational_class &q)
{
    return Rational::from_mpq(q);
}

inline RCP<const Basic> build(const Node &n);

inline RCP<const Number> build_num(const Node &n)
{
    RCP<const Basic> b = build(n);
    if (!is_a_Number(*b))
        throw std::runtime_error("sexp: number expected");
    return rcp_static_cast<const Number>(b);
}

// Every function class reachable by name: built through the public constructors
// (function constructors may evaluate; for structural rebuild of canonical function
// applications this returns the same object because canonical arguments are fixed points).
RCP<const Basic> build_named(const std::string &name, const vec_basic &args);

inline RCP<const Basic> build(const Node &n)
{
    if (n.is_atom() && n.kids.empty()) {
        const std::string &a = n.atom;
        if (a == "nan")
            return Nan;
        if (a == "true")
            return boolTrue;
        if (a == "false")
            return boolFalse;
        if (a == "()")
            throw std::runtime_error("sexp: empty list");
        return num_from_rat(parse_rat(a));
    }
    const Node &h = n.kids[0];
    if (!h.is_atom())
        throw std::runtime_error("sexp: head must be an atom");
    const std::string &hd = h.atom;
    auto arg = [&](size_t k) -> const Node & {
        if (k >= n.kids.size())
            throw std::runtime_error("sexp: missing argument in " + hd);
        return n.kids[k];
    };
    if (hd == "C")
        return Complex::from_mpq(parse_rat(arg(1).atom), parse_rat(arg(2).atom));
    if (hd == "D")
        return real_double(hex_dbl(arg(1).atom));
    if (hd == "CD")
        return complex_double(std::complex<double>(hex_dbl(arg(1).atom), hex_dbl(arg(2).atom)));
    if (hd == "oo")
        return Infty::from_direction(build_num(arg(1)));
    if (hd == "s")
        return symbol(arg(1).atom);
    if (hd == "k") {
        const std::string &c = arg(1).atom;
        if (c == "pi")
            return pi;
        if (c == "E")
            return E;
        if (c == "EulerGamma")
            return EulerGamma;
        if (c == "Catalan")
            return Catalan;
        if (c == "GoldenRatio")
            return GoldenRatio;
        return constant(c);
    }
    if (hd == "+") {
        umap_basic_num d;
        for (size_t k = 2; k < n.kids.size(); k++)
            d[build(n.kids[k].kids.at(0))] = build_num(n.kids[k].kids.at(1));
        return Add::from_dict(build_num(arg(1)), std::move(d));
    }
    if (hd == "*") {
        map_basic_basic d;
        for (size_t k = 2; k < n.kids.size(); k++)
            d[build(n.kids[k].kids.at(0))] = build(n.kids[k].kids.at(1));
        return Mul::from_dict(build_num(arg(1)), std::move(d));
    }
    if (hd == "^")
        return make_rcp<const Pow>(build(arg(1)), build(arg(2)));
    if (hd == "F") {
        vec_basic v;
        for (size_t k = 2; k < n.kids.size(); k++)
            v.push_back(build(n.kids[k]));
        return function_symbol(arg(1).atom, v);
    }
    vec_basic v;
    for (size_t k = 1; k < n.kids.size(); k++)
        v.push_back(build(n.kids[k]));
    return build_named(hd, v);
}

inline RCP<const Basic> parse(const std::string &s)
{
    size_t i = 0;
    Node n = parse_node(s, i);
    return build(n);
}

#ifndef VSEXP_NO_NAMED
inline RCP<const Boolean> as_bool(const RCP<const Basic> &b)
{
    if (!is_a_Boolean(*b))
        throw std::runtime_error("sexp: boolean expected");
    return rcp_static_cast<const Boolean>(b);
}
inline RCP<const Set> as_set(const RCP<const Basic> &b)
{
    if (!is_a_Set(*b))
        throw std::runtime_error("sexp: set expected");
    return rcp_static_cast<const Set>(b);
}
inline RCP<const Basic> build_named(const std::string &name, const vec_basic &a)
{
#define ONE(N, f)                                                              \
    if (name == N)                                                             \
        return f(a.at(0));
#define TWO(N, f)                                                              \
    if (name == N)                                                             \
        return f(a.at(0), a.at(1));
    ONE("Sin", sin) ONE("Cos", cos) ONE("Tan", tan) ONE("Cot", cot) ONE("Csc", csc) ONE("Sec", sec)
    ONE("ASin", asin) ONE("ACos", acos) ONE("ASec", asec) ONE("ACsc", acsc) ONE("ATan", atan) ONE("ACot", acot)
    ONE("Sinh", sinh) ONE("Csch", csch) ONE("Cosh", cosh) ONE("Sech", sech) ONE("Tanh", tanh) ONE("Coth", coth)
    ONE("ASinh", asinh) ONE("ACsch", acsch) ONE("ACosh", acosh) ONE("ATanh", atanh) ONE("ACoth", acoth)
    ONE("ASech", asech) ONE("Log", log) ONE("Abs", abs) ONE("Sign", sign) ONE("Floor", floor)
    ONE("Ceiling", ceiling) ONE("Truncate", truncate) ONE("Conjugate", conjugate) ONE("Gamma", gamma)
    ONE("LogGamma", loggamma) ONE("Erf", erf) ONE("Erfc", erfc) ONE("LambertW", lambertw)
    ONE("Dirichlet_eta", dirichlet_eta) ONE("PrimePi", primepi) ONE("Primorial", primorial)
    TWO("ATan2", atan2) TWO("Zeta", zeta) TWO("KroneckerDelta", kronecker_delta) TWO("PolyGamma", polygamma)
    TWO("LowerGamma", lowergamma) TWO("UpperGamma", uppergamma) TWO("Beta", beta)
    TWO("Equality", Eq) TWO("Unequality", Ne) TWO("LessThan", Le) TWO("StrictLessThan", Lt)
    if (name == "Max")
        return max(a);
    if (name == "Min")
        return min(a);
    if (name == "LeviCivita")
        return levi_civita(a);
    if (name == "Not")
        return logical_not(as_bool(a.at(0)));
    if (name == "And" || name == "Or") {
        set_boolean s;
        for (auto &x : a)
            s.insert(as_bool(x));
        return name == "And" ? logical_and(s) : logical_or(s);
    }
    if (name == "Xor") {
        vec_boolean s;
        for (auto &x : a)
            s.push_back(as_bool(x));
        return logical_xor(s);
    }
    if (name == "Contains")
        return contains(a.at(0), as_set(a.at(1)));
    if (name == "FiniteSet") {
        set_basic s(a.begin(), a.end());
        return finiteset(s);
    }
    if (name == "Interval") {
        // get_args(): start, end, left_open, right_open
        return interval(rcp_static_cast<const Number>(a.at(0)), rcp_static_cast<const Number>(a.at(1)),
                        eq(*a.at(2), *boolTrue), eq(*a.at(3), *boolTrue));
    }
    if (name == "EmptySet")
        return emptyset();
    if (name == "UniversalSet")
        return universalset();
    if (name == "Reals")
        return reals();
    if (name == "Rationals")
        return rationals();
    if (name == "Integers")
        return integers();
    if (name == "Naturals")
        return naturals();
    if (name == "Naturals0")
        return naturals0();
    if (name == "Complexes")
        return complexes();
    if (name == "Union") {
        set_set s;
        for (auto &x : a)
            s.insert(as_set(x));
        return set_union(s);
    }
    if (name == "ConditionSet")
        return conditionset(a.at(0), as_bool(a.at(1)));
    if (name == "ImageSet")
        return imageset(a.at(0), a.at(1), as_set(a.at(2)));
    if (name == "Derivative") {
        multiset_basic ms;
        for (size_t k = 1; k < a.size(); k++)
            ms.insert(a[k]);
        return Derivative::create(a.at(0), ms);
    }
    if (name == "Subs") {
        // get_args(): expr, then variables..., then points...
        size_t m = (a.size() - 1) / 2;
        map_basic_basic d;
        for (size_t k = 0; k < m; k++)
            d[a[1 + k]] = a[1 + m + k];
        return make_rcp<const Subs>(a.at(0), d);
    }
    if (name == "UnevaluatedExpr")
        return unevaluated_expr(a.at(0));
#undef ONE
#undef TWO
    throw std::runtime_error("sexp: unknown head " + name);
}
#endif

} // namespace vsexp
#endif
