// C37: common-subexpression elimination is a faithful factoring.
// Op line:  cse <e1> <e2> ...            (canonical dumps, harness/sexp.h)
// Output :  (s x0) <rhs0> (s x1) <rhs1> ... | <reduced1> <reduced2> ...
//
// Oracle (independent of the Lean checker): on the real objects
//   * every replacement symbol is a Symbol, not among atoms<Symbol>(inputs) (all occurrences, also
//     inside Derivative / Subs binders and points), pairwise distinct;
//   * atoms<Symbol>(rhs_i) contains no replacement symbol with index >= i;
//   * substituting the replacements back with the library's own `xreplace`, last to first, gives
//     expressions `eq` to the inputs, at the latest after `expand`; what is still not `eq` (expand
//     does not enter function arguments, b**(1+z) vs b*b**z) is decided by value at 6 generic
//     complex points with an own evaluator (harness/c36_eval.h, relative 1e-9).
#include "common.h"
#include <algorithm>
#include <set>
#include "sexp.h"
#include "exprgen.h"
#include "c36_eval.h"
#include <symengine/visitor.h>
#include <symengine/subs.h>
#include <symengine/derivative.h>

using namespace SymEngine;

// ---------------------------------------------------------------------------------- run
std::string hx_run(const std::string &line, std::string &oracle)
{
    if (line.compare(0, 4, "cse ") != 0)
        return "bad-op";
    vec_basic exprs;
    for (auto &n : vsexp::parse_all(line.substr(4)))
        exprs.push_back(vsexp::build(n));
    vec_pair reps;
    vec_basic red;
    cse(reps, red, exprs);
    std::string out;
    for (auto &p : reps)
        out += vsexp::dump(p.first) + " " + vsexp::dump(p.second) + " ";
    out += "|";
    for (auto &e : red)
        out += " " + vsexp::dump(e);
    stat("cse_calls");
    stat("replacements_total", (long)reps.size());
    if (reps.empty())
        stat("cse_without_replacement");

    // ---- oracle
    if (red.size() != exprs.size()) {
        oracle = "FAIL:length:" + tostr(red.size());
        return out;
    }
    // no function symbol may appear in the answer that is not in the inputs (the internal
    // unevaluated add / mul / pow markers of opt_cse must not leak)
    {
        std::set<std::string> innames;
        for (auto &e : exprs)
            for (auto &f : function_symbols(*e))
                innames.insert(down_cast<const FunctionSymbol &>(*f).get_name());
        vec_basic outs(red.begin(), red.end());
        for (auto &p : reps)
            outs.push_back(p.second);
        for (auto &e : outs)
            for (auto &f : function_symbols(*e)) {
                const std::string &n = down_cast<const FunctionSymbol &>(*f).get_name();
                if (!innames.count(n)) {
                    oracle = "FAIL:marker-leak:" + n + " in " + e->__str__();
                    return out;
                }
            }
    }
    // every Symbol that occurs anywhere in the inputs, also as the variable of a Derivative or as a
    // variable / in a point of a Subs (free_symbols would leave bound variables out)
    set_basic insyms;
    for (auto &e : exprs) {
        set_basic s = atoms<Symbol>(*e);
        insyms.insert(s.begin(), s.end());
    }
    set_basic repsyms;
    for (size_t i = 0; i < reps.size(); i++) {
        if (!is_a<Symbol>(*reps[i].first)) {
            oracle = "FAIL:notsymbol:" + reps[i].first->__str__();
            return out;
        }
        if (insyms.count(reps[i].first)) {
            oracle = "FAIL:notfresh:" + reps[i].first->__str__();
            return out;
        }
        if (!repsyms.insert(reps[i].first).second) {
            oracle = "FAIL:duplicate:" + reps[i].first->__str__();
            return out;
        }
        if (is_a_Number(*reps[i].second)) {
            oracle = "FAIL:number-replaced:" + reps[i].second->__str__();
            return out;
        }
    }
    for (size_t i = 0; i < reps.size(); i++) {
        set_basic fs = atoms<Symbol>(*reps[i].second);
        for (size_t k = i; k < reps.size(); k++)
            if (fs.count(reps[k].first)) {
                oracle = "FAIL:order:" + reps[i].first->__str__() + " uses " + reps[k].first->__str__();
                return out;
            }
    }
    bool userfn = line.find("(F add ") != std::string::npos || line.find("(F mul ") != std::string::npos
                  || line.find("(F pow ") != std::string::npos;
    for (size_t j = 0; j < exprs.size(); j++) {
        // xreplace rebuilds through add()/mul()/pow(); subs() is run as well, but it can leave an Add
        // nested inside an Add (coefficient 1), which is a matter of canonical form, not of value:
        // its verdict is only counted
        RCP<const Basic> b = red[j], bs = red[j];
        for (size_t i = reps.size(); i-- > 0;) {
            map_basic_basic m;
            m[reps[i].first] = reps[i].second;
            b = xreplace(b, m);
            bs = bs->subs(m);
        }
        if (eq(*bs, *exprs[j]))
            stat("subs_backsubst_eq");
        else
            stat("subs_backsubst_not_eq_counted_only");
        bool same = eq(*b, *exprs[j]);
        if (same)
            stat("backsubst_eq_without_expand");
        else {
            try {
                same = eq(*expand(b), *expand(exprs[j]));
                if (same)
                    stat("backsubst_eq_only_after_expand");
            } catch (const VerifAssertError &) {
                stat("oracle_assert_inside_expand");
            }
        }
        if (!same) {
            // `eq` after `expand` does not look inside function arguments and does not know
            // b**(1+z) = b*b**z: decide by value at generic complex points (own evaluator)
            std::string detail;
            int judged = 0, discarded = 0;
            int r = 0;
            try {
                r = nev::compare_at_points(*b, *exprs[j], 0xC37, 6, false, 1e-9L, detail, &judged, &discarded);
            } catch (const nev::Unsup &) {
                // e.g. gamma at a non-real point: retry on positive reals
                try {
                    r = nev::compare_at_points(*b, *exprs[j], 0xC37, 6, true, 1e-9L, detail, &judged, &discarded);
                } catch (const nev::Unsup &) {
                    stat("numeric_unsupported");
                    r = 2;
                }
            }
            stat("numeric_points_judged", judged);
            stat("numeric_points_discarded", discarded);
            if (r > 0) {
                stat("backsubst_equal_by_value_only");
                same = true;
            } else if (r == 2) {
                // neither `eq` nor the own evaluator can judge this case: counted, not a verdict
                stat("backsubst_undecided_unsupported_function");
            } else if (r == 0) {
                stat("backsubst_undecided");
                oracle = std::string("FAIL:") + (userfn ? "userfn-add-mul-pow" : "backsubst-undecided") + ":"
                         + b->__str__() + " != " + exprs[j]->__str__();
                return out;
            } else {
                oracle = std::string("FAIL:") + (userfn ? "userfn-add-mul-pow" : "backsubst") + ":" + b->__str__()
                         + " != " + exprs[j]->__str__() + " " + detail;
                return out;
            }
        }
    }
    return out;
}

// ---------------------------------------------------------------------------------- gen
namespace
{
struct G {
    Rng &r;
    vgen::Opts o;
    vec_basic pool;
    explicit G(Rng &r_) : r(r_)
    {
        o.rationals = true;
        o.gaussian = false;
        o.floats = false;
        o.constants = true;
        o.functions = true;
        o.fsymbols = true;
        o.radicals = true;
        o.symexp = false;
        o.negpow = true;
        o.nsyms = 4;
    }
    RCP<const Basic> fresh(int depth)
    {
        return vgen::rand_expr(r, o, depth);
    }
    RCP<const Basic> shared()
    {
        return pool[r.below(pool.size())];
    }
    // symbolic exponents restricted to monomials (sums of exponents never meet rationals: known crash D7)
    RCP<const Basic> symexp()
    {
        RCP<const Basic> e = vgen::sym((int)r.below(3));
        if (r.coin())
            e = mul(e, vgen::sym((int)r.below(3)));
        long c = r.range(-3, 3);
        if (c == 0)
            c = -2;
        return mul(integer(c), e);
    }
    RCP<const Basic> node(int depth)
    {
        if (depth <= 0 || r.below(100) < 30)
            return r.coin(2, 3) ? shared() : fresh(1);
        unsigned k = r.below(100);
        try {
            if (k < 25) {
                vec_basic v;
                int n = 2 + (int)r.below(3);
                for (int i = 0; i < n; i++)
                    v.push_back(node(depth - 1));
                return add(v);
            }
            if (k < 50) {
                vec_basic v;
                int n = 2 + (int)r.below(2);
                for (int i = 0; i < n; i++)
                    v.push_back(node(depth - 1));
                if (r.coin(1, 4))
                    v.push_back(integer(-(long)r.range(1, 4)));
                return mul(v);
            }
            if (k < 68) {
                RCP<const Basic> b = node(depth - 1);
                unsigned j = r.below(100);
                if (j < 35)
                    return pow(b, integer(-(long)r.range(1, 3)));
                if (j < 55)
                    return pow(b, integer(r.range(2, 3)));
                // (B**-n)**e with non-integer e: re-building it from a replaced B**n applies the known
                // rewrite (x**-1)**e -> x**(-e) of pow() (known finding C07-invpow-negative-real); excluded
                if (is_a<Pow>(*b) && is_a<Integer>(*down_cast<const Pow &>(*b).get_exp())
                    && down_cast<const Integer &>(*down_cast<const Pow &>(*b).get_exp()).is_negative())
                    b = down_cast<const Pow &>(*b).get_base();
                if (j < 75)
                    return pow(b, Rational::from_two_ints(*integer(r.coin() ? -1 : 1), *integer(r.range(2, 3))));
                if (is_a_Number(*b))
                    b = vgen::sym((int)r.below(4));
                return pow(b, symexp());
            }
            if (k < 88) {
                RCP<const Basic> a = node(depth - 1);
                switch (r.below(7)) {
                    case 0:
                        return sin(a);
                    case 1:
                        return cos(a);
                    case 2:
                        return log(a);
                    case 3:
                        return exp(a);
                    case 4:
                        return atan2(a, node(depth - 1));
                    case 5:
                        return function_symbol("f", a);
                    default:
                        return function_symbol("g", vec_basic{a, node(depth - 1)});
                }
            }
            return neg(node(depth - 1));
        } catch (const std::exception &) {
        }
        return shared();
    }
    void fill_pool(int n, int depth)
    {
        pool.clear();
        for (int i = 0; i < n; i++) {
            RCP<const Basic> e = fresh(depth);
            if (is_a_Number(*e))
                e = add(e, vgen::sym((int)r.below(4)));
            pool.push_back(e);
        }
    }
};

// An Add whose dictionary holds an Add with coefficient 1 (or a Mul holding a Mul with exponent 1):
// the public constructors can return such non-canonical objects when coefficients cancel to 1
// (canonical-form matter, C03); cse() is not defined on them, they are not generated
bool noncanonical_nesting(const Basic &b)
{
    if (is_a<Add>(b)) {
        for (auto &p : down_cast<const Add &>(b).get_dict())
            if (is_a<Add>(*p.first) && p.second->is_one())
                return true;
    }
    if (is_a<Mul>(b)) {
        for (auto &p : down_cast<const Mul &>(b).get_dict())
            if (is_a<Mul>(*p.first) && eq(*p.second, *one))
                return true;
    }
    for (auto &a : b.get_args())
        if (noncanonical_nesting(*a))
            return true;
    return false;
}

// a compound subexpression that is a number in disguise (2 - (2 + x) + x): cse can end up with a
// replacement whose right-hand side is a number, which the certificate format excludes
bool hidden_number(const Basic &b)
{
    if ((is_a<Add>(b) || is_a<Mul>(b) || is_a<Pow>(b))) {
        try {
            if (is_a_Number(*expand(b.rcp_from_this())))
                return true;
        } catch (const std::exception &) {
            return true;
        }
    }
    for (auto &a : b.get_args())
        if (hidden_number(*a))
            return true;
    return false;
}

// (B**-n)**e with non-integer e anywhere in the tree
bool has_invpow(const Basic &b)
{
    if (is_a<Pow>(b)) {
        const Pow &p = down_cast<const Pow &>(b);
        if (!is_a<Integer>(*p.get_exp()) && is_a<Pow>(*p.get_base())) {
            const Pow &q = down_cast<const Pow &>(*p.get_base());
            // every inner exponent that opt_cse turns into (B**e)**-1: a negative number or a product
            // with a negative coefficient
            RCP<const Basic> ie = q.get_exp();
            if (is_a<Mul>(*ie))
                ie = down_cast<const Mul &>(*ie).get_coef();
            if (is_a_Number(*ie) && down_cast<const Number &>(*ie).is_negative())
                return true;
        }
    }
    for (auto &a : b.get_args())
        if (has_invpow(*a))
            return true;
    return false;
}

// integer exponents beyond +-4 make the rational-function normal form of the Lean checker large
bool has_big_exp(const Basic &b)
{
    if (is_a<Pow>(b)) {
        const Pow &p = down_cast<const Pow &>(b);
        if (is_a<Integer>(*p.get_exp())) {
            const integer_class &n = down_cast<const Integer &>(*p.get_exp()).as_integer_class();
            if (n > 4 || n < -4)
                return true;
        }
    }
    for (auto &a : b.get_args())
        if (has_big_exp(*a))
            return true;
    return false;
}

// Rough number of monomials of the expanded rational-function normal form the Lean checker computes
// (numerators and denominators multiplied out); function arguments / non-integer powers are atoms at
// their level and are compared separately, so their own cost is added, not multiplied.
double ecost(const Basic &b, double &nested)
{
    auto cap = [](double x) { return x > 1e12 ? 1e12 : x; };
    if (is_a<Add>(b)) {
        double s = 0, dens = 1;
        for (auto &a : b.get_args()) {
            double c = ecost(*a, nested);
            s += c;
            // every term with a negative power contributes a denominator that multiplies the others
            if (is_a<Pow>(*a) || is_a<Mul>(*a)) {
                for (auto &f : (is_a<Mul>(*a) ? a->get_args() : vec_basic{a}))
                    if (is_a<Pow>(*f) && is_a<Integer>(*down_cast<const Pow &>(*f).get_exp())
                        && down_cast<const Integer &>(*down_cast<const Pow &>(*f).get_exp()).is_negative()) {
                        double d = ecost(*f, nested);
                        dens = cap(dens * d);
                    }
            }
        }
        return cap(s * dens);
    }
    if (is_a<Mul>(b)) {
        double p = 1;
        for (auto &a : b.get_args())
            p = cap(p * ecost(*a, nested));
        return p;
    }
    if (is_a<Pow>(b)) {
        const Pow &p = down_cast<const Pow &>(b);
        if (is_a<Integer>(*p.get_exp())) {
            long n = mp_fits_slong_p(down_cast<const Integer &>(*p.get_exp()).as_integer_class())
                         ? std::labs(down_cast<const Integer &>(*p.get_exp()).as_int())
                         : 100;
            double c = ecost(*p.get_base(), nested);
            return cap(std::pow(c, (double)std::min(n, 100L)));
        }
    }
    // atom: its arguments are separate comparisons
    for (auto &a : b.get_args()) {
        double sub = 0;
        double c = ecost(*a, sub);
        nested = std::max(nested, std::max(c, sub));
    }
    return 1;
}

std::string opline(const vec_basic &v)
{
    std::string s = "cse";
    for (auto &e : v)
        s += " " + vsexp::dump(e);
    return s;
}

// family: Add / Mul argument lists sharing >= 2 arguments (match_common_args)
vec_basic common_args(G &g, bool is_mul)
{
    Rng &r = g.r;
    int n = 3 + (int)r.below(3);
    vec_basic base;
    for (int i = 0; i < n; i++) {
        RCP<const Basic> t = r.coin(1, 3) ? g.fresh(1) : (r.coin() ? g.shared() : vgen::sym((int)r.below(6)));
        if (is_mul && r.coin(1, 4))
            t = pow(t, integer(r.range(2, 3)));
        if (!is_mul && r.coin(1, 4))
            t = mul(integer(r.range(2, 5)), t);
        base.push_back(t);
    }
    int m = 2 + (int)r.below(3);
    vec_basic out;
    for (int j = 0; j < m; j++) {
        vec_basic v;
        for (int i = 0; i < n; i++)
            if (r.coin(2, 3))
                v.push_back(base[i]);
        if (v.size() < 2) {
            v.push_back(base[0]);
            v.push_back(base[1]);
        }
        if (r.coin())
            v.push_back(g.fresh(1));
        if (r.coin(1, 5))
            v.push_back(integer(-(long)r.range(1, 3)));
        RCP<const Basic> e = is_mul ? mul(v) : add(v);
        unsigned w = r.below(10);
        if (w == 0)
            e = sin(e);
        else if (w == 1)
            e = pow(e, integer(-1));
        else if (w == 2)
            e = function_symbol("f", e);
        else if (w == 3)
            e = neg(e);
        out.push_back(e);
    }
    return out;
}
} // namespace

// user functions whose names look like the per-call marker names of cse (`_cse_add`, ...): the marker
// prefix must be grown until no user function starts with it (one pass is not enough when one name
// forces `_cse__` and another one is `_cse__add`)
vec_basic marker_names_case(Rng &rng, G &g)
{
    static const char *pool[] = {"_cse_add", "_cse_mul", "_cse_pow", "_cse__add", "_cse__mul",
                                 "_cse__pow", "_cse___add", "_cse_x", "_cse_"};
    std::vector<std::string> names;
    int want = 2 + (int)rng.below(2);
    while ((int)names.size() < want) {
        std::string n = pool[rng.below(9)];
        if (std::find(names.begin(), names.end(), n) == names.end())
            names.push_back(n);
    }
    RCP<const Basic> a = vgen::sym(0), b = vgen::sym(1), c = vgen::sym(2), d = vgen::sym(3);
    if (rng.coin(1, 3))
        a = g.fresh(1);
    if (is_a_Number(*a))
        a = vgen::sym(4);
    RCP<const Basic> s1 = add({a, b, c}), s2 = add({a, b, d}), p1 = mul({a, b, c}), p2 = mul({a, b, d});
    RCP<const Basic> q = pow(add(a, b), integer(-2));
    vec_basic v;
    v.push_back(function_symbol(names[0], {s1, p1}));
    v.push_back(function_symbol(names[1], {s2, p2}));
    if (names.size() > 2)
        v.push_back(add(s1, function_symbol(names[2], {q, mul(a, b)})));
    switch (rng.below(3)) {
        case 0:
            v.push_back(mul(s2, p2));
            break;
        case 1:
            v.push_back(add(function_symbol(names[0], {neg(mul(a, b)), q}), p1));
            break;
        default:
            v.push_back(sin(add(a, b)));
            break;
    }
    return v;
}

void hx_gen(Rng &rng, const std::string &tier)
{
    bool thorough = tier == "thorough";
    // fixed boundary cases
    {
        RCP<const Basic> x = symbol("x"), y = symbol("y"), z = symbol("z"), w = symbol("w");
        std::vector<vec_basic> fixed = {
            {add(add(x, y), z), add(add(x, y), w)},
            {mul(mul(x, y), z), mul(mul(x, y), w), sin(mul(x, y))},
            {pow(x, mul(integer(-2), y)), pow(x, mul(integer(2), y))},
            {mul(integer(-3), mul(x, sin(y))), mul(x, sin(y))},
            {add(symbol("x0"), sin(add(x, y))), cos(add(x, y)), mul(symbol("x2"), add(x, y))},
            {pow(add(x, y), integer(-2)), pow(add(x, y), integer(2)), sqrt(add(x, y))},
            {div(one, add(x, y)), div(z, add(x, y))},
            {neg(add(x, y)), mul(z, add(x, y))},
            {x},
            {integer(3), x, add(x, integer(1))},
            {sin(sin(sin(add(x, y)))), cos(sin(sin(add(x, y)))), sin(add(x, y))},
            {pow(x, Rational::from_two_ints(*integer(-1), *integer(2))), sqrt(x), pow(sqrt(x), integer(3))},
            {add({x, y, z, w}), add({x, y, z}), add({x, y}), add({y, z, w})},
            {mul({x, y, z, w}), mul({x, y, z}), mul({x, y}), mul({y, z, w})},
            {function_symbol("g", {add(x, y), add(x, y)}), function_symbol("g", {add(x, y), z})},
            {exp(add(x, y)), exp(neg(add(x, y))), exp(mul(integer(2), add(x, y)))},
        };
        for (auto &v : fixed)
            emit(opline(v), "fixed");
        // x0 / x1 occur only inside a Derivative / Subs: the invented symbols must skip these names
        {
            RCP<const Symbol> x0 = symbol("x0"), x1 = symbol("x1");
            RCP<const Basic> d0 = function_symbol("f", x0)->diff(x0);
            RCP<const Basic> d1 = function_symbol("g", {x0, x1})->diff(x1);
            emit(opline({add(d0, sin(add(x, y))), cos(add(x, y))}), "binders");
            emit(opline({add(d0, sqrt(mul(x, y))), mul(exp(mul(x, y)), d1), function_symbol("f", mul(x, y))}), "binders");
            map_basic_basic pt;
            pt[x1] = add(x, y);
            emit(opline({mul(make_rcp<const Subs>(function_symbol("f", x1)->diff(x1), pt), z), pow(add(x, y), integer(2)),
                         sin(mul(z, add(x, y)))}),
                 "binders");
        }
        // user functions named like the per-call marker names (one forces the prefix to grow, the other
        // one equals the grown marker name)
        {
            RCP<const Basic> w = symbol("w");
            RCP<const Basic> s1 = add({x, y, z}), s2 = add({x, y, w}), p1 = mul({x, y, z}), p2 = mul({x, y, w});
            emit(opline({function_symbol("_cse_x", {s1, p1}), function_symbol("_cse__add", {s2, p2}), mul(s1, p2)}),
                 "markerfn");
            emit(opline({function_symbol("_cse_add", {s1, p1}), function_symbol("_cse__mul", {s2, p2}),
                         function_symbol("_cse__pow", {pow(add(x, y), integer(-2)), mul(x, y)})}),
                 "markerfn");
            emit(opline({function_symbol("_cse_", {s1, s2}), function_symbol("_cse__add", {p1, p2}),
                         function_symbol("_cse___add", {s1, p2}), add(s2, p1)}),
                 "markerfn");
        }
        // user functions named like the internal markers of opt_cse (known finding)
        emit(opline({function_symbol("add", {x, y})}), "userfn");
        emit(opline({add(function_symbol("mul", {x, y}), sin(function_symbol("pow", {x, y})))}), "userfn");
    }
    int n = thorough ? 6000 : 500;
    for (int it = 0; it < n; it++) {
        G g(rng);
        g.fill_pool(2 + (int)rng.below(3), 1 + (int)rng.below(2));
        unsigned fam = rng.below(100);
        vec_basic v;
        std::string tag;
        try {
            if (fam < 40) {
                tag = "tree";
                int m = 1 + (int)rng.below(4);
                int depth = thorough ? 2 + (int)rng.below(3) : 2 + (int)rng.below(2);
                for (int j = 0; j < m; j++)
                    v.push_back(g.node(depth));
            } else if (fam < 58) {
                tag = "addargs";
                v = common_args(g, false);
            } else if (fam < 76) {
                tag = "mulargs";
                v = common_args(g, true);
            } else if (fam < 88) {
                tag = "mixed";
                v = common_args(g, rng.coin());
                vec_basic u = common_args(g, rng.coin());
                v.insert(v.end(), u.begin(), u.end());
                v.push_back(g.node(2));
            } else if (fam < 93) {
                // inputs that already use the names x0, x1, ... (the numbering must skip them)
                tag = "xnames";
                RCP<const Basic> a = g.node(2);
                vec_basic u;
                for (int k = 0; k < 3; k++)
                    if (rng.coin())
                        u.push_back(symbol("x" + std::to_string(k)));
                u.push_back(a);
                v.push_back(add(u));
                v.push_back(mul(a, symbol("x" + std::to_string(rng.below(4)))));
                v.push_back(sin(a));
            } else if (fam < 96) {
                // the names x0, x1, ... occur ONLY inside Derivative / Subs nodes (as the variable, in the
                // differentiated expression, in the substitution point) and inside function arguments; the
                // repeated subexpressions elsewhere force cse to invent symbols, which must skip these names
                tag = "binders";
                auto xs = [&](int k) { return rcp_static_cast<const Symbol>(symbol("x" + std::to_string(k))); };
                int k0 = (int)rng.below(2), k1 = 1 + (int)rng.below(2);
                RCP<const Basic> a = g.node(1), b = g.node(1);
                RCP<const Basic> shared1 = add(a, b), shared2 = mul(a, b);
                RCP<const Basic> d0 = function_symbol("f", xs(k0))->diff(xs(k0));
                RCP<const Basic> d1 = function_symbol("g", {xs(k0), xs(k1)})->diff(xs(k1));
                RCP<const Basic> d2 = function_symbol("f", mul(xs(k1), xs(k1)))->diff(xs(k1)); // Subs * 2*x
                map_basic_basic pt;
                pt[xs(2)] = rng.coin() ? rcp_static_cast<const Basic>(xs(k0)) : shared1;
                RCP<const Basic> sb = make_rcp<const Subs>(function_symbol("f", xs(2))->diff(xs(2)), pt);
                switch (rng.below(4)) {
                    case 0:
                        v.push_back(add(d0, sin(shared1)));
                        v.push_back(cos(shared1));
                        break;
                    case 1:
                        v.push_back(add(d0, sqrt(shared2)));
                        v.push_back(mul(exp(shared2), d1));
                        v.push_back(function_symbol("f", shared2));
                        break;
                    case 2:
                        v.push_back(mul(sb, shared1));
                        v.push_back(pow(shared1, integer(2)));
                        v.push_back(add(d1, shared2));
                        v.push_back(sin(shared2));
                        break;
                    default:
                        v.push_back(function_symbol("g", {d0, shared1}));
                        v.push_back(add(shared1, d2));
                        v.push_back(mul(shared1, integer(3)));
                        break;
                }
            } else if (fam < 98) {
                tag = "markerfn";
                v = marker_names_case(rng, g);
            } else {
                tag = "userfn";
                const char *names[] = {"add", "mul", "pow"};
                RCP<const Basic> a = g.node(1), b = g.node(1);
                v.push_back(function_symbol(names[rng.below(3)], {a, b}));
                if (rng.coin())
                    v.push_back(add(a, b));
            }
        } catch (const std::exception &) {
            continue;
        }
        if (v.empty())
            continue;
        bool bad = false;
        for (auto &e : v)
        {
            bad = bad || has_invpow(*e) || has_big_exp(*e) || noncanonical_nesting(*e) || hidden_number(*e);
            double nested = 0;
            double c = ecost(*e, nested);
            bad = bad || c > 400 || nested > 400;
        }
        if (bad)
            continue;
        // size guard: keep the Lean normaliser fast
        std::string op = opline(v);
        if (op.size() > (thorough ? 2500u : 1500u))
            continue;
        // infinities / NaN (e.g. from 1/0 inside the random construction) are outside the fragment
        if (op.find("(oo ") != std::string::npos || op.find("nan") != std::string::npos)
            continue;
        emit(op, tag);
    }
}
