// C26: matrix expressions preserve value; their predicates are sound.
//
// Op lines (see lean/Drv/C26.lean):
//   build <recipe>   -> "<dump of result> z=. d=. s=. l=. u=. r=. q=. t=. size=<rows>,<cols>"
//   trace <recipe>   -> dump of trace(result)
// A recipe is an S-expression evaluated bottom-up through the public constructor functions:
//   (I n) (Z r c) (diag e..) (dense r c e..) (M name) (add m..) (mul f..) (had m..) (T m) (conj m)
// numbers: 5, -1/2, (C re im); dimensions: integer, rational or (s name).
//
// Oracle (independent of the Lean model): the recipe is evaluated densely with plain number
// arithmetic under a fixed interpretation of the symbols (matrix symbol "X2x3k" = a fixed 2x3
// matrix, dimension symbol "n3" = 3); if that value exists, the library must not throw a
// DomainError, the result expression must evaluate (same interpretation) to the same matrix,
// every definite predicate answer must agree with the result's concrete matrix, and every
// known component of size() must be the concrete dimension.
#include "common.h"
#include "sexp.h"
#include <symengine/matrix_expressions.h>
#include <symengine/test_visitors.h>

using namespace SymEngine;
using vsexp::Node;

// ---------------------------------------------------------------- helpers
static bool head_is(const Node &n, const char *h)
{
    return !n.kids.empty() && n.kids[0].is_atom() && n.kids[0].kids.empty() && n.kids[0].atom == h;
}
static bool plain_atom(const Node &n)
{
    return n.kids.empty() && n.is_atom() && n.atom != "()";
}
static bool is_number_node(const Node &n)
{
    if (plain_atom(n)) {
        const std::string &a = n.atom;
        size_t i = 0;
        if (i < a.size() && a[i] == '-')
            i++;
        if (i >= a.size() || !isdigit((unsigned char)a[i]))
            return false;
        bool slash = false;
        for (; i < a.size(); i++) {
            if (a[i] == '/' && !slash && i + 1 < a.size() && isdigit((unsigned char)a[i + 1])) {
                slash = true;
                continue;
            }
            if (!isdigit((unsigned char)a[i]))
                return false;
        }
        if (slash && a.substr(a.find('/') + 1).find_first_not_of('0') == std::string::npos)
            return false; // zero denominator
        return true;
    }
    return head_is(n, "C") && n.kids.size() == 3 && is_number_node(n.kids[1]) && is_number_node(n.kids[2]);
}
struct BadOp {
};
static RCP<const Basic> number_of(const Node &n)
{
    if (!is_number_node(n))
        throw BadOp();
    return vsexp::build(n);
}
static size_t nat_of(const Node &n)
{
    if (!plain_atom(n) || n.atom.find_first_not_of("0123456789") != std::string::npos || n.atom.size() > 6)
        throw BadOp();
    return (size_t)std::stoul(n.atom);
}
static RCP<const Basic> dimarg_of(const Node &n)
{
    if (is_number_node(n) && plain_atom(n))
        return vsexp::build(n);
    if (head_is(n, "s") && n.kids.size() == 2 && plain_atom(n.kids[1]))
        return symbol(n.kids[1].atom);
    throw BadOp();
}
static RCP<const MatrixExpr> as_mat(const RCP<const Basic> &b)
{
    return rcp_static_cast<const MatrixExpr>(b);
}

// ---------------------------------------------------------------- recipe -> library
static RCP<const MatrixExpr> mbuild(const Node &n)
{
    if (n.kids.empty() || !n.kids[0].is_atom() || !n.kids[0].kids.empty())
        throw BadOp();
    const std::string &h = n.kids[0].atom;
    size_t na = n.kids.size() - 1;
    if (h == "I") {
        if (na != 1)
            throw BadOp();
        return identity_matrix(dimarg_of(n.kids[1]));
    }
    if (h == "Z") {
        if (na != 2)
            throw BadOp();
        auto r = dimarg_of(n.kids[1]);
        auto c = dimarg_of(n.kids[2]);
        return zero_matrix(r, c);
    }
    if (h == "diag") {
        vec_basic v;
        for (size_t k = 1; k <= na; k++)
            v.push_back(number_of(n.kids[k]));
        return diagonal_matrix(v);
    }
    if (h == "dense") {
        if (na < 2)
            throw BadOp();
        size_t r = nat_of(n.kids[1]), c = nat_of(n.kids[2]);
        vec_basic v;
        for (size_t k = 3; k <= na; k++)
            v.push_back(number_of(n.kids[k]));
        if (v.size() != r * c)
            throw BadOp();
        return immutable_dense_matrix(r, c, v);
    }
    if (h == "M") {
        if (na != 1 || !plain_atom(n.kids[1]))
            throw BadOp();
        return matrix_symbol(n.kids[1].atom);
    }
    if (h == "add" || h == "had") {
        vec_basic v;
        for (size_t k = 1; k <= na; k++)
            v.push_back(mbuild(n.kids[k]));
        return h == "add" ? matrix_add(v) : hadamard_product(v);
    }
    if (h == "mul") {
        vec_basic v;
        size_t nmat = 0;
        for (size_t k = 1; k <= na; k++) {
            if (is_number_node(n.kids[k]))
                v.push_back(number_of(n.kids[k]));
            else {
                v.push_back(mbuild(n.kids[k]));
                nmat++;
            }
        }
        // matrix_mul without a matrix factor indexes an empty vector / casts a Number to MatrixExpr:
        // undefined behaviour, not executed (the model answers E:UB as well)
        if (na > 0 && nmat == 0)
            throw std::string("E:UB");
        return matrix_mul(v);
    }
    if (h == "T" || h == "conj") {
        if (na != 1)
            throw BadOp();
        auto a = mbuild(n.kids[1]);
        return h == "T" ? transpose(a) : conjugate_matrix(a);
    }
    throw BadOp();
}

// ---------------------------------------------------------------- dump of library objects
static std::string dim_dump(const RCP<const Basic> &d)
{
    if (d.is_null())
        return "null";
    return vsexp::dump(*d);
}
static std::string mdump(const Basic &b)
{
    if (is_a<IdentityMatrix>(b))
        return "(I " + dim_dump(down_cast<const IdentityMatrix &>(b).size()) + ")";
    if (is_a<ZeroMatrix>(b)) {
        auto &z = down_cast<const ZeroMatrix &>(b);
        return "(Z " + dim_dump(z.nrows()) + " " + dim_dump(z.ncols()) + ")";
    }
    if (is_a<DiagonalMatrix>(b)) {
        std::string o = "(diag";
        for (auto &e : down_cast<const DiagonalMatrix &>(b).get_container())
            o += " " + vsexp::dump(*e);
        return o + ")";
    }
    if (is_a<ImmutableDenseMatrix>(b)) {
        auto &d = down_cast<const ImmutableDenseMatrix &>(b);
        std::string o = "(dense " + std::to_string(d.nrows()) + " " + std::to_string(d.ncols());
        for (auto &e : d.get_values())
            o += " " + vsexp::dump(*e);
        return o + ")";
    }
    if (is_a<MatrixSymbol>(b))
        return "(M " + down_cast<const MatrixSymbol &>(b).get_name() + ")";
    if (is_a<MatrixAdd>(b)) {
        std::string o = "(add";
        for (auto &e : down_cast<const MatrixAdd &>(b).get_terms())
            o += " " + mdump(*e);
        return o + ")";
    }
    if (is_a<HadamardProduct>(b)) {
        std::string o = "(had";
        for (auto &e : down_cast<const HadamardProduct &>(b).get_factors())
            o += " " + mdump(*e);
        return o + ")";
    }
    if (is_a<MatrixMul>(b)) {
        auto &m = down_cast<const MatrixMul &>(b);
        std::string o = "(mul " + vsexp::dump(*m.get_scalar());
        for (auto &e : m.get_factors())
            o += " " + mdump(*e);
        return o + ")";
    }
    if (is_a<Transpose>(b))
        return "(T " + mdump(*down_cast<const Transpose &>(b).get_arg()) + ")";
    if (is_a<ConjugateMatrix>(b))
        return "(conj " + mdump(*down_cast<const ConjugateMatrix &>(b).get_arg()) + ")";
    return "(unknown-class " + type_code_name(b.get_type_code()) + ")";
}
static const char *tb(tribool t)
{
    return is_true(t) ? "T" : is_false(t) ? "F" : "?";
}

// ---------------------------------------------------------------- independent dense evaluation
struct Val {
    bool ok;
    size_t r, c;
    std::vector<RCP<const Basic>> a;
    Val() : ok(false), r(0), c(0) {}
    Val(size_t r_, size_t c_) : ok(true), r(r_), c(c_), a(r_ * c_, zero) {}
    RCP<const Basic> &at(size_t i, size_t j)
    {
        return a[i * c + j];
    }
    const RCP<const Basic> &at(size_t i, size_t j) const
    {
        return a[i * c + j];
    }
};
static const Val UNDEF;

// "n3" -> 3 : the trailing digits of a dimension symbol
static bool sigma(const std::string &name, size_t &out)
{
    size_t k = name.size();
    while (k > 0 && isdigit((unsigned char)name[k - 1]))
        k--;
    if (k == name.size() || name.size() - k > 3)
        return false;
    out = std::stoul(name.substr(k));
    return true;
}
// "X2x3k" -> fixed 2x3 matrix of small Gaussian rationals depending on the name
static Val iota(const std::string &name)
{
    size_t i = 0;
    while (i < name.size() && !isdigit((unsigned char)name[i]))
        i++;
    size_t j = i;
    while (j < name.size() && isdigit((unsigned char)name[j]))
        j++;
    if (j == i || j >= name.size() || name[j] != 'x' || j - i > 2)
        return UNDEF;
    size_t k = j + 1;
    while (k < name.size() && isdigit((unsigned char)name[k]))
        k++;
    if (k == j + 1 || k - j - 1 > 2)
        return UNDEF;
    Val v(std::stoul(name.substr(i, j - i)), std::stoul(name.substr(j + 1, k - j - 1)));
    uint64_t h = 1469598103934665603ULL;
    for (char ch : name)
        h = (h ^ (unsigned char)ch) * 1099511628211ULL;
    Rng r(h);
    for (auto &e : v.a) {
        long re = r.range(-3, 3), den = r.coin(1, 4) ? 2 : 1, im = r.coin(1, 3) ? r.range(-2, 2) : 0;
        e = add(div(integer(re), integer(den)), mul(integer(im), I));
    }
    return v;
}
static bool dim_value(const RCP<const Basic> &d, size_t &out)
{
    if (d.is_null())
        return false;
    if (is_a<Integer>(*d)) {
        auto &z = down_cast<const Integer &>(*d);
        if (z.is_negative() || z.as_integer_class() > integer_class(1000))
            return false;
        out = (size_t)z.as_int();
        return true;
    }
    if (is_a<Symbol>(*d))
        return sigma(down_cast<const Symbol &>(*d).get_name(), out);
    return false;
}
static Val v_ident(size_t n)
{
    Val v(n, n);
    for (size_t i = 0; i < n; i++)
        v.at(i, i) = one;
    return v;
}
static Val v_diag(const vec_basic &d)
{
    Val v(d.size(), d.size());
    for (size_t i = 0; i < d.size(); i++)
        v.at(i, i) = d[i];
    return v;
}
static Val v_add(const std::vector<Val> &ts, bool hadamard)
{
    if (ts.empty() || !ts[0].ok)
        return UNDEF;
    Val v = ts[0];
    for (size_t k = 1; k < ts.size(); k++) {
        if (!ts[k].ok || ts[k].r != v.r || ts[k].c != v.c)
            return UNDEF;
        for (size_t i = 0; i < v.a.size(); i++)
            v.a[i] = hadamard ? mul(v.a[i], ts[k].a[i]) : add(v.a[i], ts[k].a[i]);
    }
    return v;
}
static Val v_mul(const RCP<const Basic> &scalar, const std::vector<Val> &fs)
{
    if (fs.empty() || !fs[0].ok)
        return UNDEF;
    Val v = fs[0];
    for (size_t k = 1; k < fs.size(); k++) {
        const Val &b = fs[k];
        if (!b.ok || v.c != b.r)
            return UNDEF;
        Val p(v.r, b.c);
        for (size_t i = 0; i < v.r; i++)
            for (size_t j = 0; j < b.c; j++) {
                RCP<const Basic> s = zero;
                for (size_t l = 0; l < v.c; l++)
                    s = add(s, mul(v.at(i, l), b.at(l, j)));
                p.at(i, j) = s;
            }
        v = p;
    }
    for (auto &e : v.a)
        e = mul(scalar, e);
    return v;
}
static Val v_transpose(const Val &a)
{
    if (!a.ok)
        return UNDEF;
    Val v(a.c, a.r);
    for (size_t i = 0; i < a.r; i++)
        for (size_t j = 0; j < a.c; j++)
            v.at(j, i) = a.at(i, j);
    return v;
}
static Val v_conj(const Val &a)
{
    if (!a.ok)
        return UNDEF;
    Val v = a;
    for (auto &e : v.a)
        e = conjugate(e);
    return v;
}
static bool v_eq(const Val &a, const Val &b)
{
    if (!a.ok || !b.ok || a.r != b.r || a.c != b.c)
        return false;
    for (size_t i = 0; i < a.a.size(); i++)
        if (!eq(*a.a[i], *b.a[i]))
            return false;
    return true;
}
static std::string v_str(const Val &v)
{
    if (!v.ok)
        return "undefined";
    std::string o = std::to_string(v.r) + "x" + std::to_string(v.c) + "[";
    for (size_t i = 0; i < v.a.size() && i < 12; i++)
        o += (i ? "," : "") + v.a[i]->__str__();
    return o + (v.a.size() > 12 ? ",..]" : "]");
}

// value of a recipe (no library matrix code involved)
static Val eval_recipe(const Node &n)
{
    if (n.kids.empty() || !n.kids[0].is_atom())
        return UNDEF;
    const std::string &h = n.kids[0].atom;
    size_t na = n.kids.size() - 1;
    auto dimv = [&](const Node &d, size_t &out) {
        try {
            return dim_value(dimarg_of(d), out);
        } catch (BadOp &) {
            return false;
        }
    };
    if (h == "I") {
        size_t k;
        if (na != 1 || !dimv(n.kids[1], k))
            return UNDEF;
        return v_ident(k);
    }
    if (h == "Z") {
        size_t r, c;
        if (na != 2 || !dimv(n.kids[1], r) || !dimv(n.kids[2], c))
            return UNDEF;
        return Val(r, c);
    }
    if (h == "diag") {
        vec_basic v;
        for (size_t k = 1; k <= na; k++)
            v.push_back(number_of(n.kids[k]));
        return v_diag(v);
    }
    if (h == "dense") {
        if (na < 2)
            throw BadOp();
        size_t r = nat_of(n.kids[1]), c = nat_of(n.kids[2]);
        Val v(r, c);
        if (na - 2 != r * c)
            return UNDEF;
        for (size_t k = 0; k < r * c; k++)
            v.a[k] = number_of(n.kids[3 + k]);
        return v;
    }
    if (h == "M") {
        if (na != 1 || !plain_atom(n.kids[1]))
            throw BadOp();
        return iota(n.kids[1].atom);
    }
    if (h == "add" || h == "had") {
        std::vector<Val> ts;
        for (size_t k = 1; k <= na; k++)
            ts.push_back(eval_recipe(n.kids[k]));
        return v_add(ts, h == "had");
    }
    if (h == "mul") {
        std::vector<Val> fs;
        RCP<const Basic> s = one;
        for (size_t k = 1; k <= na; k++) {
            if (is_number_node(n.kids[k]))
                s = mul(s, number_of(n.kids[k]));
            else
                fs.push_back(eval_recipe(n.kids[k]));
        }
        return v_mul(s, fs);
    }
    if ((h == "T" || h == "conj") && na != 1)
        throw BadOp();
    if (h == "T")
        return v_transpose(eval_recipe(n.kids[1]));
    if (h == "conj")
        return v_conj(eval_recipe(n.kids[1]));
    throw BadOp();
}

// value of a library expression (walks the stored fields)
static Val eval_result(const Basic &b)
{
    if (is_a<IdentityMatrix>(b)) {
        size_t k;
        if (!dim_value(down_cast<const IdentityMatrix &>(b).size(), k))
            return UNDEF;
        return v_ident(k);
    }
    if (is_a<ZeroMatrix>(b)) {
        size_t r, c;
        auto &z = down_cast<const ZeroMatrix &>(b);
        if (!dim_value(z.nrows(), r) || !dim_value(z.ncols(), c))
            return UNDEF;
        return Val(r, c);
    }
    if (is_a<DiagonalMatrix>(b))
        return v_diag(down_cast<const DiagonalMatrix &>(b).get_container());
    if (is_a<ImmutableDenseMatrix>(b)) {
        auto &d = down_cast<const ImmutableDenseMatrix &>(b);
        if (d.get_values().size() != d.nrows() * d.ncols())
            return UNDEF;
        Val v(d.nrows(), d.ncols());
        v.a = d.get_values();
        return v;
    }
    if (is_a<MatrixSymbol>(b))
        return iota(down_cast<const MatrixSymbol &>(b).get_name());
    if (is_a<MatrixAdd>(b) || is_a<HadamardProduct>(b)) {
        bool hd = is_a<HadamardProduct>(b);
        std::vector<Val> ts;
        for (auto &e :
             hd ? down_cast<const HadamardProduct &>(b).get_factors() : down_cast<const MatrixAdd &>(b).get_terms())
            ts.push_back(eval_result(*e));
        return v_add(ts, hd);
    }
    if (is_a<MatrixMul>(b)) {
        auto &m = down_cast<const MatrixMul &>(b);
        std::vector<Val> fs;
        for (auto &e : m.get_factors())
            fs.push_back(eval_result(*e));
        return v_mul(m.get_scalar(), fs);
    }
    if (is_a<Transpose>(b))
        return v_transpose(eval_result(*down_cast<const Transpose &>(b).get_arg()));
    if (is_a<ConjugateMatrix>(b))
        return v_conj(eval_result(*down_cast<const ConjugateMatrix &>(b).get_arg()));
    return UNDEF;
}

// concrete meaning of the predicates
static bool is0(const RCP<const Basic> &e)
{
    return is_a_Number(*e) && down_cast<const Number &>(*e).is_zero();
}
static bool p_zero(const Val &v)
{
    for (auto &e : v.a)
        if (!is0(e))
            return false;
    return true;
}
static bool p_square(const Val &v)
{
    return v.r == v.c;
}
static bool p_diag(const Val &v)
{
    if (v.r != v.c)
        return false;
    for (size_t i = 0; i < v.r; i++)
        for (size_t j = 0; j < v.c; j++)
            if (i != j && !is0(v.at(i, j)))
                return false;
    return true;
}
static bool p_sym(const Val &v)
{
    if (v.r != v.c)
        return false;
    for (size_t i = 0; i < v.r; i++)
        for (size_t j = 0; j < i; j++)
            if (!eq(*v.at(i, j), *v.at(j, i)))
                return false;
    return true;
}
static bool p_lower(const Val &v)
{
    if (v.r != v.c)
        return false;
    for (size_t i = 0; i < v.r; i++)
        for (size_t j = i + 1; j < v.c; j++)
            if (!is0(v.at(i, j)))
                return false;
    return true;
}
static bool p_upper(const Val &v)
{
    if (v.r != v.c)
        return false;
    for (size_t i = 0; i < v.r; i++)
        for (size_t j = 0; j < i; j++)
            if (!is0(v.at(i, j)))
                return false;
    return true;
}
static bool p_real(const Val &v)
{
    for (auto &e : v.a)
        if (!(is_a<Integer>(*e) || is_a<Rational>(*e)))
            return false;
    return true;
}
static bool p_toeplitz(const Val &v)
{
    for (size_t i = 0; i + 1 < v.r; i++)
        for (size_t j = 0; j + 1 < v.c; j++)
            if (!eq(*v.at(i, j), *v.at(i + 1, j + 1)))
                return false;
    return true;
}

// value of a scalar the trace visitor can return
static bool eval_scalar(const Basic &b, RCP<const Basic> &out)
{
    if (is_a_Number(b)) {
        out = b.rcp_from_this();
        return true;
    }
    if (is_a<Symbol>(b)) {
        size_t k;
        if (!sigma(down_cast<const Symbol &>(b).get_name(), k))
            return false;
        out = integer((long)k);
        return true;
    }
    if (is_a<Trace>(b)) {
        Val v = eval_result(*b.get_args()[0]);
        if (!v.ok || v.r != v.c)
            return false;
        RCP<const Basic> s = zero;
        for (size_t i = 0; i < v.r; i++)
            s = add(s, v.at(i, i));
        out = s;
        return true;
    }
    if (is_a<Add>(b) || is_a<Mul>(b)) {
        RCP<const Basic> acc = is_a<Add>(b) ? RCP<const Basic>(zero) : RCP<const Basic>(one);
        for (auto &a : b.get_args()) {
            RCP<const Basic> x;
            if (!eval_scalar(*a, x))
                return false;
            acc = is_a<Add>(b) ? add(acc, x) : mul(acc, x);
        }
        out = acc;
        return true;
    }
    return false;
}

static void fail(std::string &oracle, const std::string &msg)
{
    if (oracle == "ok")
        oracle = msg;
}

static bool has_head(const Node &n, const char *h)
{
    if (head_is(n, h))
        return true;
    for (auto &k : n.kids)
        if (has_head(k, h))
            return true;
    return false;
}

std::string hx_run(const std::string &line, std::string &oracle)
{
    std::vector<Node> parts;
    try {
        parts = vsexp::parse_all(line);
    } catch (std::exception &) {
        return "bad-op";
    }
    if (parts.size() != 2 || !plain_atom(parts[0]))
        return "bad-op";
    const std::string op = parts[0].atom;
    if (op != "build" && op != "trace")
        return "bad-op";
    const Node &recipe = parts[1];
    Val expect;
    try {
        expect = eval_recipe(recipe);
    } catch (BadOp &) {
        return "bad-op";
    }
    stat(expect.ok ? "recipe_value_defined" : "recipe_value_undefined");
    bool symbolic = has_head(recipe, "M") || has_head(recipe, "s");
    RCP<const MatrixExpr> m;
    try {
        m = mbuild(recipe);
    } catch (BadOp &) {
        return "bad-op";
    } catch (std::string &tok) {
        return tok;
    } catch (DomainError &e) {
        if (expect.ok)
            fail(oracle, std::string("FAIL:spurious-domain:") + e.what() + " although the operands have the value "
                             + v_str(expect));
        stat("domain_errors");
        throw;
    }
    if (op == "trace") {
        RCP<const Basic> t;
        try {
            t = trace(m);
        } catch (DomainError &e) {
            if (expect.ok && expect.r == expect.c)
                fail(oracle, std::string("FAIL:spurious-domain:trace: ") + e.what() + " on a square value "
                                 + v_str(expect));
            stat("domain_errors");
            throw;
        }
        std::string out;
        if (is_a_Number(*t) || is_a<Symbol>(*t))
            out = vsexp::dump(*t);
        else if (is_a<Trace>(*t))
            out = "(trace " + mdump(*t->get_args()[0]) + ")";
        else
            out = "other";
        if (expect.ok && expect.r == expect.c) {
            RCP<const Basic> want = zero, got;
            for (size_t i = 0; i < expect.r; i++)
                want = add(want, expect.at(i, i));
            if (!eval_scalar(*t, got))
                fail(oracle, "FAIL:trace:result " + t->__str__() + " cannot be evaluated");
            else if (!eq(*got, *want))
                fail(oracle, "FAIL:trace:trace evaluates to " + got->__str__() + " expected " + want->__str__());
            stat("trace_checked");
            if (is_a_Number(*t))
                stat("trace_numeric");
        }
        return out;
    }
    // build
    std::string out = mdump(*m);
    tribool pz = is_zero(*m), pd = is_diagonal(*m), ps = is_symmetric(*m), pl = is_lower(*m), pu = is_upper(*m),
            pr = is_real(*m), pq = is_square(*m), pt = is_toeplitz(*m);
    out += std::string(" z=") + tb(pz) + " d=" + tb(pd) + " s=" + tb(ps) + " l=" + tb(pl) + " u=" + tb(pu)
           + " r=" + tb(pr) + " q=" + tb(pq) + " t=" + tb(pt);
    auto sz = size(*m);
    out += " size=" + dim_dump(sz.first) + "," + dim_dump(sz.second);

    Val got = eval_result(*m);
    if (expect.ok) {
        if (!got.ok)
            fail(oracle, "FAIL:value:operands have the value " + v_str(expect) + " but the result " + out.substr(0, 200)
                             + " has none");
        else if (!v_eq(expect, got))
            fail(oracle, "FAIL:value:dense computation gives " + v_str(expect) + " but the result evaluates to "
                             + v_str(got));
        stat(symbolic ? "value_checked_symbolic" : "value_checked_concrete");
    }
    if (got.ok) {
        struct P {
            const char *name;
            tribool ans;
            bool truth;
        } ps8[] = {{"zero", pz, p_zero(got)},       {"diagonal", pd, p_diag(got)}, {"symmetric", ps, p_sym(got)},
                   {"lower", pl, p_lower(got)},     {"upper", pu, p_upper(got)},   {"real", pr, p_real(got)},
                   {"square", pq, p_square(got)},   {"toeplitz", pt, p_toeplitz(got)}};
        for (auto &p : ps8) {
            if (is_indeterminate(p.ans)) {
                stat("pred_indeterminate");
                continue;
            }
            stat(is_true(p.ans) ? "pred_true" : "pred_false");
            if (is_true(p.ans) != p.truth)
                fail(oracle, std::string("FAIL:pred-") + p.name + ":is_" + p.name + " = " + tb(p.ans)
                                 + " but the matrix " + v_str(got) + (p.truth ? " has" : " does not have")
                                 + " the property");
        }
        size_t k;
        if (!sz.first.is_null() && (!dim_value(sz.first, k) || k != got.r))
            fail(oracle, "FAIL:size:rows " + dim_dump(sz.first) + " but the matrix is " + v_str(got));
        if (!sz.second.is_null() && (!dim_value(sz.second, k) || k != got.c))
            fail(oracle, "FAIL:size:cols " + dim_dump(sz.second) + " but the matrix is " + v_str(got));
        stat("preds_checked");
    }
    return out;
}

// ---------------------------------------------------------------- generator
static std::string num_str(Rng &r, int style)
{
    // style 0: small integers, 1: tiny (-1..1, merges to zero/identity are likely), 2: rationals, 3: complex
    if (style == 1)
        return std::to_string(r.range(-1, 1));
    long a = r.range(-4, 4);
    if (style == 0)
        return std::to_string(a);
    auto rat = [&]() {
        long p = r.range(-5, 5), q = r.range(1, 3);
        while (q > 1 && p % q == 0)
            q--;
        if (q == 1 || p == 0)
            return std::to_string(p);
        // reduce
        long g = 1;
        for (long d = 2; d <= q; d++)
            if (p % d == 0 && q % d == 0)
                g = d;
        p /= g;
        q /= g;
        return q == 1 ? std::to_string(p) : std::to_string(p) + "/" + std::to_string(q);
    };
    if (style == 2)
        return rat();
    std::string im = rat();
    if (im == "0")
        return rat();
    return "(C " + rat() + " " + im + ")";
}
static int pick_style(Rng &r, int base)
{
    if (base >= 0)
        return base;
    unsigned k = r.below(10);
    return k < 5 ? 0 : k < 7 ? 1 : k < 9 ? 2 : 3;
}
struct GenCfg {
    bool symbols;  // matrix symbols allowed
    bool symdims;  // symbolic dimensions allowed
    int style;     // -1 mixed
    unsigned mismatch_pct;
};
static std::string dim_str(Rng &r, const GenCfg &g, size_t n)
{
    if (g.symdims && r.coin(1, 3))
        return std::string("(s ") + (r.coin() ? "n" : "m") + std::to_string(n) + ")";
    return std::to_string(n);
}
static std::string gen_leaf(Rng &r, const GenCfg &g, size_t rows, size_t cols)
{
    int st = pick_style(r, g.style);
    unsigned k = r.below(100);
    if (g.symbols && k < 22) {
        static const char *suf[] = {"", "a", "b"};
        return "(M X" + std::to_string(rows) + "x" + std::to_string(cols) + suf[r.below(3)] + ")";
    }
    if (k < 34)
        return "(Z " + dim_str(r, g, rows) + " " + dim_str(r, g, cols) + ")";
    if (rows == cols && k < 48)
        return "(I " + dim_str(r, g, rows) + ")";
    if (rows == cols && k < 68) {
        std::string o = "(diag";
        for (size_t i = 0; i < rows; i++)
            o += " " + num_str(r, st);
        return o + ")";
    }
    std::string o = "(dense " + std::to_string(rows) + " " + std::to_string(cols);
    unsigned shape = r.below(8); // 0..3 general, 4 lower, 5 upper, 6 symmetric/toeplitz-ish, 7 sparse
    std::vector<std::string> e(rows * cols);
    for (size_t i = 0; i < rows; i++)
        for (size_t j = 0; j < cols; j++) {
            std::string x = num_str(r, st);
            if ((shape == 4 && j > i) || (shape == 5 && j < i) || (shape == 7 && r.coin(2, 3)))
                x = "0";
            e[i * cols + j] = x;
        }
    if (shape == 6) {
        bool toep = r.coin();
        for (size_t i = 0; i < rows; i++)
            for (size_t j = 0; j < cols; j++) {
                if (toep && i > 0 && j > 0)
                    e[i * cols + j] = e[(i - 1) * cols + (j - 1)];
                else if (!toep && j < i && j < rows && i < cols)
                    e[i * cols + j] = e[j * cols + i];
            }
    }
    for (auto &x : e)
        o += " " + x;
    return o + ")";
}
static size_t other_dim(Rng &r, size_t d)
{
    size_t k = 1 + r.below(3);
    return k == d ? (d % 3) + 1 : k;
}
static std::string gen_tree(Rng &r, const GenCfg &g, size_t rows, size_t cols, int depth)
{
    if (depth <= 0 || r.coin(1, 5))
        return gen_leaf(r, g, rows, cols);
    bool bad = r.below(100) < g.mismatch_pct;
    unsigned k = r.below(100);
    if (k < 30 || (k >= 60 && k < 75)) {
        bool hd = k >= 60;
        size_t n = 2 + r.below(3);
        std::string o = hd ? "(had" : "(add";
        size_t badpos = bad ? r.below(n) : n;
        for (size_t i = 0; i < n; i++) {
            if (i == badpos)
                o += " " + gen_tree(r, g, r.coin() ? other_dim(r, rows) : rows, other_dim(r, cols), depth - 1);
            else
                o += " " + gen_tree(r, g, rows, cols, depth - 1);
        }
        return o + ")";
    }
    if (k < 60) {
        size_t n = 2 + r.below(3);
        std::vector<size_t> dims(n + 1);
        dims[0] = rows;
        dims[n] = cols;
        for (size_t i = 1; i < n; i++)
            dims[i] = r.coin(1, 2) ? (r.coin() ? rows : cols) : 1 + r.below(3);
        std::string o = "(mul";
        size_t badpos = bad ? r.below(n) : n;
        for (size_t i = 0; i < n; i++) {
            if (r.coin(1, 6))
                o += " " + num_str(r, r.coin(1, 4) ? 3 : 2);
            size_t a = dims[i], b = dims[i + 1];
            if (i == badpos)
                b = other_dim(r, b), dims[i + 1] = dims[i + 1]; // this factor has the wrong column count
            o += " " + gen_tree(r, g, a, b, depth - 1);
        }
        if (r.coin(1, 8))
            o += " " + num_str(r, 0);
        return o + ")";
    }
    if (k < 88)
        return "(T " + gen_tree(r, g, cols, rows, depth - 1) + ")";
    return "(conj " + gen_tree(r, g, rows, cols, depth - 1) + ")";
}

void hx_gen(Rng &r, const std::string &tier)
{
    bool th = tier == "thorough";
    // --- fixed boundary cases -------------------------------------------------------------
    const char *fixed[] = {
        // zero absorption must produce the size of the product
        "build (mul (dense 2 3 1 2 3 4 5 6) (Z 3 4))", "build (mul (Z 2 3) (dense 3 1 1 2 3))",
        "build (mul (dense 1 2 1 2) (Z 2 2) (dense 2 3 1 2 3 4 5 6))", "build (mul 3 (Z 2 3) (I 3))",
        // scalar times identity
        "build (mul 2 (I 3))", "build (mul (I 3) (I 3) 1/2)", "build (mul (C 0 1) (I 2) (I 2))",
        "build (mul 2 (I 3) 1/2)", "build (mul (mul 2 (I 2)) (dense 2 2 1 2 3 4))", "build (mul (mul 2 (I 2)) (I 2))",
        "build (mul 0 (I 2))", "build (mul 0 (dense 2 2 1 2 3 4))",
        // hadamard with identity
        "build (had (I 2) (dense 2 2 1 2 3 4))", "build (had (I 2) (dense 2 2 1 2 2 4))",
        "build (had (dense 2 2 1 2 3 4) (I 2) (diag 2 3))", "build (had (I 2) (I 2) (M X2x2))",
        // toeplitz on every small shape
        "build (dense 1 3 1 2 3)", "build (dense 1 4 1 2 3 4)", "build (dense 3 1 1 2 3)", "build (dense 4 1 1 2 3 4)",
        "build (dense 1 2 1 2)", "build (dense 2 1 1 2)", "build (dense 2 4 1 2 3 4 5 1 2 3)",
        "build (dense 4 2 1 2 3 1 4 3 5 4)", "build (dense 2 4 1 2 3 4 5 1 2 9)", "build (dense 4 2 1 2 3 1 4 3 5 9)",
        "build (dense 3 3 1 2 3 4 1 2 5 4 1)", "build (dense 3 3 1 2 3 4 1 2 5 4 2)", "build (diag 2 2 2)",
        "build (diag 2 2 3)", "build (diag 5)",
        // unknown sizes inside sums
        "build (add (mul (dense 2 2 1 2 3 4) (M X2x2)) (dense 2 2 5 2 3 4))",
        "build (add (mul (M X2x2) (dense 2 2 1 2 3 4)) (dense 2 2 5 2 3 4))",
        "build (had (mul (dense 2 2 1 2 3 4) (M X2x2)) (dense 2 2 5 2 3 4))",
        "build (add (mul (dense 2 2 1 2 3 4) (M X2x2)) (dense 3 2 5 2 3 4 5 6))",
        "build (add (M X2x2) (mul (dense 2 2 1 2 3 4) (M X2x2a)))",
        // merges that cancel (canonical-form assertions)
        "build (add (diag 1 2) (diag -1 -2))", "build (add (dense 2 2 1 2 3 4) (dense 2 2 -1 -2 -3 -4))",
        "build (add (dense 2 2 1 2 3 4) (dense 2 2 0 -2 -3 -3))", "build (mul (diag 2 1/2) (diag 1/2 2))",
        "build (mul (dense 2 2 0 1 0 0) (dense 2 2 0 1 0 0))", "build (had (dense 2 2 0 1 1 0) (diag 2 3))",
        "build (add (diag 1 2) (dense 2 2 -1 0 0 -2))", "build (add (diag 1 2) (dense 2 2 0 1 1 -1))",
        // transpose / conjugate towers
        "build (conj (T (conj (M X2x3))))", "build (T (conj (T (M X2x3))))", "build (T (T (M X2x3)))",
        "build (conj (conj (M X2x3)))", "build (T (conj (M X2x3)))", "build (conj (T (M X2x3)))",
        "build (T (add (M X2x3) (T (M X3x2)) (dense 2 3 1 2 3 4 5 6)))",
        "build (conj (add (M X2x2) (diag (C 1 1) 2) (I 2)))", "build (T (mul (M X2x3) (M X3x2)))",
        "build (conj (had (I 2) (dense 2 2 (C 1 1) 2 3 4)))", "build (T (Z 2 3))", "build (T (Z (s n2) (s m3)))",
        // constructors
        "build (diag 0 0)", "build (diag 1 1 1)", "build (diag)", "build (dense 2 2 1 0 0 1)",
        "build (dense 2 2 2 0 0 3)", "build (dense 2 3 0 0 0 0 0 0)", "build (dense 0 0)", "build (dense 0 3)",
        "build (dense 2 3 1 0 0 0 1 0)", "build (I -1)", "build (I 1/2)", "build (Z 2 -3)", "build (Z 1/2 1)",
        "build (I (s n2))", "build (Z (s n2) (s n2))", "build (Z (s n2) (s m2))", "build (Z (s n2) 2)",
        "build (add)", "build (mul)", "build (had)", "build (add (I 2))", "build (mul (I 2))", "build (mul 2)",
        "build (mul 2 3)", "build (had (M X2x2))",
        // sizes
        "build (add (I (s n3)) (Z (s n3) (s m3)) (I 3))", "build (add (I (s n3)) (I (s m3)))",
        "build (add (M X3x3) (I (s n3)) (I 3))", "build (mul (M X2x3) (dense 3 2 1 2 3 4 5 6))",
        "build (mul (dense 3 2 1 2 3 4 5 6) (M X2x3))", "build (mul (I (s n2)) (Z 2 4))",
        "build (mul (M X3x2) (Z 2 4))", "build (mul (Z 2 4) (M X4x3))", "build (had (M X2x3) (Z 2 3))",
        // traces
        "trace (I 3)", "trace (I (s n3))", "trace (Z 2 2)", "trace (Z 2 3)", "trace (Z (s n2) (s n2))",
        "trace (Z (s n2) (s m2))", "trace (diag 1 2 3)", "trace (dense 2 2 1 2 3 4)", "trace (dense 2 3 1 2 3 4 5 6)",
        "trace (add (I 2) (M X2x2))", "trace (add (I (s n2)) (diag 1 -1))", "trace (add (I (s n2)) (diag 1 2))",
        "trace (add (M X2x2) (diag 1 -1))", "trace (add (M X2x2) (M X2x2a))", "trace (add (I 2) (I 2))",
        "trace (mul (M X2x2) (M X2x2a))", "trace (T (M X2x2))", "trace (had (I 2) (dense 2 2 1 2 3 4))",
        "trace (add (I (s n2)) (I (s n2)))", "trace (add (dense 2 2 1 2 3 4) (T (M X2x2)) (diag 1/2 (C 1 1)))",
    };
    for (auto f : fixed)
        emit(f, "fixed");

    // --- all pairs / some triples of a 2x2 leaf catalogue under add, mul, had ----------------
    std::vector<std::string> cat = {"(I 2)",
                                    "(Z 2 2)",
                                    "(diag 2 3)",
                                    "(diag -2 -3)",
                                    "(diag 1/2 1/3)",
                                    "(diag (C 0 1) 1)",
                                    "(dense 2 2 1 2 3 4)",
                                    "(dense 2 2 1 2 2 1)",
                                    "(dense 2 2 1 0 3 4)",
                                    "(dense 2 2 1 2 0 4)",
                                    "(dense 2 2 0 1 1 0)",
                                    "(dense 2 2 -1 -2 -3 -4)",
                                    "(dense 2 2 1 (C 0 1) (C 0 -1) 2)",
                                    "(M X2x2)",
                                    "(T (M X2x2))",
                                    "(conj (M X2x2a))",
                                    "(mul 2 (M X2x2))",
                                    "(add (M X2x2) (I 2))",
                                    "(had (M X2x2) (I 2))",
                                    "(I (s n2))",
                                    "(Z (s n2) (s n2))",
                                    "(Z (s n2) 2)"};
    for (const char *op : {"add", "mul", "had"})
        for (auto &a : cat)
            for (auto &b : cat)
                emit(std::string("build (") + op + " " + a + " " + b + ")", "pairs");
    for (auto &a : cat) {
        emit("build (T " + a + ")", "unary");
        emit("build (conj " + a + ")", "unary");
        emit("build (T (conj " + a + "))", "unary");
        emit("build (conj (T " + a + "))", "unary");
        emit("trace " + a, "trace");
    }
    size_t ntrip = th ? 3000 : 300;
    for (size_t i = 0; i < ntrip; i++) {
        const char *ops[] = {"add", "mul", "had"};
        std::string o = std::string("build (") + ops[r.below(3)];
        size_t n = 3 + r.below(2);
        for (size_t k = 0; k < n; k++)
            o += " " + r.pick(cat);
        emit(o + ")", "triples");
    }
    // --- every small dense shape with structured content: predicates -------------------------
    size_t nshape = th ? 40 : 6;
    for (size_t rows = 1; rows <= 4; rows++)
        for (size_t cols = 1; cols <= 4; cols++)
            for (size_t k = 0; k < nshape; k++) {
                GenCfg g{false, false, (int)(k % 4), 0};
                std::string leaf;
                do
                    leaf = gen_leaf(r, g, rows, cols);
                while (leaf.compare(0, 6, "(dense") != 0 && leaf.compare(0, 5, "(diag") != 0);
                emit("build " + leaf, "dense-shapes");
            }
    // --- random trees --------------------------------------------------------------------
    size_t n = th ? 6000 : 700;
    for (size_t i = 0; i < n; i++) {
        unsigned k = r.below(100);
        GenCfg g;
        std::string tag;
        if (k < 45)
            g = GenCfg{false, false, -1, 0}, tag = "tree-concrete";
        else if (k < 60)
            g = GenCfg{false, false, -1, 12}, tag = "tree-concrete-mismatch";
        else if (k < 80)
            g = GenCfg{true, false, -1, 4}, tag = "tree-symbols";
        else if (k < 90)
            g = GenCfg{true, true, -1, 4}, tag = "tree-symdims";
        else
            g = GenCfg{false, false, 1, 0}, tag = "tree-tiny-entries";
        size_t rows = 1 + r.below(3), cols = r.coin(2, 3) ? rows : 1 + r.below(3);
        int depth = 1 + (int)r.below(4);
        std::string t = gen_tree(r, g, rows, cols, depth);
        if (rows == cols && r.coin(1, 5))
            emit("trace " + t, "trace-" + tag);
        else
            emit("build " + t, tag);
    }
}
