// C14: LLVM-compiled functions (LLVMDoubleVisitor / LLVMFloatVisitor / LLVMLongDoubleVisitor).
// Only meaningful in a build configured with LLVM (config `llvm`).
//
// op line:  cg <pre> <levels> <inputs: names joined by ',' or -> | <output dump> , <output dump> ... @ <call> ; <call> ...
//   <levels> optimisation levels to exercise, e.g. 02 (quick) or 0123 (thorough)
//   <pre>   0 = fresh visitor, k > 0 = the same visitor object first went through an init that throws
//           (k inputs, an output mentioning an unbound symbol) - state left behind by a failed init
//   <call>  hex bit patterns of the input values joined by ','  (or -)
// impl output (fields joined by ';'):
//   st=<ok | E:..>            status of init(inputs, outputs, cse=false, opt 0)
//   st1=<ok | E:..>           status with cse=true
//   ir0=<canonical IR>        the instructions LLVMVisitor::init emitted at opt level 0, cse off
//   ir1=<canonical IR>        … cse on
//   o=<dump,dump…>            the outputs as *visited* (real dictionary order, RewriteTrigVisitor / Sign expansions done
//                             through the library's own constructors, exactly as visitor.h / llvm_double.cpp do)
//   r=<name=dump,…>           replacements returned by SymEngine::cse(outputs), same expansion
//   d=<dump,…>                reduced expressions
//   v=<bits,…>                results of the first call at opt 0, cse off
//   tol=<ulps,…>              condition-scaled tolerance per output (from the long double reference), 0 = discarded
//   sp=<special table>        tgamma/lgamma/erf/erfc values for the model run
//
// oracles (independent of the Lean model), evaluated on the real JIT-compiled functions:
//   llvm_accuracy   every output, every opt level, cse on/off: vs a long-double evaluation of the output expression
//   llvm_vs_eval    vs eval_double of the substituted expression (same tolerance)
//   cse_agree       cse on vs off                       (condition-scaled, >= 2 ulp)
//   opt_agree       opt levels agree with level 0        (condition-scaled, >= 4 ulp)
//   reload_bitwise  dumps() -> loads() into a fresh visitor -> bit-identical outputs
//   reinit_fresh    a visitor whose previous init threw behaves like a fresh one (status and bits)
//   status_agree    init status is the same for every opt level / cse setting (modulo cse-introduced symbols)
//   float_visitor / longdouble_visitor   the other two precisions agree with the reference (float: coarse 2 % sanity bound,
//                   its constants and inputs are rounded to float; long double: the double tolerance)
#include "evalfam.h"
#include <symengine/real_double.h>
#ifdef HAVE_SYMENGINE_LLVM
#include <symengine/llvm_double.h>
#endif

using namespace SymEngine;
using namespace evf;

namespace SymEngine
{
void cse(vec_pair &replacements, vec_basic &reduced_exprs, const vec_basic &exprs);
}

#ifndef HAVE_SYMENGINE_LLVM
void hx_gen(Rng &, const std::string &)
{
    emit("nollvm", "trivial-no-llvm");
}
std::string hx_run(const std::string &, std::string &oracle)
{
    oracle = "FAIL:config:harness built without LLVM";
    return "NOLLVM";
}
#else

extern "C" {
typedef struct LLVMOpaqueModule *LLVMModuleRef;
char *LLVMPrintModuleToString(LLVMModuleRef M);
void LLVMDisposeMessage(char *Message);
}

// LLVMDoubleVisitor that keeps the textual IR of the module as it is handed to the JIT
struct IRVisitor : public LLVMDoubleVisitor {
    std::string ir;
    void modify_execution_engine(llvm::ExecutionEngine *) override
    {
        char *s = LLVMPrintModuleToString(reinterpret_cast<LLVMModuleRef>(mod));
        ir = s ? s : "";
        if (s)
            LLVMDisposeMessage(s);
    }
};

static std::string trim(const std::string &s)
{
    size_t a = s.find_first_not_of(" \t"), b = s.find_last_not_of(" \t\r");
    return a == std::string::npos ? "" : s.substr(a, b - a + 1);
}

// ------------------------------------------------------------------ canonical IR
struct Canon {
    std::map<std::string, std::string> name; // %x -> r<k>
    std::map<std::string, std::pair<std::string, long>> gep;
    std::vector<std::string> out;
    bool bad = false;
    std::string why;

    void fail(const std::string &w)
    {
        if (!bad) {
            bad = true;
            why = w;
        }
    }
    std::string fconst(const std::string &t)
    {
        double d;
        if (t.compare(0, 2, "0x") == 0) {
            uint64_t u = strtoull(t.c_str() + 2, nullptr, 16);
            memcpy(&d, &u, 8);
        } else
            d = strtod(t.c_str(), nullptr);
        if (std::isnan(d))
            return "c:nan";
        return "c:" + bits(d);
    }
    // operand token (without type)
    std::string opnd(const std::string &t0)
    {
        std::string t = trim(t0);
        if (t == "true")
            return "b:1";
        if (t == "false")
            return "b:0";
        if (!t.empty() && t[0] == '%') {
            auto it = name.find(t);
            if (it == name.end()) {
                fail("use of undefined value " + t);
                return "?";
            }
            return it->second;
        }
        return fconst(t);
    }
    // "double %3" / "i1 true" / "i32 3" -> operand
    std::string typed(const std::string &t0)
    {
        std::string t = trim(t0);
        size_t sp = t.find(' ');
        return opnd(sp == std::string::npos ? t : t.substr(sp + 1));
    }
    void def(const std::string &lhs, const std::string &ins)
    {
        std::string r = "r" + tostr(out.size());
        if (!lhs.empty())
            name[lhs] = r;
        out.push_back(ins);
    }
    static std::vector<std::string> commas(const std::string &s)
    {
        std::vector<std::string> v;
        int depth = 0;
        std::string cur;
        for (char c : s) {
            if (c == '[' || c == '(')
                depth++;
            if (c == ']' || c == ')')
                depth--;
            if (c == ',' && depth == 0) {
                v.push_back(cur);
                cur.clear();
            } else
                cur.push_back(c);
        }
        v.push_back(cur);
        return v;
    }
    void line(const std::string &l0)
    {
        std::string l = trim(l0);
        size_t sc = l.find(" ;");
        if (sc != std::string::npos)
            l = trim(l.substr(0, sc));
        if (l.empty() || l.back() == ':' || l == "ret void")
            return;
        if (l.compare(0, 9, "br label ") == 0)
            return;
        if (l.compare(0, 6, "br i1 ") == 0) {
            std::vector<std::string> p = commas(l.substr(3));
            def("", "condbr " + typed(p.at(0)));
            return;
        }
        if (l.compare(0, 6, "store ") == 0) {
            std::vector<std::string> p = commas(l.substr(6));
            std::string ptr = trim(p.at(1));
            ptr = ptr.substr(ptr.rfind(' ') + 1);
            auto g = gep.find(ptr);
            if (g == gep.end() || g->second.first != "%1")
                fail("store through an unknown pointer " + ptr);
            else
                def("", "store " + tostr(g->second.second) + " " + typed(p.at(0)));
            return;
        }
        size_t eq = l.find(" = ");
        if (eq == std::string::npos || l[0] != '%') {
            fail("unrecognised line: " + l);
            return;
        }
        std::string lhs = l.substr(0, eq), rhs = l.substr(eq + 3);
        std::vector<std::string> w = split(rhs, ' ');
        if (w[0] == "getelementptr") {
            // getelementptr double, double* %0, i32 K
            std::vector<std::string> p = commas(rhs.substr(14));
            std::string base = trim(p.at(1));
            base = base.substr(base.rfind(' ') + 1);
            std::string idx = trim(p.at(2));
            gep[lhs] = {base, atol(idx.substr(idx.rfind(' ') + 1).c_str())};
            return;
        }
        if (w[0] == "load") {
            std::vector<std::string> p = commas(rhs.substr(5));
            std::string ptr = trim(p.at(1));
            ptr = ptr.substr(ptr.rfind(' ') + 1);
            auto g = gep.find(ptr);
            if (g == gep.end() || g->second.first != "%0")
                fail("load through an unknown pointer " + ptr);
            else
                def(lhs, "load " + tostr(g->second.second));
            return;
        }
        if (w[0] == "fadd" || w[0] == "fmul" || w[0] == "fsub" || w[0] == "fdiv") {
            // flags (fast, nnan …) would appear between the opcode and the type: keep them, they must not be there
            size_t ty = rhs.find("double ");
            std::string flags = trim(rhs.substr(w[0].size(), ty == std::string::npos ? 0 : ty - w[0].size()));
            std::vector<std::string> p = commas(rhs.substr(ty));
            def(lhs, w[0] + (flags.empty() ? "" : "[" + flags + "]") + " " + typed(p.at(0)) + " " + opnd(p.at(1)));
            return;
        }
        if (w[0] == "fcmp") {
            // fcmp one double %a, %b
            size_t ty = rhs.find("double ");
            std::string pred = trim(rhs.substr(5, ty - 5));
            std::vector<std::string> p = commas(rhs.substr(ty));
            def(lhs, "fcmp " + pred + " " + typed(p.at(0)) + " " + opnd(p.at(1)));
            return;
        }
        if (w[0] == "and" || w[0] == "or" || w[0] == "xor") {
            std::vector<std::string> p = commas(rhs.substr(w[0].size() + 1));
            def(lhs, w[0] + " " + typed(p.at(0)) + " " + opnd(p.at(1)));
            return;
        }
        if (w[0] == "uitofp") {
            // uitofp i1 %x to double
            size_t to = rhs.find(" to ");
            def(lhs, "uitofp " + typed(rhs.substr(7, to - 7)));
            return;
        }
        if (w[0] == "phi") {
            // phi double [ %a, %then ], [ %b, %else ]
            std::vector<std::string> p = commas(rhs.substr(rhs.find('[')));
            std::string o = "phi";
            for (auto &inc : p) {
                std::string t = trim(inc);
                t = t.substr(1, t.size() - 2); // strip [ ]
                o += " " + opnd(commas(t).at(0));
            }
            def(lhs, o);
            return;
        }
        if (w[0] == "tail" || w[0] == "call") {
            size_t at = rhs.find('@'), lp = rhs.find('(', at), rp = rhs.rfind(')');
            if (at == std::string::npos || lp == std::string::npos || rp == std::string::npos) {
                fail("call: " + l);
                return;
            }
            std::string callee = rhs.substr(at + 1, lp - at - 1);
            std::string head = trim(rhs.substr(0, at)); // "tail call double"
            if (head != "tail call double")
                callee = "[" + head + "]" + callee;
            std::vector<std::string> args = commas(rhs.substr(lp + 1, rp - lp - 1));
            if (callee == "llvm.powi.f64.i32" || callee == "llvm.powi.f64") {
                std::string n = trim(args.at(1));
                def(lhs, "powi " + typed(args.at(0)) + " " + n.substr(n.rfind(' ') + 1));
                return;
            }
            if (callee.compare(0, 5, "llvm.") == 0 && callee.size() > 4 && callee.compare(callee.size() - 4, 4, ".f64") == 0)
                callee = callee.substr(0, callee.size() - 4);
            std::string o = "call " + callee;
            for (auto &a : args)
                o += " " + typed(a);
            def(lhs, o);
            return;
        }
        fail("unrecognised instruction: " + l);
    }
};

static std::string canonical_ir(const std::string &ir)
{
    size_t d = ir.find("@symengine_func(");
    if (d == std::string::npos)
        return "NOFUNC";
    size_t open = ir.find("{\n", d), close = ir.find("\n}", open);
    if (open == std::string::npos || close == std::string::npos)
        return "NOBODY";
    Canon c;
    std::string body = ir.substr(open + 2, close - open - 2);
    size_t pos = 0;
    while (pos <= body.size()) {
        size_t nl = body.find('\n', pos);
        if (nl == std::string::npos)
            nl = body.size();
        c.line(body.substr(pos, nl - pos));
        pos = nl + 1;
    }
    if (c.bad)
        return "BADIR(" + c.why + ")";
    return join(c.out, "|");
}

// ------------------------------------------------------------------ the tree as visited
static std::string xdump(const Basic &b);

static std::string xdump_args(const std::string &head, const vec_basic &args)
{
    std::string o = "(" + head;
    for (auto &a : args)
        o += " " + xdump(*a);
    return o + ")";
}

static std::string xdump(const Basic &b)
{
    switch (b.get_type_code()) {
        case SYMENGINE_ADD: {
            const Add &a = down_cast<const Add &>(b);
            std::string o = "(+ " + vsexp::dump(*a.get_coef());
            for (auto &p : a.get_dict())
                o += " (" + xdump(*p.first) + " " + xdump(*p.second) + ")";
            return o + ")";
        }
        case SYMENGINE_MUL: {
            const Mul &m = down_cast<const Mul &>(b);
            std::string o = "(* " + vsexp::dump(*m.get_coef());
            for (auto &p : m.get_dict())
                o += " (" + xdump(*p.first) + " " + xdump(*p.second) + ")";
            return o + ")";
        }
        case SYMENGINE_POW: {
            const Pow &p = down_cast<const Pow &>(b);
            return "(^ " + xdump(*p.get_base()) + " " + xdump(*p.get_exp()) + ")";
        }
        // RewriteTrigVisitor (visitor.h): the node is replaced before it is visited
        case SYMENGINE_COT:
            return xdump(*div(one, tan(down_cast<const Cot &>(b).get_arg())));
        case SYMENGINE_CSC:
            return xdump(*div(one, sin(down_cast<const Csc &>(b).get_arg())));
        case SYMENGINE_SEC:
            return xdump(*div(one, cos(down_cast<const Sec &>(b).get_arg())));
        case SYMENGINE_ACOT:
            return xdump(*atan(div(one, down_cast<const ACot &>(b).get_arg())));
        case SYMENGINE_ACSC:
            return xdump(*asin(div(one, down_cast<const ACsc &>(b).get_arg())));
        case SYMENGINE_ASEC:
            return xdump(*acos(div(one, down_cast<const ASec &>(b).get_arg())));
        case SYMENGINE_COTH:
            return xdump(*div(one, tanh(down_cast<const Coth &>(b).get_arg())));
        case SYMENGINE_CSCH:
            return xdump(*div(one, sinh(down_cast<const Csch &>(b).get_arg())));
        case SYMENGINE_SECH:
            return xdump(*div(one, cosh(down_cast<const Sech &>(b).get_arg())));
        case SYMENGINE_ACOTH:
            return xdump(*atanh(div(one, down_cast<const ACoth &>(b).get_arg())));
        case SYMENGINE_ACSCH:
            return xdump(*asinh(div(one, down_cast<const ACsch &>(b).get_arg())));
        case SYMENGINE_ASECH:
            return xdump(*acosh(div(one, down_cast<const ASech &>(b).get_arg())));
        case SYMENGINE_SIGN: {
            // LLVMVisitor::bvisit(const Sign&)
            const auto x2 = down_cast<const Sign &>(b).get_arg();
            PiecewiseVec new_pw;
            new_pw.push_back({real_double(0.0), Eq(x2, real_double(0.0))});
            new_pw.push_back({real_double(-1.0), Lt(x2, real_double(0.0))});
            new_pw.push_back({real_double(1.0), boolTrue});
            return xdump(*piecewise(std::move(new_pw)));
        }
        case SYMENGINE_AND:
        case SYMENGINE_OR:
        case SYMENGINE_XOR:
            // container order (the instructions are emitted in this order)
            return xdump_args(type_code_name(b.get_type_code()), b.get_args());
        default: {
            vec_basic args = b.get_args();
            if (args.empty() || b.get_type_code() == SYMENGINE_COMPLEX || b.get_type_code() == SYMENGINE_INFTY
                || b.get_type_code() == SYMENGINE_FUNCTIONSYMBOL || b.get_type_code() == SYMENGINE_INTERVAL)
                return vsexp::dump(b);
            return xdump_args(type_code_name(b.get_type_code()), args);
        }
    }
}

static bool has_rewritten(const Basic &b)
{
    switch (b.get_type_code()) {
        case SYMENGINE_COT:
        case SYMENGINE_CSC:
        case SYMENGINE_SEC:
        case SYMENGINE_ACOT:
        case SYMENGINE_ACSC:
        case SYMENGINE_ASEC:
        case SYMENGINE_COTH:
        case SYMENGINE_CSCH:
        case SYMENGINE_SECH:
        case SYMENGINE_ACOTH:
        case SYMENGINE_ACSCH:
        case SYMENGINE_ASECH:
        case SYMENGINE_SIGN:
            return true;
        default:
            break;
    }
    for (auto &a : b.get_args())
        if (has_rewritten(*a))
            return true;
    return false;
}

// ------------------------------------------------------------------ generator
static const char *POOL[] = {"x", "y", "z", "x0", "x1"};

void hx_gen(Rng &rng, const std::string &tier)
{
    long n = tier == "thorough" ? 1500 : 160;
    const std::string lv = tier == "thorough" ? "0123" : "02";
    // boundary cases / minimised past findings first
    emit("cg 0 " + lv + " x0,y | (+ 0 ((Cos (+ 1 ((s y) 1))) 1) ((Sin (+ 1 ((s y) 1))) 1)) @ 4059000000000000,3fe0000000000000", "fixed-unused-input-named-x0");
    emit("cg 2 " + lv + " x,y | (+ 0 ((Sin (s x)) 1) ((s y) 2)) @ 3ff8000000000000,4004000000000000", "fixed-init-after-failed-init");
    emit("cg 0 " + lv + " x | (^ (s x) 2) , (^ (s x) 3) , (^ (s x) -1) , (^ 2 (s x)) , (^ (k E) (s x)) , (^ (s x) 1/2) @ 3ff8000000000000;4004000000000000", "fixed-pow-forms");
    emit("cg 0 " + lv + " x | (Sign (s x)) , (Floor (s x)) , (Ceiling (s x)) , (Truncate (s x)) , (Abs (s x)) @ c004000000000000;0000000000000000;400c000000000000",
         "fixed-rounding-fns");
    emit("cg 0 " + lv + " x,y | (ATan2 (s x) (s y)) , (^ (s x) (s y)) , (Max (s x) (s y)) , (Min (s x) (s y)) @ 3ff8000000000000,4004000000000000;4004000000000000,3ff8000000000000",
         "fixed-argument-order");
    emit("cg 0 " + lv + " x,y | (Piecewise (s x) (StrictLessThan (s x) (s y)) (s y) (LessThan (s y) 1) 7 true) @ 3ff8000000000000,4004000000000000;4004000000000000,3fe0000000000000;4004000000000000,4008000000000000",
         "fixed-piecewise3");
    emit("cg 0 " + lv + " x | (Cot (s x)) , (ASec (+ 2 ((s x) 1))) , (Csch (s x)) , (ACoth (+ 2 ((s x) 1))) @ 3ff8000000000000", "fixed-rewritten-trig");
    emit("cg 0 " + lv + " x,y | (+ 3 ((k pi) 2) ((s x) 1)) , (* 2 ((k pi) 1) ((s y) 1)) @ 3ff8000000000000,4004000000000000", "fixed-constant-folding");
    emit("cg 0 " + lv + " x | (LambertW (s x)) @ 3ff8000000000000", "fixed-unsupported");
    emit("cg 0 " + lv + " x | (+ 0 ((s x) 1) ((s q) 1)) @ 3ff8000000000000", "fixed-missing-symbol");
    for (long i = 0; i < n; i++) {
        TreeGen g(rng, true);
        for (auto nm : POOL)
            g.env[nm] = 0.25 * (double)rng.range(-12, 12) + (rng.coin() ? 0.125 : 0.0) + (rng.coin(1, 6) ? 1e-3 * (double)rng.range(1, 9) : 0.0);
        std::vector<std::string> ins;
        for (auto nm : POOL)
            if (rng.coin(3, 5))
                ins.push_back(nm);
        if (ins.empty())
            ins.push_back("x");
        for (size_t k = ins.size(); k > 1; k--)
            std::swap(ins[k - 1], ins[rng.below(k)]);
        g.syms.clear();
        for (auto &nm : ins)
            if (rng.coin(3, 4))
                g.syms.push_back(symbol(nm));
        if (g.syms.empty())
            g.syms.push_back(symbol(ins[0]));
        int nout = 1 + (int)rng.below(3);
        RCP<const Basic> sh1 = g.nonnum(2), sh2 = g.nonnum(1);
        vec_basic outs;
        for (int o = 0; o < nout; o++) {
            RCP<const Basic> e;
            unsigned k = rng.below(7);
            try {
                if (k <= 1)
                    e = g.expr(1 + (int)rng.below(3));
                else if (k == 2)
                    e = add(mul(g.small_rat(), sin(sh1)), g.expr(1));
                else if (k == 3)
                    e = mul(add(sh1, g.small_rat()), add(sh2, g.expr(1)));
                else if (k == 4)
                    e = add(cos(sh1), mul(sh2, sh1));
                else if (k == 5)
                    e = pow(E, g.fit(mul(sh2, g.small_rat()), -6, 6));
                else
                    e = add(sh2, g.expr(2));
                if (!g.good(e))
                    e = g.expr(1 + (int)rng.below(2));
            } catch (const std::exception &) {
                e = g.leaf();
            }
            outs.push_back(e);
        }
        std::string kind = "ok";
        if (rng.coin(1, 14)) {
            std::string missing;
            for (auto nm : POOL)
                if (std::find(ins.begin(), ins.end(), nm) == ins.end())
                    missing = nm;
            if (!missing.empty()) {
                outs[rng.below(outs.size())] = add(outs[0], symbol(missing));
                kind = "missing-symbol";
            }
        } else if (rng.coin(1, 18)) {
            outs[rng.below(outs.size())] = add(outs[0], lambertw(g.syms[0]));
            kind = "unsupported-node";
        }
        int pre = rng.coin(1, 6) ? 1 + (int)rng.below(3) : 0;
        std::vector<std::string> od;
        std::string top;
        for (auto &e : outs) {
            od.push_back(vsexp::dump(*e));
            top += (top.empty() ? "" : "+") + type_code_name(e->get_type_code());
        }
        std::string calls;
        int ncall = 1 + (int)rng.below(2);
        for (int c = 0; c < ncall; c++) {
            std::vector<std::string> xs;
            for (auto &nm : ins) {
                double v = g.env[nm];
                if (c > 0)
                    v += 0.03125 * (double)rng.range(-4, 4);
                xs.push_back(bits(v));
            }
            calls += (c ? ";" : "") + join(xs, ",");
        }
        std::string tag = (kind != "ok" ? "!" + kind : "n" + tostr(nout)) + (pre ? "-afterfail" : "") + "-" + top;
        emit("cg " + tostr(pre) + " " + lv + " " + join(ins, ",") + " | " + join(od, " , ") + " @ " + calls, tag.size() > 40 ? tag.substr(0, 40) : tag);
    }
}

// ------------------------------------------------------------------ run
static vec_basic syms_of(const std::vector<std::string> &names)
{
    vec_basic v;
    for (auto &n : names)
        v.push_back(symbol(n));
    return v;
}

template <class V>
static std::string init_status(V &v, const vec_basic &ins, const vec_basic &outs, bool cse, unsigned opt)
{
    try {
        v.init(ins, outs, cse, opt);
        return "ok";
    } catch (const SymEngine::VerifAssertError &) {
        return "E:Assert";
    } catch (const std::exception &e) {
        return exc_name(e);
    }
}

// the failing init of a `pre` op: k inputs a0..a(k-1), one output mentioning an unbound symbol
template <class V>
static void failing_init(V &v, int k)
{
    vec_basic ins;
    for (int i = 0; i < k; i++)
        ins.push_back(symbol("a" + tostr(i)));
    vec_basic outs{add(ins[0], symbol("unbound_symbol"))};
    try {
        v.init(ins, outs, false, 0);
    } catch (const std::exception &) {
    }
}

static double plain_value(const RCP<const Basic> &arg, const vec_basic &names, const std::vector<double> &vals)
{
    // value of a sub-expression as compiled code computes it (opt 0, no cse)
    LLVMDoubleVisitor v;
    v.init(names, {arg}, false, 0);
    double out;
    v.call(&out, vals.data());
    return out;
}

std::string hx_run(const std::string &op, std::string &oracle)
{
    if (op.compare(0, 3, "cg ") != 0)
        throw std::runtime_error("bad op");
    size_t bar = op.find('|'), at = op.find('@');
    std::vector<std::string> head = split(trim(op.substr(3, bar - 3)), ' ');
    int pre = atoi(head.at(0).c_str());
    std::vector<unsigned> levels;
    for (char c : head.at(1))
        levels.push_back((unsigned)(c - '0'));
    std::vector<std::string> ins_n;
    if (head.at(2) != "-")
        ins_n = split(head.at(2), ',');
    vec_basic outs;
    for (auto &d : split(op.substr(bar + 1, at - bar - 1), ','))
        outs.push_back(vsexp::parse(trim(d)));
    std::vector<std::vector<double>> calls;
    for (auto &c : split(trim(op.substr(at + 1)), ';')) {
        std::vector<double> xs;
        std::string t = trim(c);
        if (t != "-")
            for (auto &h : split(t, ','))
                xs.push_back(vsexp::hex_dbl(trim(h)));
        if (xs.size() != ins_n.size())
            throw std::runtime_error("call arity");
        calls.push_back(xs);
    }
    vec_basic ins = syms_of(ins_n);
    for (auto &e : outs) {
        std::map<std::string, long> kinds;
        count_kinds(*e, kinds);
        for (auto &kv : kinds)
            stat("kind_" + kv.first, kv.second);
    }
    stat(pre ? "init_after_failed_init" : "init_fresh");

    // ---- the visitor under test for the model correspondence: opt 0, cse off / on
    std::string st[2], ir[2];
    std::vector<std::vector<double>> res0; // [call][output] at opt 0 / cse off
    for (int cse = 0; cse < 2; cse++) {
        IRVisitor v;
        if (pre)
            failing_init(v, pre);
        st[cse] = init_status(v, ins, outs, cse == 1, 0);
        if (st[cse] == "ok") {
            ir[cse] = canonical_ir(v.ir);
            if (cse == 0)
                for (auto &xs : calls) {
                    std::vector<double> r(outs.size());
                    v.call(r.data(), xs.data());
                    res0.push_back(r);
                }
        } else
            stat("init_failed_" + st[cse]);
        // reinit_fresh (status part): a fresh visitor must report the same
        if (pre) {
            IRVisitor f;
            std::string fs = init_status(f, ins, outs, cse == 1, 0);
            if (fs != st[cse] && oracle == "ok")
                oracle = "FAIL:reinit_fresh:init after a failed init gives " + st[cse] + ", a fresh visitor " + fs + " (cse=" + tostr(cse) + ")";
            if (fs == "ok" && st[cse] == "ok") {
                std::string fir = canonical_ir(f.ir);
                if (fir != ir[cse] && oracle == "ok")
                    oracle = "FAIL:reinit_fresh:generated code differs from a fresh visitor's (cse=" + tostr(cse) + "): " + ir[cse].substr(0, 200)
                             + " vs " + fir.substr(0, 200);
            }
        }
    }
    // cse data as the visitor saw it
    std::vector<std::string> od, rd, red;
    for (auto &e : outs)
        od.push_back(xdump(*e));
    vec_pair repl;
    vec_basic reduced;
    try {
        SymEngine::cse(repl, reduced, outs);
    } catch (const std::exception &) {
        repl.clear();
        reduced.clear();
    }
    for (auto &p : repl)
        rd.push_back(down_cast<const Symbol &>(*p.first).get_name() + "=" + xdump(*p.second));
    for (auto &e : reduced)
        red.push_back(xdump(*e));
    stat("cse_replacements", (long)repl.size());
    bool rewritten = false;
    for (auto &e : outs)
        rewritten = rewritten || has_rewritten(*e);
    if (rewritten)
        stat("ops_with_rewritten_kinds");

    std::vector<std::string> vb, tolv, spec;
    if (st[0] == "ok") {
        // ---- references for every call
        std::vector<std::vector<Ref>> refs(calls.size(), std::vector<Ref>(outs.size()));
        std::vector<std::vector<char>> have(calls.size(), std::vector<char>(outs.size(), 0));
        for (size_t ci = 0; ci < calls.size(); ci++) {
            Env env;
            for (size_t k = 0; k < ins_n.size(); k++)
                env[ins_n[k]] = calls[ci][k];
            for (size_t k = 0; k < outs.size(); k++) {
                try {
                    RefEval re(&env, true);
                    refs[ci][k] = re.eval(*outs[k]);
                    have[ci][k] = 1;
                } catch (Unsupported &) {
                    stat("accuracy_no_reference");
                }
            }
        }
        for (size_t k = 0; k < outs.size(); k++) {
            vb.push_back(bits(res0[0][k]));
            long t = 0;
            if (have[0][k]) {
                Verdict vd = judge(refs[0][k], res0[0][k]);
                if (!vd.discarded) {
                    LD scale = std::max(fabsl(refs[0][k].v), (LD)1e-300L);
                    LD allow = 4 * refs[0][k].e + 8 * EPS * scale;
                    t = (long)ceill(allow / (2 * EPS * scale)) + 4;
                    if (t > 4000000)
                        t = 4000000;
                }
            }
            tolv.push_back(tostr(t));
        }
        // ---- every configuration: one init, all calls, reload
        for (unsigned lvl : levels)
            for (int cse = 0; cse < 2; cse++) {
                LLVMDoubleVisitor v;
                if (pre)
                    failing_init(v, pre);
                std::string s = init_status(v, ins, outs, cse == 1, lvl);
                if (s != st[cse]) {
                    if (oracle == "ok")
                        oracle = "FAIL:status_agree:init at opt " + tostr(lvl) + " cse=" + tostr(cse) + " gives " + s + ", at opt 0 " + st[cse];
                    continue;
                }
                if (s != "ok") {
                    if (cse == 1 && oracle == "ok")
                        oracle = "FAIL:status_agree:init with cse throws " + s + " although it succeeds without cse";
                    continue;
                }
                stat("configs_run");
                LLVMDoubleVisitor w;
                w.loads(v.dumps());
                for (size_t ci = 0; ci < calls.size(); ci++) {
                    std::vector<double> r(outs.size()), r2(outs.size());
                    v.call(r.data(), calls[ci].data());
                    w.call(r2.data(), calls[ci].data());
                    stat("reloads_checked");
                    for (size_t k = 0; k < outs.size(); k++) {
                        if (!same_bits(r[k], r2[k]) && oracle == "ok")
                            oracle = "FAIL:reload_bitwise:output " + tostr(k) + " opt " + tostr(lvl) + " cse=" + tostr(cse) + " compiled=" + bits(r[k])
                                     + " reloaded=" + bits(r2[k]);
                        if (lvl == 0 && cse == 0 && pre && !same_bits(r[k], res0[ci][k]) && oracle == "ok")
                            oracle = "FAIL:reinit_fresh:output " + tostr(k) + " differs between two identical initialisations";
                        if (!have[ci][k])
                            continue;
                        Verdict vd = judge(refs[ci][k], r[k]);
                        if (vd.discarded) {
                            stat("accuracy_discarded_illconditioned");
                            continue;
                        }
                        stat("accuracy_checked");
                        if (!vd.ok && oracle == "ok")
                            oracle = std::string("FAIL:") + (cse ? "cse_agree" : (lvl ? "opt_agree" : "llvm_accuracy")) + ":output " + tostr(k) + " opt "
                                     + tostr(lvl) + " cse=" + tostr(cse) + " " + vd.why + " (opt 0, no cse gives " + tostr(res0[ci][k]) + ")";
                    }
                }
            }
        // ---- reinit_fresh, value part: a fresh visitor gives the bits of the one that had a failed init before
        if (pre) {
            LLVMDoubleVisitor f;
            if (init_status(f, ins, outs, false, 0) == "ok")
                for (size_t ci = 0; ci < calls.size(); ci++) {
                    std::vector<double> r(outs.size());
                    f.call(r.data(), calls[ci].data());
                    for (size_t k = 0; k < outs.size(); k++)
                        if (!same_bits(r[k], res0[ci][k]) && oracle == "ok")
                            oracle = "FAIL:reinit_fresh:output " + tostr(k) + " after a failed init " + bits(res0[ci][k]) + ", fresh visitor " + bits(r[k]);
                }
        }
        // ---- eval_double of the substituted expression
        for (size_t ci = 0; ci < calls.size(); ci++)
            for (size_t k = 0; k < outs.size(); k++) {
                if (!have[ci][k])
                    continue;
                try {
                    map_basic_basic sub;
                    for (size_t j = 0; j < ins_n.size(); j++)
                        sub[symbol(ins_n[j])] = real_double(calls[ci][j]);
                    double ed = eval_double(*outs[k]->subs(sub));
                    Verdict ve = judge(refs[ci][k], ed);
                    Verdict vl = judge(refs[ci][k], res0[ci][k]);
                    stat("eval_double_compared");
                    if (!ve.discarded && ve.ok && !vl.ok && oracle == "ok")
                        oracle = "FAIL:llvm_vs_eval:output " + tostr(k) + " eval_double(subs)=" + tostr(ed) + " but compiled code gives " + tostr(res0[ci][k]);
                } catch (const std::exception &) {
                    stat("eval_double_subs_threw");
                }
            }
        // ---- float / long double visitors (opt 2, no cse), first call
        {
            LLVMFloatVisitor fv;
            if (init_status(fv, ins, outs, false, 2) == "ok") {
                std::vector<float> fx(calls[0].begin(), calls[0].end()), fr(outs.size());
                fv.call(fr.data(), fx.data());
                for (size_t k = 0; k < outs.size(); k++) {
                    const Ref &rf = refs[0][k];
                    if (!have[0][k] || rf.ill || !std::isfinite((double)rf.v))
                        continue;
                    LD scale = std::max(fabsl(rf.v), (LD)1e-30L);
                    LD amp = rf.e / (EPS * scale);
                    if (amp > 1e4L || fabsl(rf.v) > 1e12L || (rf.v != 0 && fabsl(rf.v) < 1e-12L)) {
                        stat("float_discarded");
                        continue;
                    }
                    // constants and inputs are themselves rounded to float (not modelled by the double reference):
                    // a coarse sanity bound, enough to catch a wrong function / operand order in the float instantiation
                    LD allow = (8 * amp + 64) * 5.96e-8L * scale + 2e-2L * scale + 1e-30L;
                    stat("float_checked");
                    if (!(fabsl((LD)fr[k] - rf.v) <= allow) && oracle == "ok")
                        oracle = "FAIL:float_visitor:output " + tostr(k) + " got " + tostr(fr[k]) + " ref " + tostr((double)rf.v);
                }
            } else
                stat("float_init_failed");
        }
#ifdef SYMENGINE_HAVE_LLVM_LONG_DOUBLE
        {
            LLVMLongDoubleVisitor lv;
            std::string ls = init_status(lv, ins, outs, false, 2);
            if (ls == "ok") {
                std::vector<long double> lx(calls[0].begin(), calls[0].end()), lr(outs.size());
                lv.call(lr.data(), lx.data());
                for (size_t k = 0; k < outs.size(); k++) {
                    if (!have[0][k])
                        continue;
                    Verdict vd = judge(refs[0][k], (double)lr[k]);
                    if (vd.discarded)
                        continue;
                    stat("longdouble_checked");
                    if (!vd.ok && oracle == "ok")
                        oracle = "FAIL:longdouble_visitor:output " + tostr(k) + " " + vd.why;
                }
            } else
                stat("longdouble_init_" + ls); // Rational / Constant leaves need MPFR
        }
#endif
        // special-function operand values for the model run (first call)
        std::vector<double> vals = calls[0];
        for (auto &r : outs)
            collect_special(*r, [&](const Basic &b) { return plain_value(b.rcp_from_this(), ins, vals); }, spec);
    }
    return "st=" + st[0] + ";st1=" + st[1] + ";ir0=" + ir[0] + ";ir1=" + ir[1] + ";o=" + join(od, ",") + ";r=" + join(rd, ",") + ";d=" + join(red, ",")
           + ";v=" + join(vb, ",") + ";tol=" + join(tolv, ",") + ";sp=" + join(spec, ",") + ";rw=" + (rewritten ? "1" : "0");
}
#endif
