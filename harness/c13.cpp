// C13: LambdaRealDoubleVisitor histories  init / call / init / call ...  on ONE visitor object.
//
// op line:  hist <step>;<step>;...
//   step  I <cse 0|1> <inputs: names joined by ',' or -> | <output dump> , <output dump> ...
//         C <hex bits of the input values joined by ',' or ->
// impl output: per step, joined by ';'
//   I|<ok or E:..>|<outputs, real iteration order, joined by ','>|<name=dump,... replacements>|<reduced exprs joined by ','>
//   C|<bits of outputs joined by ','>|<special-function table>
// (the replacement list / reduced expressions are what SymEngine::cse returns for the outputs; cse itself is C37)
//
// oracles (independent of the Lean model), all evaluated on the real objects:
//   lambda_accuracy  every output vs a long-double evaluation of the *original* output expression
//   cse_agree        a fresh visitor with the other cse setting gives the same values (condition-scaled tolerance)
//   reinit_fresh     a fresh visitor initialised with the same arguments behaves identically (bit-identical values,
//                    same exception or none)
//   lambda_vs_eval   eval_double of the substituted expression agrees (condition-scaled tolerance)
#include "evalfam.h" // (evalfam.h rev 2: the build stamp only hashes this file)
#include <symengine/lambda_double.h>
#include <symengine/real_double.h>

using namespace SymEngine;
using namespace evf;

namespace SymEngine
{
void cse(vec_pair &replacements, vec_basic &reduced_exprs, const vec_basic &exprs);
}

static std::string trim(const std::string &s)
{
    size_t a = s.find_first_not_of(' '), b = s.find_last_not_of(' ');
    return a == std::string::npos ? "" : s.substr(a, b - a + 1);
}

static const char *POOL[] = {"x", "y", "z", "x0", "x1"};

void hx_gen(Rng &rng, const std::string &tier)
{
    long n = tier == "thorough" ? 6000 : 700;
    // boundary histories first (minimised past findings)
    emit("hist I 1 x0,y | (+ 0 ((Cos (+ 1 ((s y) 1))) 1) ((Sin (+ 1 ((s y) 1))) 1));C 4059000000000000,3fe0000000000000", "fixed-unused-input-named-x0");
    emit("hist I 1 x,y | (+ 0 ((Cos (+ 0 ((s x) 1) ((s y) 1))) 1) ((Sin (+ 0 ((s x) 1) ((s y) 1))) 1) ((s z) 1));I 0 y | (+ 0 ((s x0) 1) ((s y) 1))",
         "fixed-failed-init-then-init");
    emit("hist I 0 x | (* 2 ((k E) (s x)));C 4059000000000000", "fixed-mul-exp");
    // a cse temporary name (x0 / x1) that is an input occurring only as a bare output
    emit("hist I 1 x0,y | (s x0) , (+ 0 ((Cos (Sin (s y))) 1) ((Sin (s y)) 1));C 3fe8000000000000,3ff4000000000000", "fixed-bare-x0-output");
    emit("hist I 1 x0,y | (+ 0 ((Cos (Sin (s y))) 1) ((Sin (s y)) 1)) , (s x0);C 3fe8000000000000,3ff4000000000000", "fixed-bare-x0-output");
    emit("hist I 1 x0,x1,y | (+ 0 ((Cos (Sin (s y))) 1) ((* 1 ((Sin (s y)) 1) ((s x0) 1)) 1)) , (+ 0 ((^ (+ 1 ((s y) 1)) 1/2) 1) ((^ (k E) (+ 1 ((s y) 1))) 1)) , (s x1);C 3fe8000000000000,3ff4000000000000,4004000000000000",
         "fixed-bare-x1-output");
    emit("hist I 0 x | (Sign (s x)) , (Floor (s x)) , (Ceiling (s x)) , (Truncate (s x));C c004000000000000;C 0000000000000000;C 400c000000000000",
         "fixed-rounding-fns");
    // ---- cse temporary-name family: inputs named like cse temporaries (x0, x1, x2) that are (a) bare outputs,
    // (b) used inside exactly one output, (c) unused, next to outputs that share subexpressions so that cse invents
    // temporaries; cse on and off.  (A cse that does not reserve such a name binds the output to the temporary.)
    long nfam = tier == "thorough" ? 600 : 90;
    n -= nfam;
    for (long i = 0; i < nfam; i++) {
        TreeGen g(rng, true);
        static const char *TN[] = {"x0", "x1", "x2"};
        for (auto nm : {"x0", "x1", "x2", "y", "z"})
            g.env[nm] = 0.25 * (double)rng.range(-10, 10) + 0.125;
        g.syms = {symbol("y"), symbol("z")};
        std::vector<std::string> ins = {"y", "z"};
        vec_basic outs;
        std::string roles;
        RCP<const Basic> sh1 = g.nonnum(1 + (int)rng.below(2)), sh2 = g.nonnum(1);
        int nshared = 1 + (int)rng.below(2); // one or two temporaries
        bool any = false;
        for (int k = 0; k < 3; k++) {
            unsigned role = rng.below(5); // 0 absent, 1 bare output, 2 inside one output, 3 unused input, 4 bare and inside
            if (k == 2 && !any && role == 0)
                role = 1;
            if (role == 0)
                continue;
            any = true;
            ins.push_back(TN[k]);
            RCP<const Basic> xk = symbol(TN[k]);
            roles += std::string(TN[k]) + (role == 1 ? "b" : role == 2 ? "i" : role == 3 ? "u" : "bi");
            if (role == 1 || role == 4)
                outs.push_back(xk);
            if (role == 2 || role == 4)
                outs.push_back(add(mul(xk, sin(sh1)), cos(sh1)));
        }
        outs.push_back(add(mul(g.small_rat(), sin(sh1)), cos(sh1)));
        if (nshared == 2)
            outs.push_back(add(tanh(sh2), mul(g.small_rat(), atan(sh2))));
        for (size_t k = ins.size(); k > 1; k--)
            std::swap(ins[k - 1], ins[rng.below(k)]);
        for (size_t k = outs.size(); k > 1; k--)
            std::swap(outs[k - 1], outs[rng.below(k)]);
        std::vector<std::string> od, xs;
        for (auto &e : outs)
            od.push_back(vsexp::dump(*e));
        for (auto &nm : ins)
            xs.push_back(bits(g.env[nm]));
        bool cse = rng.coin(3, 4);
        std::string hist = std::string("I ") + (cse ? "1 " : "0 ") + join(ins, ",") + " | " + join(od, " , ") + ";C " + join(xs, ",");
        if (rng.coin(1, 3)) // re-initialise the same visitor with the other setting
            hist += std::string(";I ") + (cse ? "0 " : "1 ") + join(ins, ",") + " | " + join(od, " , ") + ";C " + join(xs, ",");
        std::string tag = "tmpname";
        if (roles.find('b') != std::string::npos)
            tag += "-bare";
        if (roles.find('i') != std::string::npos)
            tag += "-inside";
        if (roles.find('u') != std::string::npos)
            tag += "-unused";
        emit("hist " + hist, tag + (cse ? "-I1" : "-I0"));
    }
    for (long i = 0; i < n; i++) {
        TreeGen g(rng, true);
        // environment for every pool symbol
        for (auto nm : POOL)
            g.env[nm] = 0.25 * (double)rng.range(-12, 12) + (rng.coin() ? 0.125 : 0.0) + (rng.coin(1, 6) ? 1e-3 * (double)rng.range(1, 9) : 0.0);
        std::string hist;
        int nsteps_init = 1 + (int)rng.below(3);
        std::string tag;
        for (int s = 0; s < nsteps_init; s++) {
            // inputs: random non-empty subset in random order
            std::vector<std::string> ins;
            for (auto nm : POOL)
                if (rng.coin(3, 5))
                    ins.push_back(nm);
            if (ins.empty())
                ins.push_back("x");
            for (size_t k = ins.size(); k > 1; k--)
                std::swap(ins[k - 1], ins[rng.below(k)]);
            // symbols the outputs may use: a non-empty subset of the inputs
            g.syms.clear();
            for (auto &nm : ins)
                if (rng.coin(3, 4))
                    g.syms.push_back(symbol(nm));
            if (g.syms.empty())
                g.syms.push_back(symbol(ins[0]));
            int nout = 1 + (int)rng.below(4);
            bool cse = rng.coin();
            // shared subexpressions make CSE do something
            RCP<const Basic> sh1 = g.nonnum(2), sh2 = g.nonnum(1);
            vec_basic outs;
            for (int o = 0; o < nout; o++) {
                RCP<const Basic> e;
                unsigned k = rng.below(6);
                try {
                    if (k == 0)
                        e = g.expr(1 + (int)rng.below(3));
                    else if (k == 1)
                        e = add(mul(g.small_rat(), sin(sh1)), g.expr(1));
                    else if (k == 2)
                        e = mul(add(sh1, g.small_rat()), add(sh2, g.expr(1)));
                    else if (k == 3)
                        e = add(cos(sh1), mul(sh2, sh1));
                    else if (k == 4)
                        e = pow(E, g.fit(mul(sh2, g.small_rat()), -6, 6));
                    else
                        e = add(sh2, g.expr(2));
                    if (!g.good(e))
                        e = g.expr(1 + (int)rng.below(2));
                } catch (const std::exception &) {
                    e = g.leaf();
                }
                outs.push_back(e);
            }
            std::string kind = "ok";
            if (rng.coin(1, 12)) { // an output mentions a symbol that is not an input
                std::string missing;
                for (auto nm : POOL)
                    if (std::find(ins.begin(), ins.end(), nm) == ins.end())
                        missing = nm;
                if (!missing.empty()) {
                    outs[rng.below(outs.size())] = add(outs[0], symbol(missing));
                    kind = "missing-symbol";
                }
            } else if (rng.coin(1, 16)) { // a node kind the visitor does not implement
                outs[rng.below(outs.size())] = add(outs[0], lambertw(g.syms[0]));
                kind = "unsupported-node";
            }
            std::vector<std::string> od;
            for (auto &e : outs)
                od.push_back(vsexp::dump(*e));
            if (!hist.empty())
                hist += ";";
            hist += std::string("I ") + (cse ? "1 " : "0 ") + join(ins, ",") + " | " + join(od, " , ");
            tag += (cse ? "I1" : "I0");
            if (kind != "ok") {
                tag += "!" + kind;
                continue; // never call after a failed init (state is unspecified); next step re-initialises
            }
            int ncall = 1 + (int)rng.below(2);
            for (int c = 0; c < ncall; c++) {
                std::vector<std::string> xs;
                for (auto &nm : ins) {
                    double v = g.env[nm];
                    if (c > 0)
                        v += 0.03125 * (double)rng.range(-4, 4);
                    xs.push_back(bits(v));
                }
                hist += ";C " + join(xs, ",");
                tag += "C";
            }
        }
        emit("hist " + hist, tag.size() > 24 ? tag.substr(0, 24) : tag);
    }
}

struct Step {
    bool is_init;
    bool cse;
    std::vector<std::string> ins;
    vec_basic outs;
    std::vector<double> xs;
};

static Step parse_step(const std::string &st)
{
    Step s;
    std::string t = trim(st);
    if (t.size() < 2)
        throw std::runtime_error("bad step");
    if (t[0] == 'C') {
        s.is_init = false;
        std::string r = trim(t.substr(1));
        if (r != "-")
            for (auto &h : split(r, ','))
                s.xs.push_back(vsexp::hex_dbl(h));
        return s;
    }
    if (t[0] != 'I')
        throw std::runtime_error("bad step");
    s.is_init = true;
    size_t bar = t.find('|');
    std::vector<std::string> head = split(trim(t.substr(1, bar - 1)), ' ');
    s.cse = head.at(0) == "1";
    if (head.at(1) != "-")
        s.ins = split(head.at(1), ',');
    for (auto &d : split(t.substr(bar + 1), ','))
        s.outs.push_back(vsexp::parse(trim(d)));
    return s;
}

static vec_basic syms_of(const std::vector<std::string> &names)
{
    vec_basic v;
    for (auto &n : names)
        v.push_back(symbol(n));
    return v;
}

// value of `arg` as the closures compute it: a plain lambda visitor over the given names/values
static double lambda_value(const RCP<const Basic> &arg, const vec_basic &names, const std::vector<double> &vals)
{
    LambdaRealDoubleVisitor v;
    v.init(names, {arg}, false);
    double out;
    v.call(&out, vals.data());
    return out;
}

static std::string init_status(LambdaRealDoubleVisitor &v, const vec_basic &ins, const vec_basic &outs, bool cse)
{
    try {
        v.init(ins, outs, cse);
        return "ok";
    } catch (const SymEngine::VerifAssertError &) {
        return "E:Assert";
    } catch (const std::exception &e) {
        return exc_name(e);
    }
}

std::string hx_run(const std::string &op, std::string &oracle)
{
    if (op.compare(0, 5, "hist ") != 0)
        throw std::runtime_error("bad op");
    std::vector<std::string> steps = split(op.substr(5), ';');
    LambdaRealDoubleVisitor v; // the visitor under test lives through the whole history
    std::vector<std::string> out;
    Step cur;
    bool have = false, cur_ok = false;
    vec_pair cur_repl;
    vec_basic cur_reduced;
    for (auto &st : steps) {
        Step s = parse_step(st);
        if (s.is_init) {
            cur = s;
            have = true;
            vec_basic ins = syms_of(s.ins);
            std::string status = init_status(v, ins, s.outs, s.cse);
            cur_ok = status == "ok";
            stat(s.cse ? "init_cse" : "init_plain");
            if (!cur_ok)
                stat("init_failed_" + status);
            // reinit_fresh, exception part
            {
                LambdaRealDoubleVisitor f;
                std::string fs = init_status(f, ins, s.outs, s.cse);
                if (fs != status && oracle == "ok")
                    oracle = "FAIL:reinit_fresh:init on the used visitor gives " + status + ", on a fresh visitor " + fs;
            }
            std::vector<std::string> od, rd, red;
            for (auto &e : s.outs)
                od.push_back(odump(*e));
            cur_repl.clear();
            cur_reduced.clear();
            if (s.cse) {
                try {
                    SymEngine::cse(cur_repl, cur_reduced, s.outs);
                } catch (const std::exception &) {
                    cur_repl.clear();
                    cur_reduced.clear();
                }
                for (auto &p : cur_repl)
                    rd.push_back(down_cast<const Symbol &>(*p.first).get_name() + "=" + odump(*p.second));
                for (auto &e : cur_reduced)
                    red.push_back(odump(*e));
                stat("cse_replacements", (long)cur_repl.size());
            }
            out.push_back("I|" + status + "|" + join(od, ",") + "|" + join(rd, ",") + "|" + join(red, ","));
            for (auto &e : s.outs) {
                std::map<std::string, long> kinds;
                count_kinds(*e, kinds);
                for (auto &kv : kinds)
                    stat("kind_" + kv.first, kv.second);
            }
            continue;
        }
        if (!have || !cur_ok)
            throw std::runtime_error("call without a successful init");
        if (s.xs.size() != cur.ins.size())
            throw std::runtime_error("call arity");
        std::vector<double> res(cur.outs.size());
        v.call(res.data(), s.xs.data());
        stat("calls");
        // special-function table: operand values exactly as the closures compute them
        std::vector<std::string> spec;
        {
            vec_basic names = syms_of(cur.ins);
            std::vector<double> vals = s.xs;
            vec_basic roots = cur.outs;
            if (cur.cse) {
                roots.clear();
                for (auto &p : cur_repl) {
                    roots.push_back(p.second);
                }
                // slot values, in order, each computed with the earlier slots available
                vec_basic nm2 = names;
                std::vector<double> v2 = vals;
                // replacement symbols shadow inputs of the same name (patched lookup order); put them first
                for (auto &p : cur_repl) {
                    double sv;
                    try {
                        vec_basic nm3;
                        std::vector<double> v3;
                        for (size_t k = names.size(); k < nm2.size(); k++) {
                            nm3.push_back(nm2[k]);
                            v3.push_back(v2[k]);
                        }
                        for (size_t k = 0; k < names.size(); k++) {
                            nm3.push_back(nm2[k]);
                            v3.push_back(v2[k]);
                        }
                        sv = lambda_value(p.second, nm3, v3);
                    } catch (const std::exception &) {
                        sv = 0;
                    }
                    nm2.push_back(p.first);
                    v2.push_back(sv);
                }
                for (auto &e : cur_reduced)
                    roots.push_back(e);
                vec_basic nm3;
                std::vector<double> v3;
                for (size_t k = names.size(); k < nm2.size(); k++) {
                    nm3.push_back(nm2[k]);
                    v3.push_back(v2[k]);
                }
                for (size_t k = 0; k < names.size(); k++) {
                    nm3.push_back(nm2[k]);
                    v3.push_back(v2[k]);
                }
                names = nm3;
                vals = v3;
            }
            for (auto &r : roots)
                collect_special(*r, [&](const Basic &b) { return lambda_value(b.rcp_from_this(), names, vals); }, spec);
        }
        std::vector<std::string> rb;
        for (double d : res)
            rb.push_back(bits(d));
        out.push_back("C|" + join(rb, ",") + "|" + join(spec, ","));

        // ---- oracles
        Env env;
        for (size_t k = 0; k < cur.ins.size(); k++)
            env[cur.ins[k]] = s.xs[k];
        vec_basic ins = syms_of(cur.ins);
        // reinit_fresh: same arguments on a fresh visitor -> identical bits
        {
            LambdaRealDoubleVisitor f;
            f.init(ins, cur.outs, cur.cse);
            std::vector<double> r2(cur.outs.size());
            f.call(r2.data(), s.xs.data());
            for (size_t k = 0; k < res.size(); k++)
                if (!same_bits(res[k], r2[k]) && oracle == "ok")
                    oracle = "FAIL:reinit_fresh:output " + std::to_string(k) + " re-initialised=" + bits(res[k]) + " fresh=" + bits(r2[k]);
        }
        std::vector<double> other(cur.outs.size());
        {
            LambdaRealDoubleVisitor f;
            f.init(ins, cur.outs, !cur.cse);
            f.call(other.data(), s.xs.data());
        }
        for (size_t k = 0; k < res.size(); k++) {
            Ref r;
            try {
                RefEval re(&env, true);
                r = re.eval(*cur.outs[k]);
            } catch (Unsupported &) {
                stat("accuracy_no_reference");
                continue;
            }
            Verdict vd = judge(r, res[k]);
            if (vd.discarded) {
                stat("accuracy_discarded_illconditioned");
                continue;
            }
            stat("accuracy_checked");
            if (!vd.ok && oracle == "ok")
                oracle = std::string("FAIL:lambda_accuracy:output ") + std::to_string(k) + (cur.cse ? " (cse) " : " ") + vd.why;
            Verdict vo = judge(r, other[k]);
            if (!vo.ok && oracle == "ok")
                oracle = std::string("FAIL:cse_agree:output ") + std::to_string(k) + " with cse=" + (cur.cse ? "0 " : "1 ") + vo.why
                         + " while cse=" + (cur.cse ? "1" : "0") + " gives " + tostr(res[k]);
            // eval_double of the substituted expression.  Skipped for trees containing ACot: substitution re-runs the
            // constructor acot(), whose exact special values (acot(-1) = 3*pi/4, inverse_lookup = pi/2 - atan) use the
            // branch (0, pi) while every numeric evaluator computes atan(1/x) in (-pi/2, pi/2] (finding D27, not C13).
            std::map<std::string, long> kk;
            count_kinds(*cur.outs[k], kk);
            if (kk.count("ACot")) {
                stat("eval_double_subs_skipped_acot_branch");
                continue;
            }
            try {
                map_basic_basic sub;
                for (size_t j = 0; j < cur.ins.size(); j++)
                    sub[symbol(cur.ins[j])] = real_double(s.xs[j]);
                double ed = eval_double(*cur.outs[k]->subs(sub));
                Verdict ve = judge(r, ed);
                if (!ve.ok && oracle == "ok")
                    oracle = "FAIL:lambda_vs_eval:eval_double(subs) " + ve.why;
                stat("eval_double_compared");
            } catch (const std::exception &) {
                stat("eval_double_subs_threw"); // e.g. Sign/Floor of a non-number are not handled by eval_double
            }
        }
    }
    return join(out, ";");
}
