// C19: serialisation round-trips exactly.
//
// ops (the Lean driver runs in certificate-checking mode, see lean/SymVerif/Model/CodecDrv.lean)
//   tc <n>              class table row of type code n:  <name> <NIBS flags> <impl|notimpl|unknown>   or "- range"
//   ld <hex>            Basic::loads(bytes): canonical dump of the result, or the exception token
//   rt <mode> <sexp>    e = the expression (mode "share": equal subtrees are ONE object; "plain": separate objects);
//                       output = hex of e->dumps(); oracle = loads(dumps(e)) has the same structural dump as e
//                       (doubles compared by bit pattern), is eq() to e, hashes alike, and objects shared before
//                       are shared after
//   mrt <r> <c> <sexp>… DenseMatrix(r, c, elements).dumps(); oracle = DenseMatrix::loads gives the same matrix
//   mld <hex>           DenseMatrix::loads(bytes): "<r> <c> <dump>…" or the exception token
#include "c19_gen.h"
#include <symengine/serialize-cereal.h>

using namespace SymEngine;
using namespace c19;

template <class C>
static std::string flags()
{
    std::string s;
    s += std::is_base_of<Number, C>::value ? 'N' : '-';
    s += std::is_base_of<Integer, C>::value ? 'I' : '-';
    s += std::is_base_of<Boolean, C>::value ? 'B' : '-';
    s += std::is_base_of<Set, C>::value ? 'S' : '-';
    return s;
}
static std::string class_flags(int t)
{
    switch (t) {
#define SYMENGINE_ENUM(type, Class)                                                                                    \
    case type:                                                                                                         \
        return flags<Class>();
#include "symengine/type_codes.inc"
#undef SYMENGINE_ENUM
        default:
            return "----";
    }
}

static std::string tc_row(int t)
{
    // minimal stream: header, one first-seen node of type t without payload
    std::string b = SB::hdr() + SB::u64(0x10) + std::string(1, '\x01') + std::string(1, char(t));
    std::string st;
    try {
        Basic::loads(b);
        st = "impl"; // classes without fields load from the empty payload
    } catch (SerializationError &e) {
        std::string w = e.what();
        if (w.find("TypeID out of range") != std::string::npos)
            return "- range";
        if (w.find("Unknown typeID") != std::string::npos)
            st = "unknown";
        else if (w.find("not implemented") != std::string::npos)
            st = "notimpl";
        else if (w.find("Failed to read") != std::string::npos)
            st = "impl";
        else
            st = "other:" + w;
    }
    return type_code_name((TypeID)t) + " " + class_flags(t) + " " + st;
}

static std::string mat_str(const DenseMatrix &m)
{
    std::string o = std::to_string(m.nrows()) + " " + std::to_string(m.ncols());
    vec_basic v = m.as_vec_basic();
    if (v.size() != (size_t)m.nrows() * m.ncols())
        return o + " MISMATCH " + std::to_string(v.size()); // rows*cols is not validated against the vector
    for (auto &e : v)
        o += " " + vsexp::dump(e);
    return o;
}

std::string hx_run(const std::string &line, std::string &oracle)
{
    size_t sp = line.find(' ');
    std::string op = line.substr(0, sp), rest = sp == std::string::npos ? "" : line.substr(sp + 1);
    alarm(60);
    struct Disarm {
        ~Disarm()
        {
            alarm(0);
        }
    } disarm;
    if (op == "tc")
        return tc_row(std::stoi(rest));
    if (op == "ld") {
        RCP<const Basic> l = Basic::loads(unhex(rest));
        stat("ld_ok");
        return vsexp::dump(l);
    }
    if (op == "mld") {
        DenseMatrix m = DenseMatrix::loads(unhex(rest));
        return mat_str(m);
    }
    if (op == "rt") {
        size_t sp2 = rest.find(' ');
        std::string mode = rest.substr(0, sp2), sexp = rest.substr(sp2 + 1);
        RCP<const Basic> e = xparse(sexp, mode == "share");
        std::string bytes = e->dumps();
        stat("rt_bytes", (long)bytes.size());
        RCP<const Basic> l = Basic::loads(bytes);
        std::string de = vsexp::dump(e), dl = vsexp::dump(l);
        if (de != dl)
            oracle = "FAIL:roundtrip:loads(dumps(e)) = " + dl + " but e = " + de;
        else if (!has_nan_double(*e) && !eq(*l, *e))
            oracle = "FAIL:eq:loads(dumps(e)) is not eq to e = " + de;
        else if (l->hash() != e->hash())
            oracle = "FAIL:hash:hash changes over dumps/loads for e = " + de;
        else {
            ShareCheck sc;
            sc.walk(e, l);
            if (!sc.fail.empty())
                oracle = "FAIL:sharing:" + sc.fail;
            stat("shared_slots", sc.shared);
        }
        stat(std::string("class_") + type_code_name(e->get_type_code()));
        return tohex(bytes);
    }
    if (op == "mrt") {
        auto nodes = vsexp::parse_all(rest);
        unsigned r = std::stoul(nodes.at(0).atom), c = std::stoul(nodes.at(1).atom);
        vec_basic v;
        Memo memo;
        for (size_t i = 2; i < nodes.size(); i++)
            v.push_back(xbuild(nodes[i], &memo));
        DenseMatrix m(r, c, v);
        std::string bytes = m.dumps();
        DenseMatrix l = DenseMatrix::loads(bytes);
        if (mat_str(l) != mat_str(m))
            oracle = "FAIL:matrix:loads(dumps(M)) = " + mat_str(l) + " but M = " + mat_str(m);
        else {
            ShareCheck sc;
            for (unsigned i = 0; i < r && sc.fail.empty(); i++)
                for (unsigned j = 0; j < c; j++)
                    sc.walk(m.get(i, j), l.get(i, j));
            if (!sc.fail.empty())
                oracle = "FAIL:sharing:" + sc.fail;
        }
        stat("matrices");
        return tohex(bytes);
    }
    return "bad-op";
}

static const char *special_doubles[] = {"0000000000000000", "8000000000000000", "7ff0000000000000", "fff0000000000000",
                                        "7ff8000000000000", "fff8000000000001", "7ff0000000000001", "0000000000000001",
                                        "000fffffffffffff", "3ff0000000000000", "bff0000000000000", "7fefffffffffffff"};

void hx_gen(Rng &r, const std::string &tier)
{
    fix_aslr();
    bool th = tier == "thorough";
    for (int t = 0; t < 130; t++)
        emit("tc " + std::to_string(t), "class-table");
    // doubles: every special bit pattern, alone and in both parts of a ComplexDouble
    for (auto a : special_doubles) {
        emit(std::string("rt plain (D ") + a + ")", "double-special");
        for (auto b : special_doubles)
            emit(std::string("rt plain (CD ") + a + " " + b + ")", "cdouble-special");
    }
    ExprGen g(r);
    int n = th ? 4000 : 500;
    for (int i = 0; i < n; i++) {
        RCP<const Basic> e = g.any(1 + (int)r.below(3));
        std::string d = vsexp::dump(e);
        if (d.size() > 6000)
            continue;
        std::string cls = type_code_name(e->get_type_code());
        unsigned k = r.below(10);
        if (k < 4)
            emit("rt share " + d, "rt-share");
        else if (k < 7)
            emit("rt plain " + d, "rt-plain");
        else
            emit("ld " + tohex(e->dumps()), "ld-real-dump");
    }
    // several non-real numbers in one object graph (temporaries handed to the archive)
    int nc = th ? 600 : 90;
    for (int i = 0; i < nc; i++) {
        RCP<const Basic> e;
        unsigned kind = i % 3, shape = (unsigned)(i / 3);
        try {
            e = g.multi_complex(kind, shape);
            e->dumps();
        } catch (const std::exception &) {
            continue;
        }
        std::string d = vsexp::dump(e);
        const char *tag = kind == 0 ? "multi-complex-rational" : kind == 1 ? "multi-complex-double" : "multi-complex-mixed";
        unsigned k = r.below(4);
        if (k == 0)
            emit("rt share " + d, tag);
        else if (k < 3)
            emit("rt plain " + d, tag);
        else
            emit("ld " + tohex(e->dumps()), tag);
    }
    for (int i = 0; i < (th ? 60 : 12); i++) {
        unsigned rr = 1 + r.below(3), cc = 1 + r.below(3);
        std::string line = std::to_string(rr) + " " + std::to_string(cc);
        for (unsigned k = 0; k < rr * cc; k++)
            line += " " + vsexp::dump(g.nonreal(i % 3));
        emit("mrt " + line, "multi-complex-matrix");
    }
    // matrices
    int nm = th ? 300 : 40;
    for (int i = 0; i < nm; i++) {
        unsigned rr = r.below(4), cc = r.below(4);
        if (r.coin(1, 10))
            rr = cc = 0;
        vec_basic v;
        RCP<const Basic> sharedx = g.any(2);
        std::string line = std::to_string(rr) + " " + std::to_string(cc);
        for (unsigned k = 0; k < rr * cc; k++) {
            RCP<const Basic> e = r.coin(1, 3) ? sharedx : g.any(1);
            v.push_back(e);
            line += " " + vsexp::dump(e);
        }
        if (line.size() > 8000)
            continue;
        if (r.coin(2, 3))
            emit("mrt " + line, "matrix-rt");
        else
            emit("mld " + tohex(DenseMatrix(rr, cc, v).dumps()), "matrix-ld");
    }
}
// (c19_gen.h revision 5: multi-complex family)
