// C07: arithmetic construction preserves mathematical value.
//
// Op lines (operands are canonical dumps, harness/sexp.h):
//   add A B | sub A B | mul A B | div A B | neg A | pow A n | addn A B C… | muln A B C…      exact family:
//       integer-exponent rational-function fragment; checked by the proven Lean certificate checker (NF) and by the
//       exact oracle below
//   radd … rmuln, rpow A p/q, rsqrt A, rcbrt A                                             radical family:
//       non-integer exponents; the Lean driver answers SKIP, only the numeric oracle below judges them
// hx_run rebuilds the operands structurally, applies the public constructor and returns vsexp::dump(result).
//
// Oracles (independent of the Lean side and of the library's own arithmetic):
//   exact   own evaluator over Q(i) (GMP mpq) walking the *stored fields* of operands and result; atoms (symbols,
//           constants, function applications) get pseudo-random Gaussian-rational values keyed by their dump string;
//           value(result) must equal op(value(A), value(B)) exactly at NPTS points (points where an operand or the
//           operation is undefined are discarded and counted).
//   subs    additionally (exact family) substitute random rationals for the symbols through the library's subs and
//           compare expand(result) with expand(op(operands)) by eq.
//   numeric (radical family) own evaluator over complex long double with principal-branch powers; symbols take generic
//           non-real values, numbers and pi/E their true values; relative tolerance 1e-9; points that come within
//           1e-6 of a branch cut or a singularity are discarded and counted.
#include "common.h"
#include "sexp.h"
#include <complex>
#include <cmath>
#include <set>
#include <gmp.h>
#include <symengine/subs.h>
#include <symengine/visitor.h>

using namespace SymEngine;
typedef RCP<const Basic> B;

// ------------------------------------------------------------------ exact numbers: Q and Q(i) on GMP's C API
struct MQ {
    mpq_t v;
    MQ()
    {
        mpq_init(v);
    }
    MQ(long n, unsigned long d = 1)
    {
        mpq_init(v);
        mpq_set_si(v, n, d);
        mpq_canonicalize(v);
    }
    MQ(const MQ &o)
    {
        mpq_init(v);
        mpq_set(v, o.v);
    }
    MQ &operator=(const MQ &o)
    {
        mpq_set(v, o.v);
        return *this;
    }
    ~MQ()
    {
        mpq_clear(v);
    }
    static MQ fromStr(const std::string &s)
    {
        MQ r;
        if (mpq_set_str(r.v, s.c_str(), 10) != 0)
            throw std::runtime_error("c07: bad rational " + s);
        mpq_canonicalize(r.v);
        return r;
    }
    bool isZero() const
    {
        return mpq_sgn(v) == 0;
    }
    // value as long double (53 significant bits, long double exponent range: multi-limb numbers neither overflow
    // nor underflow)
    long double toLD() const
    {
        if (mpq_sgn(v) == 0)
            return 0.0L;
        long en = 0, ed = 0;
        double dn = mpz_get_d_2exp(&en, mpq_numref(v)), dd = mpz_get_d_2exp(&ed, mpq_denref(v));
        return ldexpl((long double)dn / (long double)dd, (int)(en - ed));
    }
};
static MQ operator+(const MQ &a, const MQ &b)
{
    MQ r;
    mpq_add(r.v, a.v, b.v);
    return r;
}
static MQ operator-(const MQ &a, const MQ &b)
{
    MQ r;
    mpq_sub(r.v, a.v, b.v);
    return r;
}
static MQ operator*(const MQ &a, const MQ &b)
{
    MQ r;
    mpq_mul(r.v, a.v, b.v);
    return r;
}
static MQ operator/(const MQ &a, const MQ &b)
{
    MQ r;
    mpq_div(r.v, a.v, b.v);
    return r;
}
static bool operator==(const MQ &a, const MQ &b)
{
    return mpq_equal(a.v, b.v) != 0;
}
struct GQ {
    MQ re, im;
    GQ() {}
    GQ(const MQ &r, const MQ &i) : re(r), im(i) {}
    bool isZero() const
    {
        return re.isZero() && im.isZero();
    }
};
static GQ operator+(const GQ &a, const GQ &b)
{
    return GQ(a.re + b.re, a.im + b.im);
}
static GQ operator-(const GQ &a, const GQ &b)
{
    return GQ(a.re - b.re, a.im - b.im);
}
static GQ operator*(const GQ &a, const GQ &b)
{
    return GQ(a.re * b.re - a.im * b.im, a.re * b.im + a.im * b.re);
}
static GQ inv(const GQ &a)
{
    MQ n = a.re * a.re + a.im * a.im;
    return GQ(a.re / n, (MQ(0) - a.im) / n);
}
static bool operator==(const GQ &a, const GQ &b)
{
    return a.re == b.re && a.im == b.im;
}
static std::string gqStr(const GQ &a)
{
    char *s1 = mpq_get_str(nullptr, 10, a.re.v), *s2 = mpq_get_str(nullptr, 10, a.im.v);
    std::string o = std::string(s1) + (a.im.isZero() ? "" : std::string("+") + s2 + "i");
    free(s1);
    free(s2);
    if (o.size() > 80)
        o = o.substr(0, 77) + "...";
    return o;
}

static uint64_t strHash(const std::string &s, uint64_t salt)
{
    uint64_t h = 1469598103934665603ULL ^ (salt * 0x9E3779B97F4A7C15ULL);
    for (unsigned char c : s) {
        h ^= c;
        h *= 1099511628211ULL;
    }
    h ^= h >> 31;
    h *= 0xBF58476D1CE4E5B9ULL;
    h ^= h >> 29;
    return h;
}

// pow by an integer exponent given as decimal string; false: 0^negative
static bool gqPow(const GQ &b, long n, GQ &out)
{
    GQ base = b;
    if (n < 0) {
        if (b.isZero())
            return false;
        base = inv(b);
        n = -n;
    }
    GQ r(MQ(1), MQ(0));
    for (long k = 0; k < n; k++)
        r = r * base;
    out = r;
    return true;
}

enum Ev { EV_OK, EV_UNDEF, EV_UNSUPPORTED };

static bool intExp(const Basic &e, long &n)
{
    if (!is_a<Integer>(e))
        return false;
    const integer_class &i = down_cast<const Integer &>(e).as_integer_class();
    if (i > 4096 || i < -4096)
        return false;
    n = mp_get_si(i);
    return true;
}

// exact value of a tree at pseudo-random point `pt` (atoms keyed by dump string)
static Ev evx(const Basic &b, uint64_t pt, GQ &out)
{
    switch (b.get_type_code()) {
        case SYMENGINE_INTEGER:
        case SYMENGINE_RATIONAL:
            out = GQ(MQ::fromStr(vsexp::dump(b)), MQ(0));
            return EV_OK;
        case SYMENGINE_COMPLEX: {
            const Complex &c = down_cast<const Complex &>(b);
            out = GQ(MQ::fromStr(vsexp::rat_str(c.real_)), MQ::fromStr(vsexp::rat_str(c.imaginary_)));
            return EV_OK;
        }
        case SYMENGINE_REAL_DOUBLE:
        case SYMENGINE_COMPLEX_DOUBLE:
        case SYMENGINE_INFTY:
        case SYMENGINE_NOT_A_NUMBER:
        case SYMENGINE_REAL_MPFR:
        case SYMENGINE_COMPLEX_MPC:
            return EV_UNSUPPORTED;
        case SYMENGINE_ADD: {
            const Add &a = down_cast<const Add &>(b);
            GQ acc;
            Ev e = evx(*a.get_coef(), pt, acc);
            if (e != EV_OK)
                return e;
            for (auto &p : a.get_dict()) {
                GQ k, c;
                if ((e = evx(*p.first, pt, k)) != EV_OK)
                    return e;
                if ((e = evx(*p.second, pt, c)) != EV_OK)
                    return e;
                acc = acc + k * c;
            }
            out = acc;
            return EV_OK;
        }
        case SYMENGINE_MUL: {
            const Mul &m = down_cast<const Mul &>(b);
            GQ acc;
            Ev e = evx(*m.get_coef(), pt, acc);
            if (e != EV_OK)
                return e;
            for (auto &p : m.get_dict()) {
                long n;
                if (!intExp(*p.second, n))
                    return EV_UNSUPPORTED;
                GQ base, pw;
                if ((e = evx(*p.first, pt, base)) != EV_OK)
                    return e;
                if (!gqPow(base, n, pw))
                    return EV_UNDEF;
                acc = acc * pw;
            }
            out = acc;
            return EV_OK;
        }
        case SYMENGINE_POW: {
            const Pow &p = down_cast<const Pow &>(b);
            long n;
            if (!intExp(*p.get_exp(), n))
                return EV_UNSUPPORTED;
            GQ base;
            Ev e = evx(*p.get_base(), pt, base);
            if (e != EV_OK)
                return e;
            return gqPow(base, n, out) ? EV_OK : EV_UNDEF;
        }
        default: {
            uint64_t h = strHash(vsexp::dump(b), pt);
            long rn = (long)(h % 19) + 1, rd = (long)((h >> 8) % 7) + 1;
            if ((h >> 16) & 1)
                rn = -rn;
            long in = 0, id = 1;
            if (((h >> 20) % 3) == 0) {
                in = (long)((h >> 24) % 9) + 1;
                id = (long)((h >> 32) % 5) + 1;
                if ((h >> 40) & 1)
                    in = -in;
            }
            out = GQ(MQ(rn, rd), MQ(in, id));
            return EV_OK;
        }
    }
}

// ------------------------------------------------------------------ numeric evaluator (radical family)
typedef std::complex<long double> CL;
static long g_discard_cut = 0, g_discard_sing = 0;

static CL fixz(CL z)
{
    long double re = z.real(), im = z.imag();
    if (re == 0)
        re = 0.0L;
    if (im == 0)
        im = 0.0L; // -0.0 → +0.0 so that exact negative reals have argument +pi
    return CL(re, im);
}

// principal power; false when the point is too close to a cut/singularity to be judged
static bool cpowPrincipal(CL w, CL e, CL &out, bool &cut)
{
    w = fixz(w);
    long double a = std::abs(w);
    if (!(a > 1e-9L) || !(a < 1e1000L)) {
        cut = false;
        return false;
    }
    if (w.real() < 0 && w.imag() != 0 && std::fabs(w.imag()) < 1e-6L * std::fabs(w.real())) {
        cut = true;
        return false;
    }
    CL lg(std::log(a), std::atan2(w.imag(), w.real()));
    out = std::exp(e * lg);
    return true;
}

static bool cipow(CL w, long n, CL &out)
{
    if (n < 0) {
        if (!(std::abs(w) > 1e-9L))
            return false;
        w = CL(1) / w;
        n = -n;
    }
    CL r(1);
    for (long k = 0; k < n; k++)
        r *= w;
    out = r;
    return true;
}

// 0 ok, 1 discard, 2 unsupported
static int evn(const Basic &b, uint64_t pt, CL &out)
{
    switch (b.get_type_code()) {
        case SYMENGINE_INTEGER:
        case SYMENGINE_RATIONAL:
            out = CL(MQ::fromStr(vsexp::dump(b)).toLD(), 0);
            return 0;
        case SYMENGINE_COMPLEX: {
            const Complex &c = down_cast<const Complex &>(b);
            out = CL(MQ::fromStr(vsexp::rat_str(c.real_)).toLD(),
                     MQ::fromStr(vsexp::rat_str(c.imaginary_)).toLD());
            return 0;
        }
        case SYMENGINE_CONSTANT: {
            const std::string &n = down_cast<const Constant &>(b).get_name();
            if (n == "pi")
                out = CL(3.14159265358979323846264338327950288L, 0);
            else if (n == "E")
                out = CL(2.71828182845904523536028747135266250L, 0);
            else
                return 2;
            return 0;
        }
        case SYMENGINE_ADD: {
            const Add &a = down_cast<const Add &>(b);
            CL acc;
            int e = evn(*a.get_coef(), pt, acc);
            if (e)
                return e;
            long double scale = std::abs(acc);
            for (auto &p : a.get_dict()) {
                CL k, c;
                if ((e = evn(*p.first, pt, k)))
                    return e;
                if ((e = evn(*p.second, pt, c)))
                    return e;
                acc += k * c;
                scale = std::max(scale, std::abs(k * c));
            }
            if (std::abs(acc) < 1e-7L * scale) { // catastrophic cancellation: the point cannot be judged
                g_discard_sing++;
                return 1;
            }
            out = acc;
            return 0;
        }
        case SYMENGINE_MUL: {
            const Mul &m = down_cast<const Mul &>(b);
            CL acc;
            int e = evn(*m.get_coef(), pt, acc);
            if (e)
                return e;
            for (auto &p : m.get_dict()) {
                CL base, pw;
                if ((e = evn(*p.first, pt, base)))
                    return e;
                long n;
                if (intExp(*p.second, n)) {
                    if (!cipow(base, n, pw)) {
                        g_discard_sing++;
                        return 1;
                    }
                } else {
                    CL ex;
                    if ((e = evn(*p.second, pt, ex)))
                        return e;
                    bool cut = false;
                    if (!cpowPrincipal(base, ex, pw, cut)) {
                        (cut ? g_discard_cut : g_discard_sing)++;
                        return 1;
                    }
                }
                acc *= pw;
            }
            out = acc;
            return 0;
        }
        case SYMENGINE_POW: {
            const Pow &p = down_cast<const Pow &>(b);
            CL base;
            int e = evn(*p.get_base(), pt, base);
            if (e)
                return e;
            long n;
            if (intExp(*p.get_exp(), n)) {
                if (!cipow(base, n, out)) {
                    g_discard_sing++;
                    return 1;
                }
                return 0;
            }
            CL ex;
            if ((e = evn(*p.get_exp(), pt, ex)))
                return e;
            bool cut = false;
            if (!cpowPrincipal(base, ex, out, cut)) {
                (cut ? g_discard_cut : g_discard_sing)++;
                return 1;
            }
            return 0;
        }
        case SYMENGINE_SYMBOL:
        case SYMENGINE_FUNCTIONSYMBOL: {
            // generic non-real values of moderate size
            uint64_t h = strHash(vsexp::dump(b), pt);
            long double re = 0.3L + (long double)(h % 10007) / 10007.0L * 2.2L;
            long double im = 0.25L + (long double)((h >> 20) % 10007) / 10007.0L * 1.9L;
            if ((h >> 40) & 1)
                re = -re;
            if ((h >> 41) & 1)
                im = -im;
            out = CL(re, im);
            return 0;
        }
        default:
            return 2;
    }
}

// ------------------------------------------------------------------ the operations
struct OpSpec {
    std::string name; // add sub mul div neg pow addn muln sqrt cbrt
    bool radical;
};

static bool parseOpName(const std::string &w, OpSpec &o)
{
    static const char *names[] = {"add", "sub", "mul", "div", "neg", "pow", "addn", "muln", "sqrt", "cbrt"};
    std::string n = w;
    o.radical = false;
    if (!n.empty() && n[0] == 'r') {
        o.radical = true;
        n = n.substr(1);
    }
    for (auto s : names)
        if (n == s) {
            o.name = n;
            return true;
        }
    return false;
}

static B applyOp(const std::string &op, const vec_basic &a)
{
    if (op == "add")
        return add(a.at(0), a.at(1));
    if (op == "sub")
        return sub(a.at(0), a.at(1));
    if (op == "mul")
        return mul(a.at(0), a.at(1));
    if (op == "div")
        return div(a.at(0), a.at(1));
    if (op == "neg")
        return neg(a.at(0));
    if (op == "pow")
        return pow(a.at(0), a.at(1));
    if (op == "addn")
        return add(a);
    if (op == "muln")
        return mul(a);
    if (op == "sqrt")
        return sqrt(a.at(0));
    if (op == "cbrt")
        return cbrt(a.at(0));
    throw std::runtime_error("c07: bad op");
}

// recipe on exact values; false: undefined at this point
static bool recipeX(const std::string &op, const std::vector<GQ> &v, const vec_basic &a, GQ &out)
{
    if (op == "add")
        out = v[0] + v[1];
    else if (op == "sub")
        out = v[0] - v[1];
    else if (op == "mul")
        out = v[0] * v[1];
    else if (op == "div") {
        if (v[1].isZero())
            return false;
        out = v[0] * inv(v[1]);
    } else if (op == "neg")
        out = GQ(MQ(0), MQ(0)) - v[0];
    else if (op == "pow") {
        long n;
        if (!intExp(*a.at(1), n))
            return false;
        return gqPow(v[0], n, out);
    } else if (op == "addn") {
        GQ s;
        for (auto &x : v)
            s = s + x;
        out = s;
    } else if (op == "muln") {
        GQ s(MQ(1), MQ(0));
        for (auto &x : v)
            s = s * x;
        out = s;
    } else
        return false;
    return true;
}

// 0 ok, 1 discard
static int recipeN(const std::string &op, const std::vector<CL> &v, const vec_basic &a, CL &out)
{
    bool cut = false;
    if (op == "add")
        out = v[0] + v[1];
    else if (op == "sub")
        out = v[0] - v[1];
    else if (op == "mul")
        out = v[0] * v[1];
    else if (op == "div") {
        if (!(std::abs(v[1]) > 1e-9L)) {
            g_discard_sing++;
            return 1;
        }
        out = v[0] / v[1];
    } else if (op == "neg")
        out = -v[0];
    else if (op == "pow" || op == "sqrt" || op == "cbrt") {
        long n;
        if (op == "pow" && intExp(*a.at(1), n)) {
            if (!cipow(v[0], n, out)) {
                g_discard_sing++;
                return 1;
            }
            return 0;
        }
        CL e = op == "sqrt" ? CL(0.5L) : op == "cbrt" ? CL(1.0L / 3.0L) : v[1];
        if (!cpowPrincipal(v[0], e, out, cut)) {
            (cut ? g_discard_cut : g_discard_sing)++;
            return 1;
        }
    } else if (op == "addn") {
        CL s(0);
        for (auto &x : v)
            s += x;
        out = s;
    } else if (op == "muln") {
        CL s(1);
        for (auto &x : v)
            s *= x;
        out = s;
    }
    return 0;
}

static const int NPTS_EXACT = 4, NPTS_NUM = 6;

static void collectSymbols(const Basic &b, std::set<std::string> &out)
{
    for (auto &s : free_symbols(b))
        out.insert(down_cast<const Symbol &>(*s).get_name());
}

std::string hx_run(const std::string &line, std::string &oracle)
{
    std::vector<vsexp::Node> nodes = vsexp::parse_all(line);
    OpSpec os;
    if (nodes.size() < 2 || !nodes[0].is_atom() || !nodes[0].kids.empty() || !parseOpName(nodes[0].atom, os))
        return "bad-op";
    vec_basic args;
    for (size_t k = 1; k < nodes.size(); k++)
        args.push_back(vsexp::build(nodes[k]));
    B R;
    try {
        R = applyOp(os.name, args);
    } catch (const VerifAssertError &e) {
        if (!os.radical)
            throw;
        // A canonical-form assertion (WITH_SYMENGINE_ASSERT) fired inside the constructor: the object the release
        // build would return is not canonical.  That is property C03's subject, not a value defect; counted here.
        stat("radical_ops_canonical_assert_ignored");
        return "E:Assert";
    } catch (const std::exception &e) {
        oracle = std::string("FAIL:exception:") + exc_name(e) + " " + e.what();
        return exc_name(e);
    }
    std::string out = vsexp::dump(*R);
    stat(os.radical ? "ops_radical" : "ops_exact");

    if (!os.radical) {
        // ---- exact oracle
        int judged = 0;
        for (int pt = 0; pt < NPTS_EXACT && oracle == "ok"; pt++) {
            std::vector<GQ> v(args.size());
            bool ok = true;
            size_t nv = os.name == "pow" ? 1 : args.size();
            for (size_t k = 0; k < nv && ok; k++) {
                Ev e = evx(*args[k], pt, v[k]);
                if (e == EV_UNSUPPORTED) {
                    stat("exact_unsupported_operand");
                    ok = false;
                } else if (e == EV_UNDEF)
                    ok = false;
            }
            GQ want;
            if (!ok || !recipeX(os.name, v, args, want)) {
                stat("exact_points_discarded_undefined");
                continue;
            }
            GQ got;
            Ev e = evx(*R, pt, got);
            if (e == EV_UNSUPPORTED)
                oracle = "FAIL:value:result is outside the exact fragment (float/infinity/nan/non-integer power): " + out.substr(0, 200);
            else if (e == EV_UNDEF)
                oracle = "FAIL:value:result is undefined (division by zero) at a point where the operands are defined, point "
                         + std::to_string(pt);
            else if (!(got == want))
                oracle = "FAIL:value:result evaluates to " + gqStr(got) + " but the operation on the operand values gives "
                         + gqStr(want) + " at point " + std::to_string(pt);
            judged++;
        }
        stat("exact_points_judged", judged);
        if (judged == 0)
            stat("exact_ops_without_judged_point");
        // ---- subs oracle (through the library's own subs/expand, on symbols only)
        if (oracle == "ok") {
            std::set<std::string> syms;
            for (auto &a : args)
                collectSymbols(*a, syms);
            map_basic_basic m;
            for (auto &s : syms) {
                uint64_t h = strHash(s, 77);
                m[symbol(s)] = Rational::from_two_ints((long)(h % 23) + 2, (long)((h >> 8) % 9) + 1);
            }
            try {
                vec_basic sa;
                for (auto &a : args)
                    sa.push_back(a->subs(m));
                B want = applyOp(os.name, sa);
                B got = R->subs(m);
                std::string ws = vsexp::dump(*want), gs = vsexp::dump(*got);
                bool singular = ws.find("(oo ") != std::string::npos || ws.find("nan") != std::string::npos;
                if (singular)
                    stat("subs_points_discarded_singular");
                else {
                    stat("subs_points_judged");
                    if (!eq(*expand(got), *expand(want)))
                        oracle = "FAIL:subs:result at a rational point is " + gs.substr(0, 120) + " but the operation on the substituted operands gives "
                                 + ws.substr(0, 120);
                }
            } catch (const VerifAssertError &) {
                // subs/expand (properties C10/C09) tripped a canonical-form assertion; not this property's subject
                stat("subs_oracle_assert_in_subs_or_expand");
            } catch (const std::exception &e) {
                stat("subs_exceptions");
            }
        }
    } else {
        // ---- numeric oracle
        int judged = 0;
        for (int pt = 0; pt < NPTS_NUM && oracle == "ok"; pt++) {
            std::vector<CL> v(args.size());
            int st = 0;
            for (size_t k = 0; k < args.size() && st == 0; k++)
                st = evn(*args[k], pt, v[k]);
            if (st == 2) {
                stat("numeric_unsupported_operand");
                break;
            }
            CL want, got;
            if (st == 1 || recipeN(os.name, v, args, want)) {
                stat("numeric_points_discarded");
                continue;
            }
            int sr = evn(*R, pt, got);
            if (sr == 2) {
                oracle = "FAIL:numeric:result contains a node the numeric evaluator does not know: " + out.substr(0, 200);
                break;
            }
            if (sr == 1) {
                stat("numeric_points_discarded");
                continue;
            }
            long double scale = std::max(std::abs(want), std::abs(got));
            if (!(scale < 1e2000L) || !(scale > 1e-2000L)) {
                stat("numeric_points_discarded");
                continue;
            }
            judged++;
            if (std::abs(want - got) > 1e-9L * scale) {
                char buf[256];
                snprintf(buf, sizeof buf, "result=(%.12Lg,%.12Lg) recipe=(%.12Lg,%.12Lg) point %d", got.real(), got.imag(),
                         want.real(), want.imag(), pt);
                std::string key = "numeric";
                // Known finding: pow(pow(c,-1), b) -> c**(-b) with a *constant* base c on the negative real axis and
                // non-integer b returns the complex conjugate of the principal value.  Classified narrowly: the
                // operand is Pow(c, -1), c evaluates to a negative real, and the result is conj(recipe).
                if ((os.name == "pow" || os.name == "sqrt" || os.name == "cbrt") && is_a<Pow>(*args[0])
                    && eq(*down_cast<const Pow &>(*args[0]).get_exp(), *minus_one)) {
                    CL b0;
                    if (evn(*down_cast<const Pow &>(*args[0]).get_base(), pt, b0) == 0 && b0.real() < 0
                        && std::fabs(b0.imag()) <= 1e-12L * std::fabs(b0.real())
                        && std::abs(std::conj(want) - got) <= 1e-9L * scale)
                        key = "invpow-negreal";
                }
                oracle = "FAIL:" + key + ":" + buf;
            }
        }
        stat("numeric_points_judged", judged);
        if (judged == 0)
            stat("numeric_ops_without_judged_point");
        g_stats["numeric_discard_near_cut"] = g_discard_cut;
        g_stats["numeric_discard_near_singularity"] = g_discard_sing;
    }
    return out;
}

// ------------------------------------------------------------------ generator
static B bigInt(Rng &r)
{
    // 70..200 bit integers
    int limbs = 2 + (int)r.below(3);
    integer_class v(0);
    for (int i = 0; i < limbs; i++) {
        v = v * integer_class(4294967296UL) * integer_class(4294967296UL);
        uint64_t x = r.next();
        v = v + integer_class((unsigned long)(x >> 32)) * integer_class(4294967296UL) + integer_class((unsigned long)(x & 0xffffffffUL));
    }
    if (r.coin())
        v = -v;
    return integer(v);
}

static B smallInt(Rng &r, bool nonzero = false)
{
    long v = r.range(-9, 9);
    if (nonzero && v == 0)
        v = 7;
    return integer(v);
}

static B smallRat(Rng &r)
{
    long n = r.range(-12, 12), d = r.range(2, 9);
    if (n == 0)
        n = 5;
    return Rational::from_two_ints(n, d);
}

static B bigRat(Rng &r)
{
    B n = bigInt(r), d = bigInt(r);
    return div(n, d);
}

static B gaussian(Rng &r)
{
    RCP<const Number> re = rcp_static_cast<const Number>(r.coin(1, 3) ? smallRat(r) : smallInt(r));
    RCP<const Number> im = rcp_static_cast<const Number>(r.coin(1, 3) ? smallRat(r) : smallInt(r, true));
    return Complex::from_two_nums(*re, *im);
}

static B symOf(Rng &r)
{
    static const char *names[] = {"x", "y", "z", "w"};
    return symbol(names[r.below(4)]);
}

static B leaf(Rng &r)
{
    unsigned k = r.below(100);
    if (k < 20)
        return smallInt(r);
    if (k < 25)
        return bigInt(r);
    if (k < 36)
        return smallRat(r);
    if (k < 39)
        return bigRat(r);
    if (k < 45)
        return gaussian(r);
    if (k < 47)
        return I;
    if (k < 82)
        return symOf(r);
    if (k < 86)
        return pi;
    if (k < 89)
        return E;
    if (k < 93)
        return function_symbol("f", symbol("x"));
    if (k < 97)
        return sin(add(symbol("x"), symbol("y")));
    return function_symbol("g", {symOf(r), symbol("y")});
}

// term-count estimate (numerator, denominator) of the normal form, to keep the checker's work bounded
struct Est {
    double n, d;
};
static double capd(double x)
{
    return x > 1e12 ? 1e12 : x;
}
static double multiset(double t, long n)
{
    // number of monomials of degree n in t generators: C(n+t-1, t-1), as an estimate for (t terms)^n
    if (t <= 1)
        return 1;
    double r = 1;
    for (long k = 1; k <= n; k++)
        r = capd(r * (t - 1 + k) / k);
    return r;
}
static Est est(const Basic &b)
{
    if (is_a<Add>(b)) {
        const Add &a = down_cast<const Add &>(b);
        Est acc = {a.get_coef()->is_zero() ? 0.0 : 1.0, 1};
        for (auto &p : a.get_dict()) {
            Est t = est(*p.first);
            if (t.d == 1 && acc.d == 1)
                acc.n += t.n;
            else {
                acc.n = capd(acc.n * t.d + t.n * acc.d);
                acc.d = capd(acc.d * t.d);
            }
        }
        return acc;
    }
    if (is_a<Mul>(b)) {
        const Mul &m = down_cast<const Mul &>(b);
        Est acc = {1, 1};
        for (auto &p : m.get_dict()) {
            Est t = est(*p.first);
            long n;
            if (!intExp(*p.second, n))
                continue;
            Est pw = n < 0 ? Est{multiset(t.d, -n), multiset(t.n, -n)} : Est{multiset(t.n, n), multiset(t.d, n)};
            acc.n = capd(acc.n * pw.n);
            acc.d = capd(acc.d * pw.d);
        }
        return acc;
    }
    if (is_a<Pow>(b)) {
        const Pow &p = down_cast<const Pow &>(b);
        long n;
        if (!intExp(*p.get_exp(), n))
            return {1, 1};
        Est t = est(*p.get_base());
        return n < 0 ? Est{multiset(t.d, -n), multiset(t.n, -n)} : Est{multiset(t.n, n), multiset(t.d, n)};
    }
    return {1, 1};
}
static double opCost(const std::string &op, const vec_basic &a, long powN)
{
    Est s = {0, 1};
    if (op == "add" || op == "sub" || op == "addn") {
        for (auto &x : a) {
            Est t = est(*x);
            s.n = capd(s.n * t.d + t.n * s.d);
            s.d = capd(s.d * t.d);
        }
    } else if (op == "mul" || op == "muln") {
        s = {1, 1};
        for (auto &x : a) {
            Est t = est(*x);
            s.n = capd(s.n * t.n);
            s.d = capd(s.d * t.d);
        }
    } else if (op == "div") {
        Est t = est(*a[0]), u = est(*a[1]);
        s = {capd(t.n * u.d), capd(t.d * u.n)};
    } else if (op == "neg")
        s = est(*a[0]);
    else if (op == "pow") {
        Est t = est(*a[0]);
        s = powN < 0 ? Est{multiset(t.d, -powN), multiset(t.n, -powN)} : Est{multiset(t.n, powN), multiset(t.d, powN)};
    }
    // the checker cross-multiplies result and recipe: about (s.n * s.d) terms on each side
    return capd(s.n * s.d);
}

struct GenCtx {
    Rng &r;
    bool thorough;
    double costLimit;
    size_t lenLimit;
    std::set<std::string> seen;
    long emitted, dropped_cost, dropped_len;
    GenCtx(Rng &r_, bool th, double cl, size_t ll)
        : r(r_), thorough(th), costLimit(cl), lenLimit(ll), emitted(0), dropped_cost(0), dropped_len(0)
    {
    }
};

static bool isZeroExpr(const B &b)
{
    if (is_a_Number(*b))
        return down_cast<const Number &>(*b).is_zero();
    // identically zero but not syntactically (e.g. (x+1)**2 - x**2 - 2*x - 1): avoid as divisor
    B e = expand(b);
    return is_a_Number(*e) && down_cast<const Number &>(*e).is_zero();
}

static void emitOp(GenCtx &g, const std::string &op, const vec_basic &a, const std::string &tag, long powN = 0,
                   const std::string &prefix = "")
{
    std::string line = prefix + op;
    for (auto &x : a) {
        std::string d = vsexp::dump(*x);
        if (d.size() > g.lenLimit) {
            g.dropped_len++;
            return;
        }
        line += " " + d;
    }
    if (prefix.empty() && opCost(op, a, powN) > g.costLimit) {
        g.dropped_cost++;
        return;
    }
    if (g.seen.insert(line).second) {
        emit(line, tag);
        g.emitted++;
    }
}

// Build a random expression bottom-up through the public API; every construction step is emitted as an op.
static B build(GenCtx &g, int depth, int top)
{
    Rng &r = g.r;
    if (depth <= 0 || r.coin(1, 8))
        return leaf(r);
    std::string tag = "exact-d" + std::to_string(depth);
    unsigned k = r.below(100);
    auto sub1 = [&]() { return build(g, depth - 1, top); };
    auto subAny = [&]() { return build(g, (int)r.below(depth), top); };
    B res;
    vec_basic a;
    std::string op;
    long n = 0;
    if (k < 24) {
        op = "add";
        a = {sub1(), subAny()};
    } else if (k < 33) {
        op = "sub";
        a = {sub1(), subAny()};
    } else if (k < 57) {
        op = "mul";
        a = {sub1(), subAny()};
    } else if (k < 67) {
        op = "div";
        a = {subAny(), sub1()};
        if (isZeroExpr(a[1]))
            a[1] = symOf(r);
    } else if (k < 71) {
        op = "neg";
        a = {sub1()};
    } else if (k < 88) {
        op = "pow";
        static const long small[] = {-3, -2, -1, -1, 2, 2, 3, 4, 0, 1};
        static const long wide[] = {-6, -5, -4, -3, -2, -1, 2, 3, 4, 5, 6};
        n = depth <= 2 && r.coin(1, 3) ? wide[r.below(11)] : small[r.below(10)];
        B base = sub1();
        if (n < 0 && isZeroExpr(base))
            base = symOf(r);
        a = {base, integer(n)};
    } else if (k < 94) {
        op = "addn";
        int cnt = 3 + (int)r.below(3);
        for (int i = 0; i < cnt; i++)
            a.push_back(i == 0 ? sub1() : subAny());
    } else {
        op = "muln";
        int cnt = 3 + (int)r.below(3);
        for (int i = 0; i < cnt; i++)
            a.push_back(i == 0 ? sub1() : subAny());
    }
    if (r.coin(1, 2) && a.size() == 2 && op != "pow" && op != "div")
        std::swap(a[0], a[1]);
    emitOp(g, op, a, tag, n);
    res = applyOp(op, a);
    // keep the trees small enough for the next level
    if (vsexp::dump(*res).size() > g.lenLimit / 2) {
        Est e = est(*res);
        if (e.n * e.d > g.costLimit / 4)
            return leaf(r);
    }
    return res;
}

// ---- radical family (numeric oracle only)
static B radLeafNumber(Rng &r)
{
    static const long ints[] = {2, 3, 4, 5, 6, 8, 9, 12, 16, 18, 24, 27, 32, 36, 48, 50, 54, 64, 72, 81, 96, 100, 108, 125, 128, 144, 162, 200, 216, 243, 250, 256, 288, 324, 343, 500, 512, 648, 729, 1000, 1024, 1296, 2187, 3125, 4096, 7776, 10000, 46656, 1000000};
    long v = ints[r.below(sizeof ints / sizeof *ints)];
    unsigned k = r.below(10);
    if (k < 3)
        v = -v;
    if (k == 9) {
        // multi-limb perfect power times a small factor
        B b = pow(integer(r.range(2, 99)), integer(r.range(20, 45)));
        return r.coin() ? neg(b) : b;
    }
    if (k >= 6 && k < 9) {
        long d = ints[r.below(20)];
        return Rational::from_two_ints(v, d);
    }
    return integer(v);
}
static B radExp(Rng &r)
{
    static const long dens[] = {2, 2, 2, 3, 3, 4, 5, 6};
    long d = dens[r.below(8)];
    long n = r.range(-7, 7);
    if (n == 0)
        n = 1;
    return Rational::from_two_ints(n, d);
}
static B radBase(Rng &r, int depth)
{
    unsigned k = r.below(100);
    if (depth <= 0 || k < 30) {
        if (k < 12)
            return radLeafNumber(r);
        if (k < 14)
            return pi;
        if (k < 16)
            return E;
        if (k < 20)
            return minus_one;
        return symOf(r);
    }
    if (k < 45) // c * t products, the power_num cases
        return mul({r.coin() ? radLeafNumber(r) : smallInt(r, true), symOf(r), r.coin() ? (B)symOf(r) : (B)one});
    if (k < 55)
        return pow(radBase(r, depth - 1), integer(r.range(-3, 4)));
    if (k < 70)
        return pow(radBase(r, depth - 1), radExp(r));
    if (k < 80)
        return add(radBase(r, depth - 1), r.coin() ? smallInt(r, true) : symOf(r));
    if (k < 90)
        return mul(radBase(r, depth - 1), radBase(r, depth - 1));
    return div(one, radBase(r, depth - 1));
}
static void genRadical(GenCtx &g, int count)
{
    Rng &r = g.r;
    for (int i = 0; i < count; i++) {
        unsigned k = r.below(100);
        int depth = 1 + (int)r.below(g.thorough ? 4 : 3);
        try {
            if (k < 4) // complex coefficient: power_num keeps the product as it is (only as a top-level power: inside a
                       // product the library's own Mul::is_canonical rejects it, reported to C03)
                emitOp(g, "pow", {mul({gaussian(r), symOf(r), r.coin() ? (B)symOf(r) : (B)one}), radExp(r)}, "radical-pow", 0, "r");
            else if (k < 30)
                emitOp(g, "pow", {radBase(r, depth), radExp(r)}, "radical-pow", 0, "r");
            else if (k < 40)
                emitOp(g, "pow", {r.coin(1, 6) ? gaussian(r) : radLeafNumber(r), radExp(r)}, "radical-numpow", 0, "r");
            else if (k < 48)
                emitOp(g, "pow", {pow(radBase(r, depth - 1), radExp(r)), integer(r.range(-4, 5))}, "radical-powint", 0, "r");
            else if (k < 56)
                emitOp(g, "pow", {pow(radBase(r, depth - 1), minus_one), radExp(r)}, "radical-invpow", 0, "r");
            else if (k < 62)
                emitOp(g, "pow", {pow(symOf(r), symOf(r)), integer(r.range(-4, 5))}, "radical-sympow-int", 0, "r");
            else if (k < 68)
                emitOp(g, r.coin() ? "sqrt" : "cbrt", {radBase(r, depth)}, "radical-sqrt", 0, "r");
            else if (k < 84) {
                vec_basic a;
                int cnt = 2 + (int)r.below(3);
                bool same = r.coin();
                B base = r.coin() ? radLeafNumber(r) : radBase(r, depth - 1);
                for (int j = 0; j < cnt; j++)
                    a.push_back(pow(same ? base : (r.coin() ? radLeafNumber(r) : radBase(r, depth - 1)), radExp(r)));
                if (cnt == 2)
                    emitOp(g, r.coin(1, 4) ? "div" : "mul", a, "radical-mul", 0, "r");
                else
                    emitOp(g, "muln", a, "radical-mul", 0, "r");
            } else if (k < 92) {
                vec_basic a = {pow(radBase(r, depth - 1), radExp(r)), pow(radBase(r, depth - 1), radExp(r))};
                emitOp(g, r.coin() ? "add" : "sub", a, "radical-add", 0, "r");
            } else
                emitOp(g, "neg", {pow(radBase(r, depth), radExp(r))}, "radical-neg", 0, "r");
        } catch (const std::exception &) {
            // a construction of an *operand* failed (not the op under test): skip this case
        }
    }
}


// ---- same numeric base, symbolic exponents whose sum is rational (Mul::dict_add_term_new, existing-key path:
// the merged exponent becomes a Rational and base**sum is re-normalised by rpowrat/powrat).  Numeric oracle only.
static void genSymExp(GenCtx &g, int count)
{
    Rng &r = g.r;
    static const long bn[] = {2, 3, 1, 1, 2, -1, -2, 4, 8, 5, 3, 1, 1, -1, 12, 1, 9, -3, 6, 27, 1, 1, -1, -1, 1, 1};
    static const long bd[] = {1, 1, 2, 3, 3, 1, 1, 1, 1, 1, 2, 4, 8, 2, 1, 5, 4, 1, 1, 8, 2, 3, 1, 1, 6, 9};
    B x = symbol("x"), y = symbol("y"), z = symbol("z"), w = symbol("w");
    for (int i = 0; i < count; i++) {
        try {
            size_t bi = r.below(sizeof bn / sizeof *bn);
            B b = Rational::from_two_ints(bn[bi], bd[bi]);
            auto ratS = [&]() -> B {
                static const long dens[] = {2, 2, 3, 3, 4, 5, 6, 1};
                long d = dens[r.below(8)];
                long n = r.range(-13, 13);
                if (d > 1 && r.coin(1, 3))
                    n = -(long)(1 + r.below(d - 1)); // sums in (-1, 0): 1/q bases re-normalise to a bare radical
                return Rational::from_two_ints(n, d);
            };
            // symbolic part of the first exponent
            B e1;
            switch (r.below(6)) {
                case 0:
                    e1 = x;
                    break;
                case 1:
                    e1 = neg(x);
                    break;
                case 2:
                    e1 = sub(x, y);
                    break;
                case 3:
                    e1 = mul(integer(2), x);
                    break;
                case 4:
                    e1 = add(x, ratS());
                    break;
                default:
                    e1 = add(mul(Rational::from_two_ints(1, 2), x), y);
            }
            unsigned k = r.below(100);
            if (k < 40) {
                // b**e1 * b**(s - e1)
                vec_basic a = {pow(b, e1), pow(b, expand(sub(ratS(), e1)))};
                if (r.coin())
                    std::swap(a[0], a[1]);
                emitOp(g, "mul", a, "radical-symexp-2", 0, "r");
            } else if (k < 50) {
                // b**e1 / b**(e1 - s)
                emitOp(g, "div", {pow(b, e1), pow(b, expand(sub(e1, ratS())))}, "radical-symexp-2", 0, "r");
            } else if (k < 70) {
                // three factors: b**e1 * b**(y + s1) * b**(s2 - e1 - y)
                B e2 = add(y, ratS());
                B e3 = expand(sub(sub(ratS(), e1), y));
                vec_basic a = {pow(b, e1), pow(b, e2), pow(b, e3)};
                emitOp(g, "muln", a, "radical-symexp-3", 0, "r");
            } else if (k < 90) {
                // inside larger products
                B p1 = mul({r.coin() ? (B)z : smallInt(r, true), pow(b, e1), r.coin() ? pow(w, integer(2)) : (B)one});
                B p2 = mul({r.coin() ? (B)w : smallRat(r), pow(b, expand(sub(ratS(), e1))), r.coin() ? pow(z, Rational::from_two_ints(1, 2)) : (B)one});
                emitOp(g, "mul", {p1, p2}, "radical-symexp-in-product", 0, "r");
            } else {
                // a product already holding b**e1, multiplied by a numeric radical of the same base and by b**(s - e1)
                B p1 = mul(pow(b, e1), z);
                vec_basic a = {p1, pow(b, ratS()), pow(b, expand(sub(ratS(), e1)))};
                emitOp(g, "muln", a, "radical-symexp-in-product", 0, "r");
            }
        } catch (const std::exception &) {
            // construction of an operand failed (not the op under test)
        }
    }
}

void hx_gen(Rng &r, const std::string &tier)
{
    bool th = tier == "thorough";
    GenCtx g(r, th, th ? 200000.0 : 60000.0, th ? 3000u : 1800u);
    // fixed boundary cases
    B x = symbol("x"), y = symbol("y");
    emitOp(g, "add", {x, neg(x)}, "fixed");
    emitOp(g, "mul", {x, pow(x, minus_one)}, "fixed");
    emitOp(g, "pow", {mul({integer(2), x, y}), integer(-3)}, "fixed", -3);
    emitOp(g, "pow", {pow(x, integer(-1)), integer(-2)}, "fixed", -2);
    emitOp(g, "pow", {pow(add(x, one), integer(2)), integer(3)}, "fixed", 3);
    emitOp(g, "pow", {Complex::from_two_nums(*integer(1), *integer(1)), integer(-5)}, "fixed", -5);
    emitOp(g, "mul", {add(x, y), integer(2)}, "fixed");
    emitOp(g, "mul", {add(x, y), add(x, y)}, "fixed");
    emitOp(g, "div", {add(x, y), add(x, y)}, "fixed");
    emitOp(g, "div", {add(mul(integer(2), x), mul(integer(2), y)), integer(2)}, "fixed");
    emitOp(g, "pow", {I, integer(3)}, "fixed", 3);
    emitOp(g, "mul", {I, I}, "fixed");
    emitOp(g, "pow", {E, integer(2)}, "fixed", 2);
    emitOp(g, "mul", {pow(E, integer(2)), pow(E, integer(-2))}, "fixed");
    emitOp(g, "pow", {integer(0), integer(0)}, "fixed", 0);
    emitOp(g, "sub", {x, x}, "fixed");
    int maxDepth = th ? 6 : 4;
    int trees = th ? 4000 : 700;
    for (int i = 0; i < trees; i++) {
        int d = 1 + (int)r.below(maxDepth);
        if (i % 3 == 0)
            d = maxDepth;
        build(g, d, d);
    }
    genRadical(g, th ? 3000 : 700);
    genSymExp(g, th ? 1200 : 300);
    std::cerr << "c07 gen: emitted=" << g.emitted << " dropped_cost=" << g.dropped_cost << " dropped_len=" << g.dropped_len
              << "\n";
}
