// C28: boolean simplification preserves truth value.
//
// Op lines
//   f <sexpr>                      build the formula bottom-up through the public API and dump the result
//   pw e<k>:<sexpr>;e<k>:<sexpr>…  piecewise({(e_k, cond)…})
//   domc <elem,elem…> <conj;conj…> oracle-only (driver prints SKIP): logical_and({Contains(x, FiniteSet{elems}), conj…})
//                                  with elements among integers, p/q, pi, E, sqrt2, sqrt3 and conj := lt|le|gt|ge|eq|ne
//                                  <p/q> (x against a rational bound) | a<i> | n<i> | m<i> | or:<conj>|<conj>
// sexpr := T | F | a<i> | n<i> | m<i> | x<c | x>=c | x<=c | x>c | x=c | x!=c | x@lo,hi | x#e,e,… | (and s…) | (or s…) | (xor s…) | (not s) | (nand s…) | (nor s…) | (xnor s…)
//   a<i>/n<i> : a relational atom over its own two symbols and the complementary relational
//               (i%4: Lt(x,y)/Le(y,x), Le(x,y)/Lt(y,x), Eq(x,y)/Ne(x,y), Ne(x,0)/Eq(x,0))
//   m<i>      : Contains(z_i, Interval(0,1)) (closed for even i, open for odd i)
//   x…        : atoms over the one symbol x with integer constants: Lt(x,c)/Le(c,x), Le(x,c)/Lt(c,x), Eq/Ne(x,c),
//               x@lo,hi = Contains(x, Interval[lo,hi]), x#… = Contains(x, FiniteSet{…}) (triggers the FiniteSet-domain
//               rule of and_or<And>)
// Output: canonical dump  T F a<i> n<i> m<i> (& …) (| …) (^ …) (! s), children sorted as strings.
//
// Oracle (independent of the Lean model): the full truth table over the atoms of the recipe.  For every assignment
// (and every relevant integer value of x) the recipe's value (textbook semantics on the S-expression) must equal (1) the value of the
// result object evaluated structurally (atoms by identity, complementary atoms tied) and (2) the BooleanAtom obtained
// by substituting numbers for the symbols such that every atom takes its assigned value.
#include "common.h"
#include <algorithm>
#include <functional>
#include <symengine/logic.h>
#include <symengine/sets.h>
#include <symengine/symbol.h>
#include <symengine/integer.h>
#include <symengine/rational.h>
#include <symengine/subs.h>
#include <symengine/eval_double.h>
#include <symengine/constants.h>
#include <symengine/pow.h>
#include <cmath>

using namespace SymEngine;

static const int NREL = 8, NMEM = 4;

struct Node {
    std::string op; // "" for a leaf
    std::string leaf;
    std::vector<Node> ch;
};

// ---------------------------------------------------------------- parsing
static std::vector<std::string> tokenize(const std::string &s)
{
    std::vector<std::string> t;
    std::string cur;
    for (char c : s) {
        if (c == '(' || c == ')' || c == ' ') {
            if (!cur.empty())
                t.push_back(cur);
            cur.clear();
            if (c != ' ')
                t.push_back(std::string(1, c));
        } else
            cur.push_back(c);
    }
    if (!cur.empty())
        t.push_back(cur);
    return t;
}

static bool parseNode(const std::vector<std::string> &t, size_t &i, Node &out)
{
    if (i >= t.size())
        return false;
    if (t[i] == "(") {
        i++;
        if (i >= t.size())
            return false;
        out.op = t[i++];
        while (i < t.size() && t[i] != ")") {
            Node c;
            if (!parseNode(t, i, c))
                return false;
            out.ch.push_back(c);
        }
        if (i >= t.size())
            return false;
        i++;
        return true;
    }
    if (t[i] == ")")
        return false;
    out.leaf = t[i++];
    return true;
}

static bool parseSexpr(const std::string &s, Node &out)
{
    auto t = tokenize(s);
    size_t i = 0;
    if (!parseNode(t, i, out) || i != t.size())
        return false;
    return true;
}

// ---------------------------------------------------------------- atoms
static RCP<const Basic> sym(const std::string &p, int i)
{
    return symbol(p + std::to_string(i));
}

static RCP<const Boolean> relAtom(int i, bool neg)
{
    RCP<const Basic> x = sym("x", i), y = sym("y", i);
    switch (i % 4) {
        case 0:
            return neg ? Le(y, x) : Lt(x, y);
        case 1:
            return neg ? Lt(y, x) : Le(x, y);
        case 2:
            return neg ? Ne(x, y) : Eq(x, y);
        default:
            return neg ? Eq(x, integer(0)) : Ne(x, integer(0));
    }
}

static RCP<const Boolean> memAtom(int i)
{
    bool open = i % 2 == 1;
    return contains(sym("z", i), interval(integer(0), integer(1), open, open));
}

struct AtomTab {
    std::vector<std::pair<RCP<const Basic>, std::string>> tab;
    AtomTab()
    {
        for (int i = 0; i < NREL; i++) {
            tab.push_back({relAtom(i, false), "a" + std::to_string(i)});
            tab.push_back({relAtom(i, true), "n" + std::to_string(i)});
        }
        for (int i = 0; i < NMEM; i++)
            tab.push_back({memAtom(i), "m" + std::to_string(i)});
    }
    std::string name(const Basic &b) const
    {
        for (auto &p : tab)
            if (eq(*p.first, b))
                return p.second;
        return "";
    }
};
static const AtomTab &atoms()
{
    static AtomTab t;
    return t;
}

// ---------------------------------------------------------------- atoms over the symbol x
static bool parseLongs(const std::string &s, std::vector<long> &out)
{
    if (s.empty())
        return false;
    for (auto &p : split(s, ',')) {
        if (p.empty())
            return false;
        char *end = nullptr;
        long v = strtol(p.c_str(), &end, 10);
        if (*end)
            return false;
        if (v < -16 || v >= 48)
            return false;
        out.push_back(v);
    }
    return true;
}
struct XAtom {
    std::string op; // < >= <= > = != @ #
    std::vector<long> c;
};
static bool parseXAtom(const std::string &l, XAtom &a)
{
    if (l.size() < 3 || l[0] != 'x')
        return false;
    static const char *ops[] = {"<=", ">=", "!=", "<", ">", "=", "@", "#"};
    for (auto o : ops) {
        size_t n = strlen(o);
        if (l.compare(1, n, o) == 0) {
            a.op = o;
            a.c.clear();
            if (!parseLongs(l.substr(1 + n), a.c))
                return false;
            if (a.op == "#")
                return true;
            if (a.op == "@")
                return a.c.size() == 2 && a.c[0] < a.c[1];
            return a.c.size() == 1;
        }
    }
    return false;
}
static bool evalXAtom(const XAtom &a, long x)
{
    if (a.op == "<")
        return x < a.c[0];
    if (a.op == ">=")
        return x >= a.c[0];
    if (a.op == "<=")
        return x <= a.c[0];
    if (a.op == ">")
        return x > a.c[0];
    if (a.op == "=")
        return x == a.c[0];
    if (a.op == "!=")
        return x != a.c[0];
    if (a.op == "@")
        return a.c[0] <= x && x <= a.c[1];
    return std::find(a.c.begin(), a.c.end(), x) != a.c.end();
}
static RCP<const Boolean> buildXAtom(const XAtom &a)
{
    RCP<const Basic> x = symbol("x");
    if (a.op == "#") {
        set_basic e;
        for (long v : a.c)
            e.insert(integer(v));
        return contains(x, finiteset(e));
    }
    if (a.op == "@")
        return contains(x, interval(integer(a.c[0]), integer(a.c[1])));
    RCP<const Basic> k = integer(a.c[0]);
    if (a.op == "<")
        return Lt(x, k);
    if (a.op == ">=")
        return Ge(x, k);
    if (a.op == "<=")
        return Le(x, k);
    if (a.op == ">")
        return Gt(x, k);
    if (a.op == "=")
        return Eq(x, k);
    return Ne(x, k);
}
// canonical name of a result object that is an atom over x ("" otherwise)
static std::string xAtomName(const Basic &b)
{
    RCP<const Basic> X = symbol("x");
    auto isInt = [](const RCP<const Basic> &a, long &v) {
        if (is_a<Integer>(*a)) {
            v = down_cast<const Integer &>(*a).as_int();
            return true;
        }
        return false;
    };
    if (is_a<StrictLessThan>(b) || is_a<LessThan>(b) || is_a<Equality>(b) || is_a<Unequality>(b)) {
        const Relational &r = down_cast<const Relational &>(b);
        long c = 0;
        bool xl = eq(*r.get_arg1(), *X) && isInt(r.get_arg2(), c);
        bool xr = !xl && eq(*r.get_arg2(), *X) && isInt(r.get_arg1(), c);
        if (!xl && !xr)
            return "";
        std::string op;
        if (is_a<StrictLessThan>(b))
            op = xl ? "<" : ">";
        else if (is_a<LessThan>(b))
            op = xl ? "<=" : ">=";
        else if (is_a<Equality>(b))
            op = "=";
        else
            op = "!=";
        return "x" + op + std::to_string(c);
    }
    if (is_a<Contains>(b)) {
        const Contains &c = down_cast<const Contains &>(b);
        if (!eq(*c.get_expr(), *X))
            return "";
        RCP<const Set> s = c.get_set();
        if (is_a<Interval>(*s)) {
            const Interval &iv = down_cast<const Interval &>(*s);
            long lo, hi;
            if (iv.get_left_open() || iv.get_right_open() || !isInt(iv.get_start(), lo) || !isInt(iv.get_end(), hi))
                return "";
            return "x@" + std::to_string(lo) + "," + std::to_string(hi);
        }
        if (is_a<FiniteSet>(*s)) {
            std::vector<long> v;
            for (auto &e : down_cast<const FiniteSet &>(*s).get_container()) {
                long k;
                if (!isInt(e, k))
                    return "";
                v.push_back(k);
            }
            std::sort(v.begin(), v.end());
            std::string o = "x#";
            for (size_t i = 0; i < v.size(); i++)
                o += (i ? "," : "") + std::to_string(v[i]);
            return o;
        }
    }
    return "";
}

static bool leafOk(const std::string &l)
{
    if (!l.empty() && l[0] == 'x') {
        XAtom a;
        return parseXAtom(l, a);
    }
    if (l == "T" || l == "F")
        return true;
    if (l.size() < 2 || (l[0] != 'a' && l[0] != 'n' && l[0] != 'm'))
        return false;
    for (size_t k = 1; k < l.size(); k++)
        if (!isdigit((unsigned char)l[k]))
            return false;
    if (l.size() > 3)
        return false;
    int i = std::stoi(l.substr(1));
    return l[0] == 'm' ? i < NMEM : i < NREL;
}

// ---------------------------------------------------------------- building through the API
static bool validNode(const Node &n)
{
    if (n.op.empty())
        return leafOk(n.leaf);
    static const char *ops[] = {"and", "or", "xor", "not", "nand", "nor", "xnor"};
    bool ok = false;
    for (auto o : ops)
        if (n.op == o)
            ok = true;
    if (!ok || (n.op == "not" && n.ch.size() != 1))
        return false;
    for (auto &c : n.ch)
        if (!validNode(c))
            return false;
    return true;
}

static RCP<const Boolean> build(const Node &n)
{
    if (n.op.empty()) {
        if (n.leaf == "T")
            return boolTrue;
        if (n.leaf == "F")
            return boolFalse;
        if (n.leaf[0] == 'x') {
            XAtom a;
            parseXAtom(n.leaf, a);
            return buildXAtom(a);
        }
        int i = std::stoi(n.leaf.substr(1));
        if (n.leaf[0] == 'm')
            return memAtom(i);
        return relAtom(i, n.leaf[0] == 'n');
    }
    vec_boolean v;
    for (auto &c : n.ch)
        v.push_back(build(c));
    set_boolean s(v.begin(), v.end());
    stat("api_" + n.op);
    if (n.op == "and")
        return logical_and(s);
    if (n.op == "or")
        return logical_or(s);
    if (n.op == "nand")
        return logical_nand(s);
    if (n.op == "nor")
        return logical_nor(s);
    if (n.op == "xor")
        return logical_xor(v);
    if (n.op == "xnor")
        return logical_xnor(v);
    return logical_not(v[0]);
}

// textbook semantics of the recipe
typedef std::map<std::string, bool> Assign; // "a<i>" -> value of the positive form, "m<i>" -> value
static long g_x = 0;                        // the value of the symbol x under the current assignment
static bool evalRecipe(const Node &n, const Assign &as)
{
    if (n.op.empty()) {
        if (n.leaf == "T")
            return true;
        if (n.leaf == "F")
            return false;
        if (n.leaf[0] == 'x') {
            XAtom a;
            parseXAtom(n.leaf, a);
            return evalXAtom(a, g_x);
        }
        if (n.leaf[0] == 'n')
            return !as.at("a" + n.leaf.substr(1));
        return as.at(n.leaf);
    }
    bool all = true, any = false, par = false;
    for (auto &c : n.ch) {
        bool b = evalRecipe(c, as);
        all = all && b;
        any = any || b;
        par = par != b;
    }
    if (n.op == "and")
        return all;
    if (n.op == "or")
        return any;
    if (n.op == "nand")
        return !all;
    if (n.op == "nor")
        return !any;
    if (n.op == "xor")
        return par;
    if (n.op == "xnor")
        return !par;
    return !all; // not (one child)
}

static void collectPoints(const Node &n, std::vector<long> &pts)
{
    if (n.op.empty()) {
        if (n.leaf[0] == 'x') {
            XAtom a;
            parseXAtom(n.leaf, a);
            for (long c : a.c)
                for (long d = -1; d <= 1; d++)
                    pts.push_back(c + d);
        }
        return;
    }
    for (auto &c : n.ch)
        collectPoints(c, pts);
}
// the x values to try: every constant of the recipe and its neighbours (0 when x does not occur), thinned so that
// values x assignments stays below ~4000
static std::vector<long> xValues(std::vector<long> pts, size_t nkeys)
{
    if (pts.empty())
        pts.push_back(0);
    std::sort(pts.begin(), pts.end());
    pts.erase(std::unique(pts.begin(), pts.end()), pts.end());
    size_t cap = std::max<size_t>(3, 4096 >> nkeys);
    if (pts.size() > cap) {
        std::vector<long> t;
        for (size_t i = 0; i < cap; i++)
            t.push_back(pts[i * pts.size() / cap]);
        pts = t;
    }
    return pts;
}

static void collectAtoms(const Node &n, std::vector<std::string> &out)
{
    if (n.op.empty()) {
        if (n.leaf == "T" || n.leaf == "F" || n.leaf[0] == 'x')
            return;
        std::string k = n.leaf[0] == 'n' ? "a" + n.leaf.substr(1) : n.leaf;
        if (std::find(out.begin(), out.end(), k) == out.end())
            out.push_back(k);
        return;
    }
    for (auto &c : n.ch)
        collectAtoms(c, out);
}

// ---------------------------------------------------------------- result objects
static std::string dumpB(const RCP<const Basic> &b)
{
    if (is_a<BooleanAtom>(*b))
        return down_cast<const BooleanAtom &>(*b).get_val() ? "T" : "F";
    std::string nm = atoms().name(*b);
    if (!nm.empty())
        return nm;
    nm = xAtomName(*b);
    if (!nm.empty())
        return nm;
    std::vector<std::string> ch;
    std::string head;
    if (is_a<And>(*b)) {
        head = "&";
        for (auto &a : down_cast<const And &>(*b).get_container())
            ch.push_back(dumpB(a));
    } else if (is_a<Or>(*b)) {
        head = "|";
        for (auto &a : down_cast<const Or &>(*b).get_container())
            ch.push_back(dumpB(a));
    } else if (is_a<Xor>(*b)) {
        head = "^";
        for (auto &a : down_cast<const Xor &>(*b).get_container())
            ch.push_back(dumpB(a));
    } else if (is_a<Not>(*b)) {
        return "(! " + dumpB(down_cast<const Not &>(*b).get_arg()) + ")";
    } else
        return "?" + b->__str__();
    std::sort(ch.begin(), ch.end());
    std::string o = "(" + head;
    for (auto &c : ch)
        o += " " + c;
    return o + ")";
}

// structural value of a result object; atoms by identity.  ok=false when an unknown object is met.
static bool evalObj(const RCP<const Basic> &b, const Assign &as, bool &ok)
{
    if (is_a<BooleanAtom>(*b))
        return down_cast<const BooleanAtom &>(*b).get_val();
    std::string nm = atoms().name(*b);
    if (!nm.empty()) {
        if (nm[0] == 'n') {
            auto it = as.find("a" + nm.substr(1));
            if (it == as.end()) {
                ok = false;
                return false;
            }
            return !it->second;
        }
        auto it = as.find(nm);
        if (it == as.end()) {
            ok = false;
            return false;
        }
        return it->second;
    }
    nm = xAtomName(*b);
    if (!nm.empty()) {
        XAtom a;
        parseXAtom(nm, a);
        return evalXAtom(a, g_x);
    }
    if (is_a<And>(*b)) {
        bool r = true;
        for (auto &a : down_cast<const And &>(*b).get_container())
            r = evalObj(a, as, ok) && r;
        return r;
    }
    if (is_a<Or>(*b)) {
        bool r = false;
        for (auto &a : down_cast<const Or &>(*b).get_container())
            r = evalObj(a, as, ok) || r;
        return r;
    }
    if (is_a<Xor>(*b)) {
        bool r = false;
        for (auto &a : down_cast<const Xor &>(*b).get_container())
            r = (evalObj(a, as, ok) != r);
        return r;
    }
    if (is_a<Not>(*b))
        return !evalObj(down_cast<const Not &>(*b).get_arg(), as, ok);
    ok = false;
    return false;
}

// the C++ is_canonical demands, re-checked on every node of the result (independent re-statement)
static std::string canonProblem(const RCP<const Basic> &b)
{
    auto isConst = [](const RCP<const Boolean> &a) { return is_a<BooleanAtom>(*a); };
    if (is_a<And>(*b) || is_a<Or>(*b)) {
        bool isAnd = is_a<And>(*b);
        const set_boolean &c
            = isAnd ? down_cast<const And &>(*b).get_container() : down_cast<const Or &>(*b).get_container();
        if (c.size() < 2)
            return "fewer than two arguments in " + dumpB(b);
        for (auto &a : c) {
            if (isConst(a))
                return "constant inside " + dumpB(b);
            if (isAnd ? is_a<And>(*a) : is_a<Or>(*a))
                return "nested same kind in " + dumpB(b);
            if (c.find(logical_not(a)) != c.end())
                return "complementary pair in " + dumpB(b);
            std::string p = canonProblem(a);
            if (!p.empty())
                return p;
        }
        return "";
    }
    if (is_a<Xor>(*b)) {
        const vec_boolean &c = down_cast<const Xor &>(*b).get_container();
        if (c.size() < 2)
            return "fewer than two arguments in " + dumpB(b);
        for (size_t i = 0; i < c.size(); i++) {
            if (isConst(c[i]) || is_a<Xor>(*c[i]))
                return "constant or nested xor in " + dumpB(b);
            RCP<const Boolean> nc = logical_not(c[i]);
            for (size_t j = 0; j < c.size(); j++)
                if (j != i && (eq(*c[i], *c[j]) || eq(*nc, *c[j])))
                    return "duplicate or complementary pair in " + dumpB(b);
            std::string p = canonProblem(c[i]);
            if (!p.empty())
                return p;
        }
        return "";
    }
    if (is_a<Not>(*b)) {
        auto a = down_cast<const Not &>(*b).get_arg();
        if (isConst(a) || is_a<Not>(*a))
            return "constant or Not inside " + dumpB(b);
        return canonProblem(a);
    }
    return "";
}

// ---------------------------------------------------------------- numeric assignments
static uint64_t mix(uint64_t z)
{
    z += 0x9E3779B97F4A7C15ULL;
    z = (z ^ (z >> 30)) * 0xBF58476D1CE4E5B9ULL;
    z = (z ^ (z >> 27)) * 0x94D049BB133111EBULL;
    return z ^ (z >> 31);
}

// numbers for the symbols of atom `key` such that its positive form has value `val`; `var` picks among the ways
static void numericFor(const std::string &key, bool val, uint64_t var, map_basic_basic &d)
{
    int i = std::stoi(key.substr(1));
    auto I = [](long n) { return (RCP<const Basic>)integer(n); };
    if (key[0] == 'm') {
        RCP<const Basic> z = sym("z", i);
        bool open = i % 2 == 1;
        if (val) {
            if (open)
                d[z] = Rational::from_two_ints(1, 2 + var % 3);
            else
                d[z] = (var % 3 == 0) ? I(0) : (var % 3 == 1 ? I(1) : (RCP<const Basic>)Rational::from_two_ints(1, 2));
        } else {
            if (open)
                d[z] = (var % 4 == 0) ? I(0) : (var % 4 == 1 ? I(1) : (var % 4 == 2 ? I(2) : I(-1)));
            else
                d[z] = (var % 3 == 0) ? I(-1) : (var % 3 == 1 ? I(2) : (RCP<const Basic>)Rational::from_two_ints(3, 2));
        }
        return;
    }
    RCP<const Basic> x = sym("x", i), y = sym("y", i);
    switch (i % 4) {
        case 0: // Lt(x,y)
            if (val) {
                d[x] = I(0 - (long)(var % 3));
                d[y] = I(1);
            } else {
                d[x] = I(1);
                d[y] = I(var % 2 ? 1 : 0);
            }
            break;
        case 1: // Le(x,y)
            if (val) {
                d[x] = I(var % 2 ? 1 : 0);
                d[y] = I(1);
            } else {
                d[x] = I(1 + (long)(var % 3));
                d[y] = I(0);
            }
            break;
        case 2: // Eq(x,y)
            if (val) {
                d[x] = I(2 + (long)(var % 2));
                d[y] = I(2 + (long)(var % 2));
            } else {
                d[x] = I(var % 2 ? 1 : 2);
                d[y] = I(var % 2 ? 2 : 1);
            }
            break;
        default: // Ne(x,0)
            if (val)
                d[x] = (var % 3 == 0) ? I(3) : (var % 3 == 1 ? I(-1) : (RCP<const Basic>)Rational::from_two_ints(1, 3));
            else
                d[x] = I(0);
            d[y] = I(7);
            break;
    }
}

static Assign assignment(const std::vector<std::string> &keys, unsigned mask)
{
    Assign as;
    for (size_t k = 0; k < keys.size(); k++)
        as[keys[k]] = (mask >> k) & 1;
    return as;
}
static map_basic_basic numericAssignment(const std::vector<std::string> &keys, unsigned mask, uint64_t salt)
{
    map_basic_basic d;
    for (size_t k = 0; k < keys.size(); k++)
        numericFor(keys[k], (mask >> k) & 1, mix(salt * 1315423911ULL + mask * 131 + k), d);
    return d;
}
static std::string maskStr(const std::vector<std::string> &keys, unsigned mask)
{
    std::string o = "x=" + std::to_string(g_x) + (keys.empty() ? "" : ",");
    for (size_t k = 0; k < keys.size(); k++)
        o += (k ? "," : "") + keys[k] + "=" + (((mask >> k) & 1) ? "1" : "0");
    return o;
}

static uint64_t strHash(const std::string &s)
{
    uint64_t h = 1469598103934665603ULL;
    for (unsigned char c : s)
        h = (h ^ c) * 1099511628211ULL;
    return h;
}

// ---------------------------------------------------------------- f
static std::string runFormula(const std::string &body, std::string &oracle)
{
    Node n;
    if (!parseSexpr(body, n) || !validNode(n))
        return "bad-op";
    std::vector<std::string> keys;
    collectAtoms(n, keys);
    if (keys.size() > 8)
        return "bad-op";
    RCP<const Boolean> res = build(n);
    std::string out = dumpB(res);
    std::string cp = canonProblem(res);
    if (!cp.empty() && oracle == "ok")
        oracle = "FAIL:canonical:" + cp;
    uint64_t salt = strHash(body);
    std::vector<long> pts;
    collectPoints(n, pts);
    bool hasX = !pts.empty();
    bool shapeBad = false;
    for (long xv : xValues(pts, keys.size()))
    for (unsigned mask = 0; mask < (1u << keys.size()) && !shapeBad; mask++) {
        g_x = xv;
        Assign as = assignment(keys, mask);
        bool want = evalRecipe(n, as);
        bool ok = true;
        bool got = evalObj(res, as, ok);
        stat("assignments");
        if (!ok) {
            if (oracle == "ok")
                oracle = "FAIL:shape:result contains an object outside the recipe's atoms: " + out;
            shapeBad = true;
            break;
        }
        if (got != want && oracle == "ok")
            oracle = "FAIL:truth:recipe is " + std::to_string(want) + " but result " + out + " is "
                     + std::to_string(got) + " under " + maskStr(keys, mask);
        // numeric substitution
        map_basic_basic d = numericAssignment(keys, mask, salt);
        d[symbol("x")] = integer(xv);
        RCP<const Basic> num = res->subs(d);
        if (!is_a<BooleanAtom>(*num)) {
            if (oracle == "ok")
                oracle = "FAIL:numeric:result " + out + " does not evaluate to a constant under " + maskStr(keys, mask)
                         + ": " + num->__str__();
        } else if (down_cast<const BooleanAtom &>(*num).get_val() != want && oracle == "ok")
            oracle = "FAIL:numeric:recipe is " + std::to_string(want) + " but result " + out + " evaluates to "
                     + num->__str__() + " under " + maskStr(keys, mask);
    }
    stat("atoms_" + std::to_string(keys.size()));
    if (hasX)
        stat("with_x_atoms");
    if (out.find("x#") != std::string::npos || body.find("x#") != std::string::npos)
        stat("with_finiteset_atom");
    stat(std::string("result_") + (out[0] == '(' ? out.substr(1, 1) : (out == "T" || out == "F" ? "const" : "atom")));
    return out;
}

// ---------------------------------------------------------------- pw
static std::string runPiecewise(const std::string &body, std::string &oracle)
{
    std::vector<std::pair<int, Node>> br;
    std::vector<std::string> keys;
    std::vector<long> pts;
    for (auto &part : split(body, ';')) {
        size_t c = part.find(':');
        if (c == std::string::npos || c < 2 || part[0] != 'e')
            return "bad-op";
        Node n;
        if (!parseSexpr(part.substr(c + 1), n) || !validNode(n))
            return "bad-op";
        br.push_back({std::stoi(part.substr(1, c - 1)), n});
        collectAtoms(n, keys);
        collectPoints(n, pts);
    }
    if (keys.size() > 8)
        return "bad-op";
    PiecewiseVec vec;
    for (auto &b : br)
        vec.push_back({sym("e", b.first), build(b.second)});
    auto expected = [&](const Assign &as) {
        for (auto &b : br)
            if (evalRecipe(b.second, as))
                return b.first;
        return -1;
    };
    RCP<const Basic> res;
    stat("api_piecewise");
    try {
        res = piecewise(vec);
    } catch (DomainError &) {
        for (long xv : xValues(pts, keys.size()))
        for (unsigned mask = 0; mask < (1u << keys.size()); mask++)
            if ((g_x = xv, expected(assignment(keys, mask))) != -1 && oracle == "ok")
                oracle = "FAIL:piecewise:DomainError although branch e" + std::to_string(expected(assignment(keys, mask)))
                         + " applies under " + maskStr(keys, mask);
        throw;
    }
    std::string out;
    if (is_a<Piecewise>(*res)) {
        std::vector<std::string> parts;
        for (auto &p : down_cast<const Piecewise &>(*res).get_vec())
            parts.push_back(p.first->__str__() + ":" + dumpB(p.second));
        out = "pw " + join(parts, ";");
        // Piecewise::is_canonical, restated
        const PiecewiseVec &rv = down_cast<const Piecewise &>(*res).get_vec();
        for (size_t i = 0; i < rv.size(); i++) {
            bool bad = eq(*rv[i].second, *boolFalse) || (eq(*rv[i].second, *boolTrue) && i + 1 != rv.size());
            for (size_t j = 0; j < i; j++)
                bad = bad || eq(*rv[i].second, *rv[j].second);
            std::string cp = canonProblem(rv[i].second);
            if ((bad || !cp.empty()) && oracle == "ok")
                oracle = "FAIL:canonical:piecewise result not canonical: " + out + " " + cp;
        }
        if ((rv.empty() || (rv.size() == 1 && eq(*rv[0].second, *boolTrue))) && oracle == "ok")
            oracle = "FAIL:canonical:degenerate piecewise " + out;
    } else
        out = res->__str__();
    uint64_t salt = strHash(body);
    bool shapeBad = false;
    for (long xv : xValues(pts, keys.size()))
    for (unsigned mask = 0; mask < (1u << keys.size()) && !shapeBad; mask++) {
        g_x = xv;
        Assign as = assignment(keys, mask);
        int want = expected(as);
        int got = -1;
        bool ok = true;
        if (is_a<Piecewise>(*res)) {
            for (auto &p : down_cast<const Piecewise &>(*res).get_vec())
                if (evalObj(p.second, as, ok)) {
                    got = std::stoi(p.first->__str__().substr(1));
                    break;
                }
        } else if (is_a<Symbol>(*res) && res->__str__()[0] == 'e')
            got = std::stoi(res->__str__().substr(1));
        else
            ok = false;
        stat("assignments");
        if (!ok) {
            if (oracle == "ok")
                oracle = "FAIL:shape:unexpected piecewise result " + out;
            shapeBad = true;
            break;
        }
        if (got != want && oracle == "ok")
            oracle = "FAIL:piecewise:first true branch is e" + std::to_string(want) + " but the result " + out
                     + " selects e" + std::to_string(got) + " under " + maskStr(keys, mask);
        map_basic_basic d = numericAssignment(keys, mask, salt);
        d[symbol("x")] = integer(xv);
        std::string ns;
        try {
            ns = res->subs(d)->__str__();
        } catch (DomainError &) {
            ns = "e-1";
        }
        if (ns != "e" + std::to_string(want) && oracle == "ok")
            oracle = "FAIL:numeric:piecewise result " + out + " evaluates to " + ns + ", expected e"
                     + std::to_string(want) + " under " + maskStr(keys, mask);
    }
    return out;
}

// ---------------------------------------------------------------- domc: FiniteSet-domain rule with symbolic constants
// Oracle only.  The conjunction and the result are evaluated structurally at x = every element of the finite set and at
// a few points outside it; relationals are decided by eval_double of both sides (points closer than 1e-9 to a bound are
// skipped), membership in a FiniteSet by structural equality of the canonical objects.
static bool parseElemC(const std::string &t, RCP<const Basic> &out)
{
    if (t == "pi")
        out = pi;
    else if (t == "E")
        out = E;
    else if (t == "sqrt2")
        out = sqrt(integer(2));
    else if (t == "sqrt3")
        out = sqrt(integer(3));
    else {
        auto pq = split(t, '/');
        if (pq.size() > 2 || pq[0].empty())
            return false;
        char *end = nullptr;
        long p = strtol(pq[0].c_str(), &end, 10), q = 1;
        if (*end)
            return false;
        if (pq.size() == 2) {
            q = strtol(pq[1].c_str(), &end, 10);
            if (*end || q <= 0)
                return false;
        }
        out = Rational::from_two_ints(p, q);
    }
    return true;
}
struct ConjC {
    std::string kind; // lt le gt ge eq ne | atom name | or
    RCP<const Basic> bound;
    std::vector<ConjC> alts;
};
static bool parseConjC(const std::string &s, ConjC &c)
{
    if (s.compare(0, 3, "or:") == 0) {
        c.kind = "or";
        for (auto &p : split(s.substr(3), '|')) {
            ConjC a;
            if (!parseConjC(p, a))
                return false;
            c.alts.push_back(a);
        }
        return c.alts.size() >= 1;
    }
    if (!s.empty() && s[0] != 'x' && s != "T" && s != "F" && leafOk(s)) {
        c.kind = s;
        return true;
    }
    if (s.size() < 3)
        return false;
    c.kind = s.substr(0, 2);
    if (c.kind != "lt" && c.kind != "le" && c.kind != "gt" && c.kind != "ge" && c.kind != "eq" && c.kind != "ne")
        return false;
    return parseElemC(s.substr(2), c.bound) && is_a_Number(*c.bound);
}
static RCP<const Boolean> buildConjC(const ConjC &c, const RCP<const Basic> &x)
{
    if (c.kind == "or") {
        set_boolean s;
        for (auto &a : c.alts)
            s.insert(buildConjC(a, x));
        return logical_or(s);
    }
    if (c.kind == "lt")
        return Lt(x, c.bound);
    if (c.kind == "le")
        return Le(x, c.bound);
    if (c.kind == "gt")
        return Gt(x, c.bound);
    if (c.kind == "ge")
        return Ge(x, c.bound);
    if (c.kind == "eq")
        return Eq(x, c.bound);
    if (c.kind == "ne")
        return Ne(x, c.bound);
    int i = std::stoi(c.kind.substr(1));
    return c.kind[0] == 'm' ? memAtom(i) : relAtom(i, c.kind[0] == 'n');
}
// -1 / 0 / +1 for a < b, a == b, a > b; `amb` set when the doubles are too close to tell
static int cmpVal(const RCP<const Basic> &a, const RCP<const Basic> &b, bool &amb)
{
    if (eq(*a, *b))
        return 0;
    double da = eval_double(*a), db = eval_double(*b);
    if (std::fabs(da - db) < 1e-9) {
        amb = true;
        return 0;
    }
    return da < db ? -1 : 1;
}
static bool evalConjC(const ConjC &c, const RCP<const Basic> &xv, const Assign &as, bool &amb)
{
    if (c.kind == "or") {
        bool r = false;
        for (auto &a : c.alts)
            r = evalConjC(a, xv, as, amb) || r;
        return r;
    }
    if (c.kind[0] == 'a' || c.kind[0] == 'm')
        return as.at(c.kind);
    if (c.kind[0] == 'n' && c.kind != "ne")
        return !as.at("a" + c.kind.substr(1));
    int k = cmpVal(xv, c.bound, amb);
    if (c.kind == "lt")
        return k < 0;
    if (c.kind == "le")
        return k <= 0;
    if (c.kind == "gt")
        return k > 0;
    if (c.kind == "ge")
        return k >= 0;
    if (c.kind == "eq")
        return k == 0;
    return k != 0;
}
// structural value of a result object at x = xv
static bool evalObjC(const RCP<const Basic> &b, const RCP<const Basic> &xv, const Assign &as, bool &ok, bool &amb)
{
    if (is_a<BooleanAtom>(*b))
        return down_cast<const BooleanAtom &>(*b).get_val();
    std::string nm = atoms().name(*b);
    if (!nm.empty()) {
        auto it = as.find(nm[0] == 'n' ? "a" + nm.substr(1) : nm);
        if (it == as.end()) {
            ok = false;
            return false;
        }
        return nm[0] == 'n' ? !it->second : it->second;
    }
    map_basic_basic d;
    d[symbol("x")] = xv;
    if (is_a<StrictLessThan>(*b) || is_a<LessThan>(*b) || is_a<Equality>(*b) || is_a<Unequality>(*b)) {
        const Relational &r = down_cast<const Relational &>(*b);
        int k = cmpVal(r.get_arg1()->subs(d), r.get_arg2()->subs(d), amb);
        if (is_a<StrictLessThan>(*b))
            return k < 0;
        if (is_a<LessThan>(*b))
            return k <= 0;
        if (is_a<Equality>(*b))
            return k == 0;
        return k != 0;
    }
    if (is_a<Contains>(*b)) {
        const Contains &c = down_cast<const Contains &>(*b);
        RCP<const Basic> e = c.get_expr()->subs(d);
        if (is_a<FiniteSet>(*c.get_set())) {
            for (auto &el : down_cast<const FiniteSet &>(*c.get_set()).get_container())
                if (eq(*el, *e))
                    return true;
            return false;
        }
        ok = false;
        return false;
    }
    if (is_a<And>(*b)) {
        bool r = true;
        for (auto &a : down_cast<const And &>(*b).get_container())
            r = evalObjC(a, xv, as, ok, amb) && r;
        return r;
    }
    if (is_a<Or>(*b)) {
        bool r = false;
        for (auto &a : down_cast<const Or &>(*b).get_container())
            r = evalObjC(a, xv, as, ok, amb) || r;
        return r;
    }
    if (is_a<Xor>(*b)) {
        bool r = false;
        for (auto &a : down_cast<const Xor &>(*b).get_container())
            r = (evalObjC(a, xv, as, ok, amb) != r);
        return r;
    }
    if (is_a<Not>(*b))
        return !evalObjC(down_cast<const Not &>(*b).get_arg(), xv, as, ok, amb);
    ok = false;
    return false;
}
static void conjKeysC(const ConjC &c, std::vector<std::string> &keys, vec_basic &bounds)
{
    if (c.kind == "or") {
        for (auto &a : c.alts)
            conjKeysC(a, keys, bounds);
        return;
    }
    if (!c.bound.is_null()) {
        bounds.push_back(c.bound);
        return;
    }
    std::string k = c.kind[0] == 'n' ? "a" + c.kind.substr(1) : c.kind;
    if (std::find(keys.begin(), keys.end(), k) == keys.end())
        keys.push_back(k);
}

static std::string runDomC(const std::string &body, std::string &oracle)
{
    auto w = split(body, ' ');
    if (w.size() != 2)
        return "bad-op";
    vec_basic elems;
    for (auto &t : split(w[0], ',')) {
        RCP<const Basic> e;
        if (!parseElemC(t, e))
            return "bad-op";
        elems.push_back(e);
    }
    std::vector<ConjC> conj;
    if (w[1] != "-")
        for (auto &p : split(w[1], ';')) {
            ConjC c;
            if (!parseConjC(p, c))
                return "bad-op";
            conj.push_back(c);
        }
    RCP<const Basic> x = symbol("x");
    set_basic fe(elems.begin(), elems.end());
    set_boolean s;
    s.insert(contains(x, finiteset(fe)));
    for (auto &c : conj)
        s.insert(buildConjC(c, x));
    stat("api_and_domain_const");
    RCP<const Boolean> res = logical_and(s);
    std::vector<std::string> keys;
    vec_basic pts(elems);
    vec_basic bounds;
    for (auto &c : conj)
        conjKeysC(c, keys, bounds);
    if (keys.size() > 6)
        return "bad-op";
    for (auto &bd : bounds) { // outside points: the bounds themselves and their neighbours
        pts.push_back(bd);
        pts.push_back(add(bd, Rational::from_two_ints(1, 7)));
        pts.push_back(sub(bd, Rational::from_two_ints(1, 7)));
    }
    pts.push_back(integer(100));
    pts.push_back(integer(-100));
    std::string cp = canonProblem(res);
    if (!cp.empty() && oracle == "ok")
        oracle = "FAIL:canonical:" + cp;
    for (auto &xv : pts)
        for (unsigned mask = 0; mask < (1u << keys.size()); mask++) {
            Assign as = assignment(keys, mask);
            bool amb = false, ok = true;
            bool want = false;
            for (auto &e : elems)
                if (eq(*e, *xv))
                    want = true;
            for (auto &c : conj)
                want = evalConjC(c, xv, as, amb) && want;
            bool got = evalObjC(res, xv, as, ok, amb);
            if (amb) {
                stat("domc_ambiguous_points");
                continue;
            }
            stat("assignments");
            if (!ok) {
                if (oracle == "ok")
                    oracle = "FAIL:shape:unexpected object in the result " + res->__str__();
                return "SKIP";
            }
            if (got != want && oracle == "ok") {
                std::string ms;
                for (size_t k = 0; k < keys.size(); k++)
                    ms += "," + keys[k] + "=" + (((mask >> k) & 1) ? "1" : "0");
                oracle = "FAIL:domain:conjunction is " + std::to_string(want) + " but the result " + res->__str__()
                         + " is " + std::to_string(got) + " at x=" + xv->__str__() + ms;
            }
        }
    stat(std::string("domc_result_") + (is_a<Contains>(*res) ? "contains" : is_a<And>(*res) ? "and"
                                        : is_a<BooleanAtom>(*res) ? "const" : "other"));
    return "SKIP";
}

std::string hx_run(const std::string &line, std::string &oracle)
{
    size_t sp = line.find(' ');
    if (sp == std::string::npos)
        return "bad-op";
    std::string cmd = line.substr(0, sp), body = line.substr(sp + 1);
    if (cmd == "f")
        return runFormula(body, oracle);
    if (cmd == "pw")
        return runPiecewise(body, oracle);
    if (cmd == "domc")
        return runDomC(body, oracle);
    return "bad-op";
}

// ---------------------------------------------------------------- generation
struct Pool {
    std::vector<std::string> leaves; // atom leaves available (both polarities listed)
};

static Pool randomPool(Rng &r, int natoms)
{
    // choose `natoms` distinct atoms among 8 relational and 4 membership atoms
    std::vector<std::string> ids;
    for (int i = 0; i < NREL; i++)
        ids.push_back("a" + std::to_string(i));
    for (int i = 0; i < NMEM; i++)
        ids.push_back("m" + std::to_string(i));
    for (size_t i = ids.size(); i > 1; i--)
        std::swap(ids[i - 1], ids[r.below(i)]);
    Pool p;
    for (int k = 0; k < natoms; k++) {
        p.leaves.push_back(ids[k]);
        if (ids[k][0] == 'a')
            p.leaves.push_back("n" + ids[k].substr(1));
    }
    return p;
}

static std::string randFormula(Rng &r, const Pool &p, int depth, unsigned constPct)
{
    if (depth == 0 || r.coin(1, depth == 1 ? 2 : 4)) {
        if (r.below(100) < constPct)
            return r.coin() ? "T" : "F";
        return r.pick(p.leaves);
    }
    static const char *ops[] = {"and", "or", "xor", "not", "nand", "nor", "xnor", "and", "or", "xor"};
    std::string op = ops[r.below(10)];
    int n = op == "not" ? 1 : (int)(r.below(100) < 6 ? r.below(2) : 2 + r.below(3));
    std::string o = "(" + op;
    for (int i = 0; i < n; i++)
        o += " " + randFormula(r, p, depth - 1, constPct);
    return o + ")";
}

void hx_gen(Rng &r, const std::string &tier)
{
    bool th = tier == "thorough";
    static const char *ops[] = {"and", "or", "xor", "nand", "nor", "xnor"};
    // systematic: every binary/unary operation over a small leaf universe
    std::vector<std::string> L = {"T", "F", "a0", "n0", "a1", "m0", "(not m0)", "(xor a0 a1)", "(and a0 a1)", "(or n0 m0)"};
    for (auto &x : L)
        emit("f (not " + x + ")", "sys-unary");
    for (auto op : ops) {
        emit(std::string("f (") + op + ")", "sys-nullary");
        for (auto &x : L) {
            emit(std::string("f (") + op + " " + x + ")", "sys-unary");
            for (auto &y : L)
                emit(std::string("f (") + op + " " + x + " " + y + ")", "sys-binary");
        }
    }
    // systematic depth 2: op1(op2(l1,l2), l3)
    std::vector<std::string> L2 = {"a0", "n0", "a1", "T", "m0"};
    static const char *ops2[] = {"and", "or", "xor", "nand", "nor", "xnor", "not"};
    for (auto o1 : ops)
        for (auto o2 : ops2)
            for (auto &l1 : L2)
                for (auto &l2 : L2)
                    for (auto &l3 : L2) {
                        if (std::string(o2) == "not") {
                            if (l2 != "a0")
                                continue;
                            emit(std::string("f (") + o1 + " (not " + l1 + ") " + l3 + ")", "sys-depth2");
                        } else if (th || r.coin(1, 3))
                            emit(std::string("f (") + o1 + " (" + o2 + " " + l1 + " " + l2 + ") " + l3 + ")", "sys-depth2");
                    }
    // random formulas, depth <= 4, <= 6 distinct atoms
    int n = th ? 150000 : 12000;
    for (int i = 0; i < n; i++) {
        int natoms = 1 + (int)r.below(th && r.coin(1, 10) ? 8 : 6);
        Pool p = randomPool(r, natoms);
        int depth = 1 + (int)r.below(4);
        std::string f = randFormula(r, p, depth, r.coin(1, 3) ? 12 : 3);
        if (f[0] != '(')
            f = "(" + std::string(ops[r.below(6)]) + " " + f + " " + randFormula(r, p, depth, 5) + ")";
        emit("f " + f, "rand-depth" + std::to_string(depth));
    }
    // xor-heavy: flattening, duplicate cancellation, negated arguments
    for (int i = 0; i < (th ? 25000 : 3000); i++) {
        Pool p = randomPool(r, 1 + (int)r.below(4));
        std::function<std::string(int)> g = [&](int d) -> std::string {
            if (d == 0 || r.coin(1, 3))
                return r.below(100) < 8 ? (r.coin() ? "T" : "F") : r.pick(p.leaves);
            unsigned k = r.below(10);
            std::string op = k < 5 ? "xor" : (k < 7 ? "xnor" : (k < 9 ? "not" : (r.coin() ? "and" : "or")));
            int m = op == "not" ? 1 : 2 + (int)r.below(4);
            std::string o = "(" + op;
            for (int j = 0; j < m; j++)
                o += " " + g(d - 1);
            return o + ")";
        };
        std::string f = "(" + std::string(r.coin(3, 4) ? "xor" : "xnor");
        int m = 2 + (int)r.below(5);
        for (int j = 0; j < m; j++)
            f += " " + g(3);
        emit("f " + f + ")", "rand-xor");
    }
    // piecewise
    emit("pw e0:F", "pw-sys");
    emit("pw e0:T", "pw-sys");
    emit("pw e0:a0;e1:T", "pw-sys");
    emit("pw e0:a0;e1:a0;e2:n0", "pw-sys");
    emit("pw e0:F;e1:(and a0 n0)", "pw-sys");
    emit("pw e0:a0;e1:T;e2:a1", "pw-sys");
    for (int i = 0; i < (th ? 20000 : 2500); i++) {
        Pool p = randomPool(r, 1 + (int)r.below(4));
        int m = 1 + (int)r.below(5);
        std::string o;
        for (int j = 0; j < m; j++)
            o += (j ? ";" : "") + ("e" + std::to_string(r.below(4))) + ":" + randFormula(r, p, (int)r.below(3), 25);
        emit("pw " + o, "rand-piecewise");
    }
    // FiniteSet-domain rule of and_or<And>: one Contains(x, FiniteSet) conjunct next to conditions on x
    emit("f (and x#1,2,3)", "dom-sys");
    emit("f (and x#1,2,3 x<3)", "dom-sys");
    emit("f (and x#1,2,3 x<3 a0)", "dom-sys");
    emit("f (and x#1,2,3 x>5)", "dom-sys");
    emit("f (and x#1,2,3 (or x<2 a0))", "dom-sys");
    emit("f (and x#1,2 x#2,3)", "dom-sys");
    emit("f (and x#1,2,3 (or x#1,5 a0) x!=2)", "dom-sys");
    emit("f (and x#0,1,2,3 x@1,4 (not m0))", "dom-sys");
    emit("f (and (and x#1,2,3 a0) (and x<3 a1))", "dom-sys");
    emit("f (nand x#1,2,3 x>=2)", "dom-sys");
    emit("pw e0:(and x#1,2 x<2);e1:x#1,2;e2:T", "dom-sys");
    auto xatom = [&](bool allowFs) -> std::string {
        static const char *rel[] = {"<", ">=", "<=", ">", "=", "!="};
        unsigned k = r.below(allowFs ? 10 : 8);
        if (k < 6)
            return std::string("x") + rel[k] + std::to_string(r.range(-2, 6));
        if (k < 8) {
            long lo = r.range(-2, 4);
            return "x@" + std::to_string(lo) + "," + std::to_string(lo + 1 + (long)r.below(4));
        }
        std::string o = "x#";
        int m = 1 + (int)r.below(4);
        for (int j = 0; j < m; j++)
            o += (j ? "," : "") + std::to_string(r.range(-1, 5));
        return o;
    };
    std::function<std::string(const Pool &, int, bool)> xform = [&](const Pool &p, int d, bool allowFs) -> std::string {
        if (d == 0 || r.coin(1, 2))
            return r.coin(2, 3) ? xatom(allowFs) : r.pick(p.leaves);
        static const char *o2[] = {"or", "or", "and", "xor", "not", "nor", "nand", "xnor"};
        std::string op = o2[r.below(8)];
        int m = op == "not" ? 1 : 2 + (int)r.below(2);
        std::string o = "(" + op;
        for (int j = 0; j < m; j++)
            o += " " + xform(p, d - 1, allowFs);
        return o + ")";
    };
    for (int i = 0; i < (th ? 30000 : 4000); i++) {
        Pool p = randomPool(r, 1 + (int)r.below(3));
        // exactly one top-level FiniteSet conjunct (the modelled fragment); FiniteSet atoms below Or/Not/Xor allowed
        std::string e = "x#";
        int m = 1 + (int)r.below(5);
        for (int j = 0; j < m; j++)
            e += (j ? "," : "") + std::to_string(r.range(-1, 5));
        int k = (int)r.below(4);
        std::vector<std::string> conj;
        conj.push_back(e);
        for (int j = 0; j < k; j++) {
            std::string c = xform(p, 2, true);
            if (c.compare(0, 2, "x#") == 0) // a second top-level FiniteSet conjunct: hash-order dependent
                c = "(or " + c + " " + r.pick(p.leaves) + ")";
            conj.push_back(c);
        }
        for (size_t j = conj.size(); j > 1; j--)
            std::swap(conj[j - 1], conj[r.below(j)]);
        std::string f = "(and " + join(conj, " ") + ")";
        unsigned w = r.below(10);
        if (w == 0)
            f = "(not " + f + ")";
        else if (w == 1)
            f = "(or " + f + " " + r.pick(p.leaves) + ")";
        else if (w == 2)
            f = "(and " + f + " " + xform(p, 1, false) + ")";
        emit("f " + f, "rand-domain");
    }
    // free mixtures of x-atoms and opaque atoms (several FiniteSet conjuncts may meet: compared only by the oracle)
    for (int i = 0; i < (th ? 20000 : 2500); i++) {
        Pool p = randomPool(r, 1 + (int)r.below(3));
        std::string f = "(" + std::string(ops[r.below(6)]) + " " + xform(p, 3, true) + " " + xform(p, 3, true) + ")";
        emit("f " + f, "rand-xmix");
    }
    // FiniteSet-domain rule with symbolic constants / rationals / radicals among the elements (oracle only)
    emit("domc 1,pi lt2", "domc-sys");
    emit("domc 1,pi gt2", "domc-sys");
    emit("domc 1,pi,E,sqrt2 lt3/2", "domc-sys");
    emit("domc 1/2,pi,3 ge1;a0", "domc-sys");
    emit("domc 1,2,E or:lt3/2|gt5/2", "domc-sys");
    emit("domc pi,2 -", "domc-sys");
    for (int i = 0; i < (th ? 12000 : 1500); i++) {
        static const char *special[] = {"pi", "E", "sqrt2", "sqrt3"};
        std::vector<std::string> el;
        int m = 2 + (int)r.below(4);
        el.push_back(std::to_string(r.range(-1, 4))); // at least one Number so that the rule is attempted
        for (int j = 1; j < m; j++) {
            unsigned k = r.below(10);
            if (k < 5)
                el.push_back(special[r.below(4)]);
            else if (k < 8)
                el.push_back(std::to_string(r.range(-3, 9)) + "/" + std::to_string(2 + r.below(3)));
            else
                el.push_back(std::to_string(r.range(-1, 4)));
        }
        for (size_t j = el.size(); j > 1; j--)
            std::swap(el[j - 1], el[r.below(j)]);
        auto bound = [&]() { return std::to_string(r.range(-2, 14)) + "/" + std::to_string(1 + r.below(4)); };
        // most cases have no opaque atoms at all: then the result hinges only on how closed-but-unevaluated
        // conditions (pi < 2) are classified
        bool pureX = r.coin(2, 3);
        std::function<std::string(bool)> cj = [&](bool allowOr) -> std::string {
            static const char *rel[] = {"lt", "le", "gt", "ge", "eq", "ne"};
            unsigned k = r.below(allowOr ? 12 : 10);
            if (k < 7 || (pureX && k < 10))
                return std::string(rel[r.below(r.coin(1, 4) ? 6 : 4)]) + bound();
            if (k < 9)
                return (r.coin() ? "a" : "n") + std::to_string(r.below(3));
            if (k < 10)
                return "m" + std::to_string(r.below(2));
            return "or:" + cj(false) + "|" + cj(false);
        };
        int nc = r.coin(1, 10) ? 0 : 1 + (int)r.below(3);
        std::vector<std::string> cs;
        for (int j = 0; j < nc; j++)
            cs.push_back(cj(true));
        emit("domc " + join(el, ",") + " " + (cs.empty() ? "-" : join(cs, ";")), pureX ? "rand-domc-pure" : "rand-domc");
    }
}
