// C22: multivariate polynomial arithmetic (MIntPoly / MExprPoly with rational coefficients)
// agrees with monomial-dictionary arithmetic over the union of the variables.
//
// Op lines (see lean/Drv/C22.lean):
//   <kind> add|sub|mul|eq <P> <Q>      <kind> neg|rt <P>      <kind> pow <P> <n>
//   <kind> eval <P> x0=3,x2=-5         with <kind> = mint | mexpr
// A polynomial is `vars:x2,x0;terms:2,0:3|0,1:-1`: the variable vector in any order (the object is
// built with from_dict), exponent vector `:` coefficient.  Variable `x<k>` is the k-th symbol of a
// fixed pool sorted with the library's own set_basic comparator, so rank order = library order.
//
// Oracle (independent of the Lean model and of the library's polynomial code): both operands are
// expanded *from the op text* into std::map<exponent vector over the whole pool, GMP rational>,
// schoolbook arithmetic is done there, and the library's result object is expanded the same way
// and compared; the result's variable set must be the union; the container invariant must hold.
#include "common.h"
#include <symengine/polys/msymenginepoly.h>
#include <symengine/polys/basic_conversions.h>
#include <symengine/symbol.h>
#include <symengine/add.h>
#include <symengine/mul.h>
#include <symengine/pow.h>
#include <symengine/rational.h>
#include <symengine/visitor.h>
#include <gmp.h>
#include <algorithm>
#include <set>
#include <unistd.h>
#include <poll.h>
#include <signal.h>
#include <sys/wait.h>
#include <sys/resource.h>

using namespace SymEngine;

// ---------------------------------------------------------------- exact rationals (raw GMP)
struct Q {
    mpq_t v;
    Q()
    {
        mpq_init(v);
    }
    Q(const Q &o)
    {
        mpq_init(v);
        mpq_set(v, o.v);
    }
    explicit Q(const std::string &s)
    {
        mpq_init(v);
        if (mpq_set_str(v, s.c_str(), 10) != 0)
            throw std::runtime_error("bad rational " + s);
        mpq_canonicalize(v);
    }
    Q &operator=(const Q &o)
    {
        mpq_set(v, o.v);
        return *this;
    }
    ~Q()
    {
        mpq_clear(v);
    }
    bool zero() const
    {
        return mpq_sgn(v) == 0;
    }
    bool operator==(const Q &o) const
    {
        return mpq_equal(v, o.v) != 0;
    }
    bool operator!=(const Q &o) const
    {
        return !(*this == o);
    }
    std::string str() const
    {
        char *c = mpq_get_str(nullptr, 10, v);
        std::string s(c);
        void (*freefunc)(void *, size_t);
        mp_get_memory_functions(nullptr, nullptr, &freefunc);
        freefunc(c, s.size() + 1);
        return s;
    }
};
static Q qadd(const Q &a, const Q &b)
{
    Q r;
    mpq_add(r.v, a.v, b.v);
    return r;
}
static Q qsub(const Q &a, const Q &b)
{
    Q r;
    mpq_sub(r.v, a.v, b.v);
    return r;
}
static Q qmul(const Q &a, const Q &b)
{
    Q r;
    mpq_mul(r.v, a.v, b.v);
    return r;
}
static Q qpow(const Q &a, unsigned n)
{
    Q r("1");
    for (unsigned i = 0; i < n; i++)
        r = qmul(r, a);
    return r;
}

// ---------------------------------------------------------------- variable pool
static const int NPOOL = 6;
static std::vector<RCP<const Basic>> &pool()
{
    static std::vector<RCP<const Basic>> p;
    if (p.empty()) {
        set_basic s;
        for (const char *n : {"x", "y", "z", "a", "t", "w1"})
            s.insert(symbol(n));
        for (auto &b : s)
            p.push_back(b);
    }
    return p;
}
static int rank_of(const RCP<const Basic> &b)
{
    auto &p = pool();
    for (size_t i = 0; i < p.size(); i++)
        if (eq(*p[i], *b))
            return (int)i;
    throw std::runtime_error("variable outside the pool");
}

// ---------------------------------------------------------------- wire polynomials and reference dictionaries
typedef std::vector<unsigned> EV;
typedef std::map<EV, Q> Ref; // exponent vector over the whole pool -> non-zero coefficient

struct Wire {
    std::vector<int> vars;                       // ranks, wire order
    std::vector<std::pair<EV, std::string>> terms; // exponents follow `vars`
};

static Wire parse_wire(const std::string &s)
{
    Wire w;
    auto parts = split(s, ';');
    if (parts.size() != 2 || parts[0].compare(0, 5, "vars:") != 0 || parts[1].compare(0, 6, "terms:") != 0)
        throw std::runtime_error("bad poly");
    std::string vs = parts[0].substr(5), ts = parts[1].substr(6);
    if (!vs.empty())
        for (auto &v : split(vs, ',')) {
            if (v.empty() || v[0] != 'x')
                throw std::runtime_error("bad var");
            int k = std::stoi(v.substr(1));
            if (k < 0 || k >= NPOOL)
                throw std::runtime_error("bad var");
            w.vars.push_back(k);
        }
    if (!ts.empty())
        for (auto &t : split(ts, '|')) {
            auto ec = split(t, ':');
            if (ec.size() != 2)
                throw std::runtime_error("bad term");
            EV e;
            if (!ec[0].empty())
                for (auto &x : split(ec[0], ','))
                    e.push_back((unsigned)std::stoul(x));
            if (e.size() != w.vars.size())
                throw std::runtime_error("bad exponent vector");
            w.terms.push_back({e, ec[1]});
        }
    return w;
}

static Ref ref_of_wire(const Wire &w)
{
    Ref r;
    for (auto &t : w.terms) {
        EV full(NPOOL, 0);
        for (size_t i = 0; i < w.vars.size(); i++)
            full[w.vars[i]] += t.first[i];
        Q c(t.second);
        auto it = r.find(full);
        if (it == r.end())
            r.insert({full, c});
        else
            it->second = qadd(it->second, c);
    }
    for (auto it = r.begin(); it != r.end();)
        if (it->second.zero())
            it = r.erase(it);
        else
            ++it;
    return r;
}
static std::set<int> varset(const Wire &w)
{
    return std::set<int>(w.vars.begin(), w.vars.end());
}
static Ref ref_add(const Ref &a, const Ref &b, bool minus)
{
    Ref r = a;
    for (auto &kv : b) {
        auto it = r.find(kv.first);
        Q c = it == r.end() ? Q("0") : it->second;
        c = minus ? qsub(c, kv.second) : qadd(c, kv.second);
        if (it != r.end())
            r.erase(it);
        if (!c.zero())
            r.insert({kv.first, c});
    }
    return r;
}
static Ref ref_mul(const Ref &a, const Ref &b)
{
    Ref r;
    for (auto &x : a)
        for (auto &y : b) {
            EV e(NPOOL);
            for (int i = 0; i < NPOOL; i++)
                e[i] = x.first[i] + y.first[i];
            Q c = qmul(x.second, y.second);
            auto it = r.find(e);
            if (it == r.end())
                r.insert({e, c});
            else
                it->second = qadd(it->second, c);
        }
    for (auto it = r.begin(); it != r.end();)
        if (it->second.zero())
            it = r.erase(it);
        else
            ++it;
    return r;
}
static bool ref_eq(const Ref &a, const Ref &b)
{
    if (a.size() != b.size())
        return false;
    auto i = a.begin();
    auto j = b.begin();
    for (; i != a.end(); ++i, ++j)
        if (i->first != j->first || i->second != j->second)
            return false;
    return true;
}
static std::string ref_str(const Ref &r)
{
    std::string o;
    for (auto &kv : r) {
        if (!o.empty())
            o += "|";
        for (int i = 0; i < NPOOL; i++)
            o += (i ? "," : "") + std::to_string(kv.first[i]);
        o += ":" + kv.second.str();
    }
    return o.empty() ? "0" : o;
}

// ---------------------------------------------------------------- per coefficient kind
struct IntKind {
    typedef MIntPoly Poly;
    typedef integer_class Coef;
    typedef vec_uint Vec;
    typedef umap_uvec_mpz Dict;
    static const char *name()
    {
        return "mint";
    }
    static Coef coef(const std::string &s)
    {
        return integer_class(s);
    }
    static std::string cstr(const Coef &c)
    {
        return tostr(c);
    }
};
struct ExprKind {
    typedef MExprPoly Poly;
    typedef Expression Coef;
    typedef vec_int Vec;
    typedef umap_vec_expr Dict;
    static const char *name()
    {
        return "mexpr";
    }
    static Coef coef(const std::string &s)
    {
        auto p = split(s, '/');
        if (p.size() == 1)
            return Expression(integer(integer_class(p[0])));
        return Expression(Rational::from_two_ints(*integer(integer_class(p[0])), *integer(integer_class(p[1]))));
    }
    static std::string cstr(const Coef &c)
    {
        if (!is_a_Number(*c.get_basic()))
            throw std::runtime_error("non-numeric coefficient");
        return c.get_basic()->__str__();
    }
};

template <class K>
static RCP<const typename K::Poly> build(const Wire &w)
{
    vec_basic v;
    for (int k : w.vars)
        v.push_back(pool()[k]);
    typename K::Dict d;
    for (auto &t : w.terms) {
        typename K::Vec e(t.first.begin(), t.first.end());
        d.insert({e, K::coef(t.second)});
    }
    return K::Poly::from_dict(v, std::move(d));
}

// canonical text + expansion of a library object; checks the container invariant
template <class K>
static std::string show(const typename K::Poly &p, Ref *ref, std::set<int> *vs, std::string &oracle)
{
    std::vector<int> ranks;
    for (auto &s : p.get_vars())
        ranks.push_back(rank_of(s));
    if (!std::is_sorted(ranks.begin(), ranks.end()) && oracle == "ok")
        oracle = "FAIL:invariant:variable set not in pool order";
    if (vs)
        *vs = std::set<int>(ranks.begin(), ranks.end());
    if (p.get_poly().vec_size != ranks.size() && oracle == "ok")
        oracle = "FAIL:invariant:vec_size " + std::to_string(p.get_poly().vec_size) + " != number of variables "
                 + std::to_string(ranks.size());
    std::vector<std::pair<EV, std::string>> terms;
    for (auto &kv : p.get_poly().dict_) {
        EV e(kv.first.begin(), kv.first.end());
        std::string c = K::cstr(kv.second);
        if (e.size() != ranks.size() && oracle == "ok")
            oracle = "FAIL:invariant:exponent vector of length " + std::to_string(e.size()) + " over "
                     + std::to_string(ranks.size()) + " variables";
        if (Q(c).zero() && oracle == "ok")
            oracle = "FAIL:invariant:zero coefficient stored";
        terms.push_back({e, c});
        if (ref && e.size() == ranks.size()) {
            EV full(NPOOL, 0);
            for (size_t i = 0; i < ranks.size(); i++)
                full[ranks[i]] = e[i];
            if (ref->count(full) && oracle == "ok")
                oracle = "FAIL:invariant:duplicate monomial";
            ref->insert({full, Q(c)});
        }
    }
    std::sort(terms.begin(), terms.end(),
              [](const std::pair<EV, std::string> &a, const std::pair<EV, std::string> &b) { return a.first < b.first; });
    std::string o = "vars:";
    for (size_t i = 0; i < ranks.size(); i++)
        o += (i ? ",x" : "x") + std::to_string(ranks[i]);
    o += ";terms:";
    for (size_t i = 0; i < terms.size(); i++) {
        if (i)
            o += "|";
        for (size_t j = 0; j < terms[i].first.size(); j++)
            o += (j ? "," : "") + std::to_string(terms[i].first[j]);
        o += ":" + terms[i].second;
    }
    return o;
}

static std::string setstr(const std::set<int> &s)
{
    std::string o = "{";
    for (int k : s)
        o += "x" + std::to_string(k) + " ";
    return o + "}";
}

template <class K>
static void check_result(const typename K::Poly &r, const Ref &expect, const std::set<int> &expvars,
                         const std::string &what, std::string &out, std::string &oracle)
{
    Ref got;
    std::set<int> gotvars;
    out = show<K>(r, &got, &gotvars, oracle);
    if (oracle != "ok")
        return;
    if (gotvars != expvars) {
        oracle = "FAIL:" + what + "-vars:variable set " + setstr(gotvars) + " expected the union " + setstr(expvars);
        return;
    }
    if (!ref_eq(got, expect))
        oracle = "FAIL:" + what + ":monomial dictionary " + ref_str(got) + " expected " + ref_str(expect);
}

// as_symbolic is a homomorphism: expand(as_symbolic(r) - (as_symbolic(a) op as_symbolic(b))) == 0
template <class K>
static void check_symbolic(const typename K::Poly &a, const typename K::Poly &b, const typename K::Poly &r, char op,
                           std::string &oracle)
{
    if (oracle != "ok")
        return;
    RCP<const Basic> ea = a.as_symbolic(), eb = b.as_symbolic(), er = r.as_symbolic(), e;
    if (op == '+')
        e = add(ea, eb);
    else if (op == '-')
        e = sub(ea, eb);
    else
        e = mul(ea, eb);
    RCP<const Basic> d = expand(sub(er, e));
    if (!(is_a_Number(*d) && down_cast<const Number &>(*d).is_zero()))
        oracle = std::string("FAIL:as_symbolic:expand(as_symbolic(result) - (as_symbolic(a) ") + op
                 + " as_symbolic(b))) = " + d->__str__();
    stat("as_symbolic_checks");
}

template <class K>
static RCP<const typename K::Poly> do_pow(const typename K::Poly &p, unsigned n)
{
    return pow_mpoly(p, n);
}

// pow_mpoly(p, 0) does not terminate in the unrepaired library: run it in a child with a deadline
template <class K>
static bool guarded_pow0(const typename K::Poly &p, std::string &text)
{
    int fd[2];
    if (pipe(fd) != 0)
        throw std::runtime_error("pipe");
    fflush(nullptr);
    pid_t pid = fork();
    if (pid < 0)
        throw std::runtime_error("fork");
    if (pid == 0) {
        close(fd[0]);
        struct rlimit rl;
        rl.rlim_cur = rl.rlim_max = 1024UL * 1024 * 1024;
        setrlimit(RLIMIT_AS, &rl);
        std::string o = "ok", s;
        try {
            auto r = do_pow<K>(p, 0);
            s = show<K>(*r, nullptr, nullptr, o);
        } catch (...) {
            _exit(3);
        }
        ssize_t w = write(fd[1], s.data(), s.size());
        (void)w;
        _exit(0);
    }
    close(fd[1]);
    struct pollfd pf;
    pf.fd = fd[0];
    pf.events = POLLIN | POLLHUP;
    int pr = poll(&pf, 1, 3000);
    bool okay = false;
    if (pr > 0) {
        char buf[4096];
        ssize_t n;
        text.clear();
        while ((n = read(fd[0], buf, sizeof buf)) > 0)
            text.append(buf, n);
        okay = !text.empty();
    }
    close(fd[0]);
    kill(pid, SIGKILL);
    int st;
    waitpid(pid, &st, 0);
    return okay;
}

template <class K>
static std::string run_kind(const std::vector<std::string> &w, std::string &oracle)
{
    typedef typename K::Poly Poly;
    const std::string &op = w[1];
    std::string out;
    if ((op == "add" || op == "sub" || op == "mul") && w.size() == 4) {
        Wire wa = parse_wire(w[2]), wb = parse_wire(w[3]);
        RCP<const Poly> a = build<K>(wa), b = build<K>(wb), r;
        Ref ra = ref_of_wire(wa), rb = ref_of_wire(wb), expect;
        if (op == "add") {
            r = add_mpoly(*a, *b);
            expect = ref_add(ra, rb, false);
        } else if (op == "sub") {
            r = sub_mpoly(*a, *b);
            expect = ref_add(ra, rb, true);
        } else {
            r = mul_mpoly(*a, *b);
            expect = ref_mul(ra, rb);
        }
        std::set<int> u = varset(wa), vb = varset(wb);
        u.insert(vb.begin(), vb.end());
        check_result<K>(*r, expect, u, op, out, oracle);
        check_symbolic<K>(*a, *b, *r, op == "add" ? '+' : op == "sub" ? '-' : '*', oracle);
        stat("terms_in", (long)(ra.size() + rb.size()));
        stat("terms_out", (long)expect.size());
        if (expect.size() < (op == "mul" ? ra.size() * rb.size() : ra.size() + rb.size()))
            stat(op + "_with_cancellation_or_merge");
        return out;
    }
    if (op == "neg" && w.size() == 3) {
        Wire wa = parse_wire(w[2]);
        RCP<const Poly> a = build<K>(wa);
        Ref expect = ref_add(Ref(), ref_of_wire(wa), true);
        check_result<K>(*neg_mpoly(*a), expect, varset(wa), op, out, oracle);
        return out;
    }
    if (op == "rt" && w.size() == 3) {
        // from_dict -> as_symbolic -> from_basic over the same generators
        Wire wa = parse_wire(w[2]);
        RCP<const Poly> a = build<K>(wa);
        Ref expect = ref_of_wire(wa);
        std::string o1;
        check_result<K>(*a, expect, varset(wa), "from_dict", o1, oracle);
        RCP<const Basic> e = a->as_symbolic();
        set_basic gens = a->get_vars();
        RCP<const Poly> b = from_basic<Poly>(e, gens);
        check_result<K>(*b, expect, varset(wa), "roundtrip", out, oracle);
        if (oracle == "ok" && !eq(*a, *b))
            oracle = "FAIL:roundtrip-eq:from_basic(as_symbolic(p)) is not eq to p";
        if (oracle == "ok" && out != o1)
            oracle = "FAIL:roundtrip:" + out + " vs " + o1;
        return out;
    }
    if (op == "pow" && w.size() == 4) {
        Wire wa = parse_wire(w[2]);
        unsigned n = (unsigned)std::stoul(w[3]);
        RCP<const Poly> a = build<K>(wa);
        Ref ra = ref_of_wire(wa), expect;
        expect.insert({EV(NPOOL, 0), Q("1")});
        for (unsigned i = 0; i < n; i++)
            expect = ref_mul(expect, ra);
        if (n == 0) {
            std::string text;
            static bool hung = false; // one deadline per run is enough: later exponent-0 ops are not retried
            stat("pow0_guarded");
            if (hung || !guarded_pow0<K>(*a, text)) {
                hung = true;
                oracle = "FAIL:pow0:pow_mpoly(p, 0) did not return within 3 s (expected the constant 1)";
                return "HANG";
            }
        }
        check_result<K>(*do_pow<K>(*a, n), expect, varset(wa), op, out, oracle);
        return out;
    }
    if (op == "eval" && w.size() == 4) {
        Wire wa = parse_wire(w[2]);
        RCP<const Poly> a = build<K>(wa);
        std::map<RCP<const Basic>, typename K::Coef, RCPBasicKeyLess> vals;
        std::vector<Q> qv(NPOOL, Q("0"));
        std::set<int> have;
        if (!w[3].empty())
            for (auto &asg : split(w[3], ',')) {
                auto p = split(asg, '=');
                if (p.size() != 2 || p[0].empty() || p[0][0] != 'x')
                    return "bad-op";
                int k = std::stoi(p[0].substr(1));
                if (k < 0 || k >= NPOOL)
                    return "bad-op";
                if (!have.count(k)) { // the first binding wins (as in the model's lookup)
                    vals.insert({pool()[k], K::coef(p[1])});
                    qv[k] = Q(p[1]);
                    have.insert(k);
                }
            }
        for (int k : wa.vars)
            if (!have.count(k))
                return "bad-op"; // vals.find(sym)->second would dereference end(): not generated
        typename K::Coef r = a->eval(vals);
        out = K::cstr(r);
        Q expect("0");
        for (auto &kv : ref_of_wire(wa)) {
            Q t = kv.second;
            for (int i = 0; i < NPOOL; i++)
                t = qmul(t, qpow(qv[i], kv.first[i]));
            expect = qadd(expect, t);
        }
        if (Q(out) != expect)
            oracle = "FAIL:eval:eval gives " + out + " direct substitution gives " + expect.str();
        return out;
    }
    if (op == "eq" && w.size() == 4) {
        Wire wa = parse_wire(w[2]), wb = parse_wire(w[3]);
        RCP<const Poly> a = build<K>(wa), b = build<K>(wb);
        bool same = ref_eq(ref_of_wire(wa), ref_of_wire(wb));
        bool e1 = eq(*a, *b), e2 = eq(*b, *a);
        if (e1 != e2)
            oracle = "FAIL:eq-asymmetric:eq(a,b) != eq(b,a)";
        else if (e1 && !same)
            oracle = "FAIL:eq-unsound:__eq__ is true for two different polynomials";
        else if (!e1 && same)
            oracle = std::string("FAIL:eq-incomplete:__eq__ is false for the same polynomial written over ")
                     + (varset(wa) == varset(wb) ? "the same variable set" : "different variable sets");
        if (e1 && a->hash() != b->hash())
            stat("eq_true_but_hash_differs(C01,D2)");
        if (e1 && a->__cmp__(*b) != 0)
            stat("eq_true_but_cmp_nonzero(C02,D2)");
        stat(same ? "eq_math_equal" : "eq_math_different");
        return e1 ? "true" : "false";
    }
    return "bad-op";
}

std::string hx_run(const std::string &line, std::string &oracle)
{
    auto w = split(line, ' ');
    if (w.size() < 3)
        return "bad-op";
    if (w[0] == "mint")
        return run_kind<IntKind>(w, oracle);
    if (w[0] == "mexpr")
        return run_kind<ExprKind>(w, oracle);
    return "bad-op";
}

// ---------------------------------------------------------------- generator
static const char *INT_COEFS[] = {"1", "-1", "2", "-2", "3", "-3", "7", "-5", "12", "1000003",
                                  "18446744073709551616", "-18446744073709551616", "18446744073709551615",
                                  "340282366920938463463374607431768211457", "-9223372036854775808", "4294967296"};
static const char *RAT_COEFS[] = {"1", "-1", "2", "-2", "1/2", "-1/2", "3", "-3", "2/3", "-2/3", "5/7", "1/3",
                                  "18446744073709551617/3", "-18446744073709551617/3", "7/18446744073709551616", "4"};

static std::string coef(Rng &rng, bool rat, bool small)
{
    const char **tab = rat ? RAT_COEFS : INT_COEFS;
    return tab[rng.below(small ? 8 : 16)];
}

static std::string wire_str(const Wire &w)
{
    std::string o = "vars:";
    for (size_t i = 0; i < w.vars.size(); i++)
        o += (i ? ",x" : "x") + std::to_string(w.vars[i]);
    o += ";terms:";
    for (size_t i = 0; i < w.terms.size(); i++) {
        if (i)
            o += "|";
        for (size_t j = 0; j < w.terms[i].first.size(); j++)
            o += (j ? "," : "") + std::to_string(w.terms[i].first[j]);
        o += ":" + w.terms[i].second;
    }
    return o;
}

// monomial over the whole pool -> wire term of `w` if its support lies inside w's variables
static bool add_term(Wire &w, const EV &full, const std::string &c)
{
    EV e(w.vars.size(), 0);
    std::set<int> vs(w.vars.begin(), w.vars.end());
    for (int i = 0; i < NPOOL; i++)
        if (full[i] && !vs.count(i))
            return false;
    for (size_t i = 0; i < w.vars.size(); i++)
        e[i] = full[w.vars[i]];
    for (auto &t : w.terms)
        if (t.first == e)
            return false; // keys of an unordered_map literal are distinct
    w.terms.push_back({e, c});
    return true;
}

static std::vector<int> shuffled(Rng &rng, std::vector<int> v, bool doit)
{
    if (doit)
        for (size_t i = v.size(); i > 1; i--)
            std::swap(v[i - 1], v[rng.below(i)]);
    return v;
}

// pattern: 0 equal, 1 nested, 2 overlapping, 3 disjoint, 4 one empty, 5 both empty
static const char *PAT[] = {"equal", "nested", "overlap", "disjoint", "oneempty", "bothempty"};
static void var_sets(Rng &rng, int pat, std::vector<int> &A, std::vector<int> &B)
{
    std::vector<int> all;
    for (int i = 0; i < NPOOL; i++)
        all.push_back(i);
    all = shuffled(rng, all, true);
    A.clear();
    B.clear();
    switch (pat) {
        case 0: {
            int n = 1 + (int)rng.below(3);
            A.assign(all.begin(), all.begin() + n);
            B = A;
            break;
        }
        case 1: {
            int n = 1 + (int)rng.below(2), m = n + 1 + (int)rng.below(2);
            A.assign(all.begin(), all.begin() + n);
            B.assign(all.begin(), all.begin() + m);
            break;
        }
        case 2: {
            int c = 1 + (int)rng.below(2), n = 1 + (int)rng.below(2), m = 1 + (int)rng.below(2);
            A.assign(all.begin(), all.begin() + c + n);
            B.assign(all.begin(), all.begin() + c);
            B.insert(B.end(), all.begin() + c + n, all.begin() + c + n + m);
            break;
        }
        case 3: {
            int n = 1 + (int)rng.below(3), m = 1 + (int)rng.below(3);
            A.assign(all.begin(), all.begin() + n);
            B.assign(all.begin() + n, all.begin() + n + m);
            break;
        }
        case 4: {
            int n = 1 + (int)rng.below(3);
            B.assign(all.begin(), all.begin() + n);
            break;
        }
        default:
            break;
    }
    if (pat != 0 && pat != 5 && rng.coin())
        std::swap(A, B);
    std::sort(A.begin(), A.end());
    std::sort(B.begin(), B.end());
}

// a pair of polynomials sharing many monomials (so that sums cancel / products collide)
static void gen_pair(Rng &rng, bool rat, int pat, int maxterms, unsigned maxexp, Wire &a, Wire &b)
{
    std::vector<int> A, B;
    var_sets(rng, pat, A, B);
    a.vars = shuffled(rng, A, rng.coin(1, 3));
    b.vars = shuffled(rng, B, rng.coin(1, 3));
    a.terms.clear();
    b.terms.clear();
    std::set<int> u(A.begin(), A.end());
    u.insert(B.begin(), B.end());
    std::set<int> inter;
    for (int k : A)
        if (std::count(B.begin(), B.end(), k))
            inter.insert(k);
    int na = (int)rng.below(maxterms + 1), nb = (int)rng.below(maxterms + 1);
    bool small = rng.coin(2, 3);
    for (int tries = 0; tries < 40 && ((int)a.terms.size() < na || (int)b.terms.size() < nb); tries++) {
        EV full(NPOOL, 0);
        int where = (int)rng.below(4); // 0: over the intersection (or constant), 1: over A, 2: over B, 3: constant
        const std::set<int> sa(A.begin(), A.end()), sb(B.begin(), B.end());
        const std::set<int> &dom = where == 0 ? inter : where == 1 ? sa : sb;
        if (where != 3)
            for (int k : dom)
                if (rng.coin(2, 3))
                    full[k] = (unsigned)rng.below(maxexp + 1);
        std::string c = coef(rng, rat, small);
        if ((int)a.terms.size() < na)
            add_term(a, full, c);
        if ((int)b.terms.size() < nb) {
            // same, opposite or unrelated coefficient
            std::string cb = c;
            int how = (int)rng.below(3);
            if (how == 1)
                cb = c[0] == '-' ? c.substr(1) : "-" + c;
            else if (how == 2)
                cb = coef(rng, rat, small);
            add_term(b, full, cb);
        }
    }
    if (rng.coin(1, 12) && !a.terms.empty())
        a.terms[rng.below(a.terms.size())].second = "0"; // from_dict must drop explicit zeros
}

static std::string assignment(Rng &rng, bool rat, const Wire &w)
{
    static const char *IV[] = {"0", "1", "-1", "2", "-3", "5", "-7", "4294967297", "-18446744073709551616"};
    static const char *RV[] = {"0", "1", "-1", "2", "1/2", "-3/2", "5", "-7/3", "4294967297/2"};
    std::vector<int> vs = w.vars;
    if (rng.coin(1, 4))
        for (int k = 0; k < NPOOL; k++)
            if (!std::count(vs.begin(), vs.end(), k) && rng.coin())
                vs.push_back(k); // extra bindings are ignored
    vs = shuffled(rng, vs, true);
    std::string o;
    for (size_t i = 0; i < vs.size(); i++)
        o += (i ? ",x" : "x") + std::to_string(vs[i]) + "=" + (rat ? RV : IV)[rng.below(9)];
    return o;
}

static void gen_kind(Rng &rng, bool rat, long n)
{
    const std::string kd = rat ? "mexpr" : "mint";
    // fixed boundary cases first
    if (!rat) {
        emit("mint eq vars:x0;terms:1:3 vars:x0;terms:0:3", "eq-fixed-3x-vs-3");
        emit("mint eq vars:x0;terms:0:3 vars:x1;terms:0:3", "eq-fixed-const-diffvars");
        emit("mint eq vars:x0;terms:1:1 vars:x0,x1;terms:1,0:1", "eq-fixed-x-over-superset");
        emit("mint pow vars:x0;terms:1:1|0:1 0", "pow-fixed-0");
        emit("mint pow vars:;terms: 0", "pow-fixed-zero-to-0");
    }
    for (long it = 0; it < n; it++) {
        int pat = (int)rng.below(6);
        Wire a, b;
        int kind = (int)rng.below(100);
        if (kind < 22) {
            gen_pair(rng, rat, pat, 6, 4, a, b);
            emit(kd + " add " + wire_str(a) + " " + wire_str(b), std::string("add-") + PAT[pat]);
        } else if (kind < 42) {
            gen_pair(rng, rat, pat, 6, 4, a, b);
            emit(kd + " sub " + wire_str(a) + " " + wire_str(b), std::string("sub-") + PAT[pat]);
        } else if (kind < 64) {
            gen_pair(rng, rat, pat, 5, 4, a, b);
            // constants and single terms exercise the `*=` shortcuts
            if (rng.coin(1, 5) && !b.terms.empty()) {
                b.terms.resize(1);
                if (rng.coin())
                    std::fill(b.terms[0].first.begin(), b.terms[0].first.end(), 0u);
            }
            emit(kd + " mul " + wire_str(a) + " " + wire_str(b), std::string("mul-") + PAT[pat]);
        } else if (kind < 69) {
            gen_pair(rng, rat, pat, 6, 4, a, b);
            emit(kd + " neg " + wire_str(a), "neg");
        } else if (kind < 77) {
            gen_pair(rng, rat, pat, 3, 3, a, b);
            unsigned e = (unsigned)rng.below(6);
            if (rng.coin(1, 6))
                e = 6 + (unsigned)rng.below(4);
            if (a.terms.size() > 2 && e > 5)
                e = 5;
            emit(kd + " pow " + wire_str(a) + " " + std::to_string(e), e == 0 ? "pow-0" : e == 1 ? "pow-1" : "pow-n");
        } else if (kind < 86) {
            gen_pair(rng, rat, pat, 6, 4, a, b);
            emit(kd + " eval " + wire_str(a) + " " + assignment(rng, rat, a), a.vars.empty() ? "eval-novars" : "eval");
        } else if (kind < 92) {
            gen_pair(rng, rat, pat, 6, 4, a, b);
            emit(kd + " rt " + wire_str(a), a.terms.empty() ? "rt-zero" : "rt");
        } else {
            // eq: mathematically equal or nearly equal pairs over equal / different variable sets
            gen_pair(rng, rat, pat, 3, 3, a, b);
            int how = (int)rng.below(4);
            std::string tag = "eq-random";
            if (how == 0) { // the same polynomial rewritten over b's variable set where possible
                Wire c;
                c.vars = b.vars;
                std::set<int> u(a.vars.begin(), a.vars.end());
                for (int k : b.vars)
                    u.insert(k);
                c.vars.assign(u.begin(), u.end());
                for (auto &t : a.terms) {
                    EV full(NPOOL, 0);
                    for (size_t i = 0; i < a.vars.size(); i++)
                        full[a.vars[i]] = t.first[i];
                    add_term(c, full, t.second);
                }
                b = c;
                tag = a.vars.size() == c.vars.size() ? "eq-same-poly-same-vars" : "eq-same-poly-superset-vars";
            } else if (how == 1) { // single terms with the same coefficient
                std::string c = coef(rng, rat, true);
                a.terms.clear();
                b.terms.clear();
                a.terms.push_back({EV(a.vars.size(), 0), c});
                b.terms.push_back({EV(b.vars.size(), 0), c});
                if (!a.vars.empty() && rng.coin())
                    a.terms[0].first[rng.below(a.vars.size())] = 1 + (unsigned)rng.below(2);
                if (!b.vars.empty() && rng.coin(1, 3))
                    b.terms[0].first[rng.below(b.vars.size())] = 1 + (unsigned)rng.below(2);
                tag = "eq-single-terms";
            } else if (how == 2) {
                b = a;
                b.vars = a.vars; // identical
                tag = "eq-identical";
            }
            emit(kd + " eq " + wire_str(a) + " " + wire_str(b), tag);
        }
    }
}

// all pairs of variable subsets of {x0,x1,x2} with small fixed term shapes: every overlap pattern
static void gen_exhaustive(const std::string &kd)
{
    for (int ma = 0; ma < 8; ma++)
        for (int mb = 0; mb < 8; mb++) {
            Wire a, b;
            for (int k = 0; k < 3; k++) {
                if (ma >> k & 1)
                    a.vars.push_back(k);
                if (mb >> k & 1)
                    b.vars.push_back(k);
            }
            // a = 2 + sum of its variables, b = -2 + sum of (-1)^k var_k^(k+1) ... plus shared squares
            add_term(a, EV(NPOOL, 0), "2");
            add_term(b, EV(NPOOL, 0), "-2");
            for (int k = 0; k < 3; k++) {
                EV e(NPOOL, 0);
                e[k] = 1;
                add_term(a, e, "1");
                add_term(b, e, k % 2 ? "1" : "-1");
                e[k] = 2;
                add_term(b, e, "3");
            }
            std::string tag = "exh-" + std::to_string(ma) + "-" + std::to_string(mb);
            emit(kd + " add " + wire_str(a) + " " + wire_str(b), "exh-add");
            emit(kd + " sub " + wire_str(a) + " " + wire_str(b), "exh-sub");
            emit(kd + " mul " + wire_str(a) + " " + wire_str(b), "exh-mul");
            emit(kd + " eq " + wire_str(a) + " " + wire_str(b), "exh-eq");
        }
}

void hx_gen(Rng &rng, const std::string &tier)
{
    // common.h seeds the SplitMix64 state with seed * increment, so consecutive seeds are the same
    // stream shifted by one draw; jump to a state derived from the scrambled output instead
    rng.s = rng.next() * 0xD6E8FEB86659FD93ULL + 0x2545F4914F6CDD1DULL;
    bool thorough = tier == "thorough";
    gen_exhaustive("mint");
    gen_kind(rng, false, thorough ? 30000 : 2500);
    if (thorough)
        gen_exhaustive("mexpr");
    gen_kind(rng, true, thorough ? 12000 : 1000);
}
