// C25: sparse CSR matrices stay canonical and agree with dense ones.
// Op line: one whole history, segments separated by " | " (syntax: lean/Drv/C25.lean).
// Oracle (independent of the Lean model): a dense rational matrix is maintained by the obvious
// dense algorithm; after every call the raw (p, j, x) arrays must be canonical (strong form:
// sizes, p[0]=0, p monotone, p[row]=nnz, per-row strictly increasing column indices < col) and
// their dense image, as well as get(i, j) for every position, must equal the dense matrix.
#include "common.h"
#include <symengine/matrix.h>
#include <symengine/integer.h>
#include <symengine/rational.h>
#include <symengine/add.h>
#include <symengine/mul.h>
#include <symengine/symbol.h>
#include <algorithm>
#include <tuple>

using namespace SymEngine;
typedef RCP<const Number> Num;
typedef std::vector<std::vector<Num>> Dense;

static std::vector<std::string> split_str(const std::string &s, const std::string &sep)
{
    std::vector<std::string> out;
    size_t pos = 0;
    while (true) {
        size_t q = s.find(sep, pos);
        if (q == std::string::npos) {
            out.push_back(s.substr(pos));
            return out;
        }
        out.push_back(s.substr(pos, q - pos));
        pos = q + sep.size();
    }
}

static Num parse_q(const std::string &s)
{
    auto parts = split(s, '/');
    long n = std::stol(parts[0]);
    long d = parts.size() > 1 ? std::stol(parts[1]) : 1;
    return Rational::from_two_ints(n, d);
}
static Num qzero()
{
    return integer(0);
}
static bool q_is_zero(const Num &a)
{
    return a->is_zero();
}
static bool q_eq(const Num &a, const Num &b)
{
    return eq(*a, *b);
}

struct Coo {
    std::vector<unsigned> i, j;
    vec_basic x;
    std::vector<Num> v;
};
static Coo parse_coo(const std::string &s)
{
    Coo c;
    if (s == "-")
        return c;
    for (auto &t : split(s, ';')) {
        auto f = split(t, ',');
        c.i.push_back((unsigned)std::stoul(f[0]));
        c.j.push_back((unsigned)std::stoul(f[1]));
        Num q = parse_q(f[2]);
        c.v.push_back(q);
        c.x.push_back(q);
    }
    return c;
}
static std::vector<unsigned> parse_nats(const std::string &s)
{
    std::vector<unsigned> o;
    if (s == "-")
        return o;
    for (auto &t : split(s, ','))
        o.push_back((unsigned)std::stoul(t));
    return o;
}
static std::vector<Num> parse_qs(const std::string &s)
{
    std::vector<Num> o;
    if (s == "-")
        return o;
    for (auto &t : split(s, ','))
        o.push_back(parse_q(t));
    return o;
}

static Dense dense_zero(unsigned r, unsigned c)
{
    return Dense(r, std::vector<Num>(c, qzero()));
}
static Dense dense_of_coo(unsigned r, unsigned c, const Coo &t)
{
    Dense D = dense_zero(r, c);
    for (size_t n = 0; n < t.i.size(); n++)
        D[t.i[n]][t.j[n]] = D[t.i[n]][t.j[n]]->add(*t.v[n]);
    return D;
}
static bool coo_in_range(unsigned r, unsigned c, const Coo &t)
{
    for (size_t n = 0; n < t.i.size(); n++)
        if (t.i[n] >= r || t.j[n] >= c)
            return false;
    return true;
}

template <class T>
static std::string list_str(const std::vector<T> &v)
{
    if (v.empty())
        return "-";
    std::string o;
    for (size_t i = 0; i < v.size(); i++) {
        if (i)
            o += ",";
        o += std::to_string(v[i]);
    }
    return o;
}
static std::string basic_list_str(const vec_basic &v)
{
    if (v.empty())
        return "-";
    std::string o;
    for (size_t i = 0; i < v.size(); i++) {
        if (i)
            o += ",";
        o += v[i].is_null() ? std::string("null") : v[i]->__str__();
    }
    return o;
}

static std::string dump(const CSRMatrix &m)
{
    auto t = m.as_vectors();
    return std::to_string(m.nrows()) + "x" + std::to_string(m.ncols()) + ";" + list_str(std::get<0>(t)) + ";"
           + list_str(std::get<1>(t)) + ";" + basic_list_str(std::get<2>(t)) + ";" + (m.is_canonical() ? "1" : "0");
}

// strong canonical form, evaluated on the raw arrays; "" if fine, otherwise the reason
static std::string strong_canon(unsigned row, unsigned col, const std::vector<unsigned> &p,
                                const std::vector<unsigned> &j, size_t xsize)
{
    if (p.size() != (size_t)row + 1)
        return "p.size=" + std::to_string(p.size()) + " row=" + std::to_string(row);
    if (p[0] != 0)
        return "p[0]!=0";
    for (unsigned i = 0; i < row; i++)
        if (p[i] > p[i + 1])
            return "p decreases at row " + std::to_string(i);
    if (p[row] != j.size() || xsize != j.size())
        return "p[row]=" + std::to_string(p[row]) + " j.size=" + std::to_string(j.size())
               + " x.size=" + std::to_string(xsize);
    for (unsigned i = 0; i < row; i++)
        for (unsigned k = p[i]; k < p[i + 1]; k++) {
            if (j[k] >= col)
                return "column index " + std::to_string(j[k]) + " >= col in row " + std::to_string(i);
            if (k + 1 < p[i + 1] && j[k] == j[k + 1])
                return "row " + std::to_string(i) + " has a duplicate column index at position " + std::to_string(k);
            if (k + 1 < p[i + 1] && j[k] > j[k + 1])
                return "row " + std::to_string(i) + " has unsorted column indices at position " + std::to_string(k);
        }
    return "";
}

// dense image of raw arrays (summing whatever is stored in the row range); false if malformed
static bool image(unsigned row, unsigned col, const std::vector<unsigned> &p, const std::vector<unsigned> &j,
                  const vec_basic &x, Dense &out)
{
    out = dense_zero(row, col);
    if (p.size() != (size_t)row + 1)
        return false;
    for (unsigned i = 0; i < row; i++)
        for (unsigned k = p[i]; k < p[i + 1]; k++) {
            if (k >= j.size() || k >= x.size() || j[k] >= col || x[k].is_null() || !is_a_Number(*x[k]))
                return false;
            out[i][j[k]] = out[i][j[k]]->add(*rcp_static_cast<const Number>(x[k]));
        }
    return true;
}

static std::string first_diff(const Dense &a, const Dense &b)
{
    if (a.size() != b.size())
        return "row count";
    for (size_t i = 0; i < a.size(); i++) {
        if (a[i].size() != b[i].size())
            return "col count";
        for (size_t k = 0; k < a[i].size(); k++)
            if (!q_eq(a[i][k], b[i][k]))
                return "(" + std::to_string(i) + "," + std::to_string(k) + ") csr=" + a[i][k]->__str__()
                       + " dense=" + b[i][k]->__str__();
    }
    return "";
}

static void fail(std::string &oracle, const std::string &key, const std::string &detail)
{
    if (oracle == "ok")
        oracle = "FAIL:" + key + ":" + detail;
}

// the property after a call: canonical + agrees with the dense matrix (raw image and get())
static void check_state(const CSRMatrix &m, const Dense &D, const std::string &what, std::string &oracle)
{
    auto t = m.as_vectors();
    unsigned r = m.nrows(), c = m.ncols();
    if (r != D.size() || (r > 0 && c != D[0].size())) {
        fail(oracle, "dims", what + ": csr is " + std::to_string(r) + "x" + std::to_string(c) + " dense is "
                                 + std::to_string(D.size()) + "x" + std::to_string(D.empty() ? 0 : D[0].size()));
        return;
    }
    std::string why = strong_canon(r, c, std::get<0>(t), std::get<1>(t), std::get<2>(t).size());
    if (why != "") {
        fail(oracle, "noncanonical", what + ": " + why);
        return;
    }
    if (!m.is_canonical())
        fail(oracle, "is_canonical", what + ": is_canonical() is false on canonical arrays");
    Dense img;
    if (!image(r, c, std::get<0>(t), std::get<1>(t), std::get<2>(t), img)) {
        fail(oracle, "malformed", what);
        return;
    }
    std::string d = first_diff(img, D);
    if (d != "")
        fail(oracle, "value", what + ": " + d);
    for (unsigned i = 0; i < r; i++)
        for (unsigned k = 0; k < c; k++) {
            RCP<const Basic> g = m.get(i, k);
            if (!eq(*g, *D[i][k]))
                fail(oracle, "get", what + ": get(" + std::to_string(i) + "," + std::to_string(k) + ")="
                                        + g->__str__() + " dense=" + D[i][k]->__str__());
        }
    stat("states_checked");
}

static void flags_of(unsigned row, const std::vector<unsigned> &p, const std::vector<unsigned> &j, bool &sorted,
                     bool &dups, bool &canon)
{
    sorted = true;
    dups = false;
    bool mono = true;
    for (unsigned i = 0; i < row; i++) {
        if (p[i] > p[i + 1])
            mono = false;
        for (unsigned k = p[i]; k + 1 < p[i + 1]; k++) {
            if (j[k] > j[k + 1])
                sorted = false;
            if (j[k] == j[k + 1])
                dups = true;
        }
    }
    canon = mono && sorted && !dups;
}
static std::string flags_str(bool s, bool d, bool c)
{
    return std::string(s ? "1" : "0") + "," + (d ? "1" : "0") + "," + (c ? "1" : "0");
}

static CSRMatrix full_matrix(unsigned r, unsigned c)
{
    std::vector<unsigned> p(r + 1), j((size_t)r * c);
    vec_basic x((size_t)r * c, integer(1));
    for (unsigned i = 0; i <= r; i++)
        p[i] = i * c;
    for (size_t k = 0; k < j.size(); k++)
        j[k] = (unsigned)(k % c);
    return CSRMatrix(r, c, std::move(p), std::move(j), std::move(x));
}

static std::string run_ni(CSRMatrix &m, const std::string &name)
{
    CSRMatrix r(m.nrows(), m.ncols()), r2(m.nrows(), m.ncols());
    if (name == "add_matrix")
        m.add_matrix(m, r);
    else if (name == "mul_matrix")
        m.mul_matrix(m, r);
    else if (name == "add_scalar")
        m.add_scalar(integer(2), r);
    else if (name == "mul_scalar")
        m.mul_scalar(integer(2), r);
    else if (name == "rank")
        m.rank();
    else if (name == "det")
        m.det();
    else if (name == "inv")
        m.inv(r);
    else if (name == "submatrix")
        m.submatrix(r, 0, 0, 1, 1);
    else if (name == "LU")
        m.LU(r, r2);
    else if (name == "cholesky")
        m.cholesky(r);
    else
        return "bad-op";
    return "returned";
}

std::string hx_run(const std::string &line, std::string &oracle)
{
    auto segs = split_str(line, " | ");
    auto w = split(segs[0], ' ');
    std::string out;
    CSRMatrix m;
    Dense D;
    // ---- constructor segment
    try {
        if (w[0] == "chkraw" && w.size() == 4) {
            unsigned r = (unsigned)std::stoul(w[1]);
            auto p = parse_nats(w[2]), j = parse_nats(w[3]);
            bool s = CSRMatrix::csr_has_sorted_indices(p, j, r);
            bool d = CSRMatrix::csr_has_duplicates(p, j, r);
            bool c = CSRMatrix::csr_has_canonical_format(p, j, r);
            bool es, ed, ec;
            flags_of(r, p, j, es, ed, ec);
            // csr_has_duplicates "assumes that the indices are sorted": adjacent equality is what it tests
            if (s != es || d != ed || c != ec)
                fail(oracle, "predicates", "got " + flags_str(s, d, c) + " expected " + flags_str(es, ed, ec));
            stat("chkraw");
            return flags_str(s, d, c);
        } else if (w[0] == "coo" && w.size() == 4) {
            unsigned r = (unsigned)std::stoul(w[1]), c = (unsigned)std::stoul(w[2]);
            Coo t = parse_coo(w[3]);
            if (!coo_in_range(r, c, t))
                return "UB-skipped"; // never generated: from_coo does not validate its indices
            m = CSRMatrix::from_coo(r, c, t.i, t.j, t.x);
            D = dense_of_coo(r, c, t);
            stat("from_coo");
        } else if (w[0] == "raw" && w.size() == 6) {
            unsigned r = (unsigned)std::stoul(w[1]), c = (unsigned)std::stoul(w[2]);
            auto p = parse_nats(w[3]), j = parse_nats(w[4]);
            auto xs = parse_qs(w[5]);
            vec_basic x(xs.begin(), xs.end());
            std::string why = strong_canon(r, c, p, j, x.size());
            try {
                m = CSRMatrix(r, c, p, j, x);
            } catch (const VerifAssertError &e) {
                if (why == "")
                    fail(oracle, "ctor-assert", std::string("constructor rejected canonical arrays: ") + e.what());
                stat("raw_rejected");
                return "E:Assert";
            }
            if (why != "") {
                fail(oracle, "ctor-accept", "constructor accepted non-canonical arrays: " + why);
                return dump(m);
            }
            image(r, c, p, j, x, D);
            stat("raw_ctor");
        } else if (w[0] == "zero" && w.size() == 3) {
            unsigned r = (unsigned)std::stoul(w[1]), c = (unsigned)std::stoul(w[2]);
            m = CSRMatrix(r, c);
            D = dense_zero(r, c);
        } else if (w[0] == "jac" && w.size() == 3) {
            unsigned c = (unsigned)std::stoul(w[1]);
            vec_sym syms;
            for (unsigned k = 0; k < c; k++)
                syms.push_back(symbol("x" + std::to_string(k)));
            vec_basic exprs;
            D.clear();
            if (w[2] != "-")
                for (auto &rowtxt : split(w[2], ';')) {
                    auto coef = parse_qs(rowtxt);
                    RCP<const Basic> e = integer(7);
                    for (unsigned k = 0; k < c && k < coef.size(); k++)
                        e = add(e, mul(coef[k], syms[k]));
                    coef.resize(c, qzero());
                    D.push_back(coef);
                    exprs.push_back(e);
                }
            m = CSRMatrix::jacobian(exprs, syms);
            stat("jacobian");
        } else
            return "bad-op";
    } catch (const std::exception &e) {
        fail(oracle, "exception", "constructor " + w[0] + ": " + exc_name(e) + " " + e.what());
        return exc_name(e);
    }
    out = dump(m);
    check_state(m, D, w[0], oracle);

    // ---- calls
    for (size_t si = 1; si < segs.size(); si++) {
        auto a = split(segs[si], ' ');
        const std::string &op = a[0];
        std::string expect = ""; // the error this call must raise, "" if none
        std::string res;
        unsigned r = m.nrows(), c = m.ncols();
        try {
            if (op == "set" && a.size() == 4) {
                unsigned i = (unsigned)std::stoul(a[1]), k = (unsigned)std::stoul(a[2]);
                Num v = parse_q(a[3]);
                if (i >= r || k >= c)
                    expect = "E:Assert";
                m.set(i, k, v);
                if (expect == "")
                    D[i][k] = v;
                res = dump(m);
                stat(q_is_zero(v) ? "set_zero" : "set_nonzero");
            } else if (op == "get" && a.size() == 3) {
                unsigned i = (unsigned)std::stoul(a[1]), k = (unsigned)std::stoul(a[2]);
                if (i >= r || k >= c)
                    expect = "E:Assert";
                RCP<const Basic> g = m.get(i, k);
                res = g->__str__();
                if (expect == "" && !eq(*g, *D[i][k]))
                    fail(oracle, "get", segs[si] + " returned " + res + " dense=" + D[i][k]->__str__());
                stat("get");
            } else if ((op == "add" || op == "sub" || op == "emul") && a.size() == 2) {
                Coo t = parse_coo(a[1]);
                if (!coo_in_range(r, c, t))
                    return out + "|UB-skipped";
                CSRMatrix B = CSRMatrix::from_coo(r, c, t.i, t.j, t.x);
                Dense DB = dense_of_coo(r, c, t);
                check_state(B, DB, "operand of " + op, oracle);
                CSRMatrix C(r, c);
                if (op == "add")
                    csr_binop_csr_canonical(m, B, C, add);
                else if (op == "sub")
                    csr_binop_csr_canonical(m, B, C, sub);
                else
                    m.elementwise_mul_matrix(B, C);
                for (unsigned i = 0; i < r; i++)
                    for (unsigned k = 0; k < c; k++)
                        D[i][k] = op == "add"   ? D[i][k]->add(*DB[i][k])
                                  : op == "sub" ? D[i][k]->sub(*DB[i][k])
                                                : D[i][k]->mul(*DB[i][k]);
                m = std::move(C);
                res = dump(m);
                stat("binop_" + op);
            } else if (op == "T" && a.size() == 1) {
                CSRMatrix R(c, r);
                m.transpose(R);
                Dense DT = dense_zero(c, r);
                for (unsigned i = 0; i < r; i++)
                    for (unsigned k = 0; k < c; k++)
                        DT[k][i] = D[i][k];
                D = DT;
                m = std::move(R);
                res = dump(m);
                stat("transpose");
            } else if (op == "conj" && a.size() == 1) {
                CSRMatrix R(r, c);
                m.conjugate(R);
                m = std::move(R);
                res = dump(m);
                stat("conjugate");
            } else if ((op == "srows" || op == "scols") && a.size() == 2) {
                auto X = parse_qs(a[1]);
                bool rows = op == "srows";
                if (X.size() != (rows ? r : c))
                    expect = "E:Assert";
                else
                    for (auto &q : X)
                        if (q_is_zero(q))
                            expect = "E:Runtime";
                vec_basic xb(X.begin(), X.end());
                DenseMatrix XD((unsigned)X.size(), 1, xb);
                if (rows)
                    csr_scale_rows(m, XD);
                else
                    csr_scale_columns(m, XD);
                if (expect == "")
                    for (unsigned i = 0; i < r; i++)
                        for (unsigned k = 0; k < c; k++)
                            D[i][k] = D[i][k]->mul(*X[rows ? i : k]);
                res = dump(m);
                stat(op);
            } else if (op == "diag" && a.size() == 1) {
                unsigned N = std::min(r, c);
                DenseMatrix DD(N, 1);
                csr_diagonal(m, DD);
                std::vector<std::string> parts;
                for (unsigned i = 0; i < N; i++) {
                    RCP<const Basic> g = DD.get(i, 0);
                    parts.push_back(g->__str__());
                    if (!eq(*g, *D[i][i]))
                        fail(oracle, "diagonal", "csr_diagonal entry " + std::to_string(i) + " is " + g->__str__()
                                                     + " dense=" + D[i][i]->__str__());
                }
                res = parts.empty() ? "-" : join(parts, ",");
                stat("diagonal");
            } else if (op == "chk" && a.size() == 1) {
                auto t = m.as_vectors();
                bool s = CSRMatrix::csr_has_sorted_indices(std::get<0>(t), std::get<1>(t), r);
                bool d = CSRMatrix::csr_has_duplicates(std::get<0>(t), std::get<1>(t), r);
                bool cf = CSRMatrix::csr_has_canonical_format(std::get<0>(t), std::get<1>(t), r);
                if (!s || d || !cf)
                    fail(oracle, "predicates", "canonical state reported as " + flags_str(s, d, cf));
                res = flags_str(s, d, cf);
            } else if (op == "mul" && a.size() == 3) {
                unsigned c2 = (unsigned)std::stoul(a[1]);
                Coo t = parse_coo(a[2]);
                if (!coo_in_range(c, c2, t) || c2 > c)
                    return out + "|UB-skipped"; // never generated: scratch vectors are sized A.col_
                CSRMatrix B = CSRMatrix::from_coo(c, c2, t.i, t.j, t.x);
                Dense DB = dense_of_coo(c, c2, t);
                CSRMatrix C = full_matrix(r, c2);
                csr_matmat_pass1(m, B, C);
                csr_matmat_pass2(m, B, C);
                Dense P = dense_zero(r, c2);
                for (unsigned i = 0; i < r; i++)
                    for (unsigned k = 0; k < c2; k++)
                        for (unsigned l = 0; l < c; l++)
                            P[i][k] = P[i][k]->add(*D[i][l]->mul(*DB[l][k]));
                auto tv = C.as_vectors();
                Dense img;
                if (!image(r, c2, std::get<0>(tv), std::get<1>(tv), std::get<2>(tv), img))
                    fail(oracle, "matmul-malformed", segs[si]);
                else {
                    std::string d = first_diff(img, P);
                    if (d != "")
                        fail(oracle, "matmul-value", d);
                }
                // C had to be preallocated (pass 2 cannot resize the private vectors): judge only the used
                // prefix [0, p[row]) of j_/x_, i.e. what a caller able to trim the vectors would obtain
                std::vector<unsigned> pj = std::get<1>(tv);
                size_t used = std::get<0>(tv).empty() ? 0 : std::get<0>(tv).back();
                if (used <= pj.size())
                    pj.resize(used);
                std::string why = strong_canon(r, c2, std::get<0>(tv), pj, pj.size());
                if (why != "")
                    fail(oracle, "matmul-noncanonical", why);
                D = P;
                m = std::move(C);
                res = dump(m);
                out += "|" + res;
                stat("matmul");
                continue; // the result is not canonical in general: no state check
            } else if (op == "ni" && a.size() == 2) {
                expect = "E:NotImplemented";
                res = run_ni(m, a[1]);
            } else
                return "bad-op";
        } catch (const std::exception &e) {
            std::string tok = exc_name(e);
            if (tok != expect)
                fail(oracle, tok == "E:Assert" ? "assert" : "exception",
                     segs[si] + " on " + std::to_string(r) + "x" + std::to_string(c) + ": " + tok + " " + e.what());
            else
                stat("expected_" + tok);
            return out + "|" + tok;
        }
        if (expect != "")
            fail(oracle, "no-error", segs[si] + " should raise " + expect);
        out += "|" + res;
        if (expect == "")
            check_state(m, D, segs[si], oracle);
    }
    return out;
}

// ------------------------------------------------------------------ generation

static std::string qstr(long n, long d)
{
    if (d < 0) {
        n = -n;
        d = -d;
    }
    long a = n < 0 ? -n : n, b = d;
    while (b) {
        long t = a % b;
        a = b;
        b = t;
    }
    if (a > 1) {
        n /= a;
        d /= a;
    }
    return d == 1 ? std::to_string(n) : std::to_string(n) + "/" + std::to_string(d);
}
static std::string rand_val(Rng &r, bool allow_zero = true)
{
    while (true) {
        long n, d = 1;
        unsigned k = (unsigned)r.below(10);
        if (k < 6)
            n = r.range(-4, 4);
        else if (k < 9) {
            n = r.range(-5, 5);
            d = r.range(2, 4);
        } else
            n = r.range(-40, 40);
        if (n == 0 && !allow_zero)
            continue;
        if (n == 0 && r.coin(1, 2))
            continue; // zeros at roughly 6 %
        return qstr(n, d);
    }
}
static std::string rand_coo(Rng &r, unsigned rows, unsigned cols, unsigned n, bool dups)
{
    if (rows == 0 || cols == 0 || n == 0)
        return "-";
    std::vector<std::string> ts;
    std::vector<std::pair<unsigned, unsigned>> used;
    for (unsigned k = 0; k < n; k++) {
        unsigned i = (unsigned)r.below(rows), j = (unsigned)r.below(cols);
        if (dups && !used.empty() && r.coin(1, 4)) {
            auto pr = r.pick(used);
            i = pr.first;
            j = pr.second;
        }
        used.push_back({i, j});
        std::string v = rand_val(r);
        if (dups && ts.size() > 0 && r.coin(1, 12)) {
            // an exactly cancelling duplicate of the previous triple
            auto f = split(ts.back(), ',');
            std::string pv = f[2];
            std::string neg = pv[0] == '-' ? pv.substr(1) : (pv == "0" ? pv : "-" + pv);
            ts.push_back(f[0] + "," + f[1] + "," + neg);
            continue;
        }
        ts.push_back(std::to_string(i) + "," + std::to_string(j) + "," + v);
    }
    return join(ts, ";");
}
static std::string pattern_coo(unsigned rows, unsigned cols, unsigned mask, Rng &r, bool shuffle)
{
    std::vector<std::string> ts;
    for (unsigned i = 0; i < rows; i++)
        for (unsigned j = 0; j < cols; j++)
            if (mask >> (i * cols + j) & 1)
                ts.push_back(std::to_string(i) + "," + std::to_string(j) + "," + std::to_string(1 + i * cols + j));
    if (shuffle)
        for (size_t k = ts.size(); k > 1; k--)
            std::swap(ts[k - 1], ts[r.below(k)]);
    return ts.empty() ? "-" : join(ts, ";");
}
static std::string rand_qlist(Rng &r, unsigned n, bool allow_zero)
{
    if (n == 0)
        return "-";
    std::vector<std::string> v;
    for (unsigned k = 0; k < n; k++)
        v.push_back(rand_val(r, allow_zero));
    return join(v, ",");
}

static std::string rand_history(Rng &r, int len, unsigned maxdim, bool allow_mul)
{
    unsigned rows = 1 + (unsigned)r.below(maxdim), cols = 1 + (unsigned)r.below(maxdim);
    if (r.coin(1, 3))
        cols = rows; // square: keeps conj/diag/T chains in shape
    unsigned nnz = (unsigned)r.below(rows * cols + 3);
    std::string line;
    if (r.coin(1, 10))
        line = "zero " + std::to_string(rows) + " " + std::to_string(cols);
    else
        line = "coo " + std::to_string(rows) + " " + std::to_string(cols) + " " + rand_coo(r, rows, cols, nnz, true);
    for (int s = 0; s < len; s++) {
        unsigned k = (unsigned)r.below(100);
        std::string op;
        if (k < 38) {
            std::string v = r.coin(1, 3) ? "0" : rand_val(r, false);
            op = "set " + std::to_string(r.below(rows)) + " " + std::to_string(r.below(cols)) + " " + v;
        } else if (k < 48)
            op = "get " + std::to_string(r.below(rows)) + " " + std::to_string(r.below(cols));
        else if (k < 58)
            op = "add " + rand_coo(r, rows, cols, (unsigned)r.below(rows * cols + 2), true);
        else if (k < 63)
            op = "sub " + rand_coo(r, rows, cols, (unsigned)r.below(rows * cols + 2), r.coin());
        else if (k < 71)
            op = "emul " + rand_coo(r, rows, cols, (unsigned)r.below(rows * cols + 2), r.coin());
        else if (k < 81) {
            op = "T";
            std::swap(rows, cols);
        } else if (k < 84) {
            if (rows != cols)
                continue; // conjugate of a non-square matrix: separate family (defect in the unpatched code)
            op = "conj";
        } else if (k < 89)
            op = "srows " + rand_qlist(r, rows, false);
        else if (k < 94)
            op = "scols " + rand_qlist(r, cols, false);
        else if (k < 97)
            op = "diag";
        else
            op = "chk";
        line += " | " + op;
    }
    if (allow_mul && r.coin(1, 4)) {
        unsigned c2 = 1 + (unsigned)r.below(cols);
        line += " | mul " + std::to_string(c2) + " " + rand_coo(r, cols, c2, (unsigned)r.below(cols * c2 + 2), true);
    }
    return line;
}

void hx_gen(Rng &r, const std::string &tier)
{
    bool th = tier == "thorough";
    // --- exhaustive small patterns: every sparsity pattern x every single set (insert / overwrite / remove / no-op)
    for (unsigned n : {2u, 3u}) {
        if (n == 3 && !th)
            break;
        unsigned cells = n * n;
        std::string dim = std::to_string(n) + " " + std::to_string(n) + " ";
        for (unsigned mask = 0; mask < (1u << cells); mask++) {
            std::string base = "coo " + dim + pattern_coo(n, n, mask, r, true);
            for (unsigned i = 0; i < n; i++)
                for (unsigned j = 0; j < n; j++) {
                    std::string ij = std::to_string(i) + " " + std::to_string(j);
                    emit(base + " | set " + ij + " 50 | get " + ij, n == 2 ? "exh2-set" : "exh3-set");
                    emit(base + " | set " + ij + " 0 | get " + ij, n == 2 ? "exh2-set0" : "exh3-set0");
                }
            std::string gets;
            for (unsigned i = 0; i < n; i++)
                for (unsigned j = 0; j < n; j++)
                    gets += " | get " + std::to_string(i) + " " + std::to_string(j);
            emit(base + gets + " | diag | T | diag | conj | chk", n == 2 ? "exh2-read" : "exh3-read");
        }
    }
    // every 3x3 pattern once in quick as well (reads + one random set)
    if (!th)
        for (unsigned mask = 0; mask < 512; mask++) {
            std::string ij = std::to_string(r.below(3)) + " " + std::to_string(r.below(3));
            emit("coo 3 3 " + pattern_coo(3, 3, mask, r, true) + " | set " + ij + (r.coin() ? " 0" : " 7")
                     + " | diag | T | chk",
                 "exh3-sample");
        }
    // --- exhaustive pairs of 2x2 patterns for the binary operations and matmat
    for (unsigned ma = 0; ma < 16; ma++)
        for (unsigned mb = 0; mb < 16; mb++) {
            std::string A = "coo 2 2 " + pattern_coo(2, 2, ma, r, false);
            std::string B = pattern_coo(2, 2, mb, r, true);
            emit(A + " | add " + B + " | sub " + B + " | emul " + B, "exh2-binop");
            emit(A + " | mul 2 " + B, "exh2-matmul");
        }
    // cancelling additions: A + (-A) pattern-wise
    for (unsigned ma = 1; ma < 16; ma++) {
        std::string A = pattern_coo(2, 2, ma, r, false);
        emit("coo 2 2 " + A + " | sub " + A + " | add " + A, "exh2-cancel");
    }
    // --- non-square conjugate (rows != cols)
    for (unsigned rr = 1; rr <= 3; rr++)
        for (unsigned cc = 1; cc <= 3; cc++)
            if (rr != cc)
                emit("coo " + std::to_string(rr) + " " + std::to_string(cc) + " " + rand_coo(r, rr, cc, 2, false)
                         + " | conj | get 0 0",
                     "conj-nonsquare");
    // --- from_coo: duplicates, zeros, cancelling duplicates, unsorted input
    int ncoo = th ? 1500 : 200;
    for (int k = 0; k < ncoo; k++) {
        unsigned rows = 1 + (unsigned)r.below(8), cols = 1 + (unsigned)r.below(8);
        unsigned n = (unsigned)r.below(2 * rows * cols > 24 ? 24 : 2 * rows * cols + 1);
        emit("coo " + std::to_string(rows) + " " + std::to_string(cols) + " " + rand_coo(r, rows, cols, n, true)
                 + " | chk | diag",
             "coo-dups");
    }
    emit("coo 1 1 0,0,1;0,0,-1", "coo-cancel");
    emit("coo 2 2 0,1,5;0,1,-5;1,0,0 | set 0 1 0 | set 1 0 0", "coo-cancel");
    emit("coo 3 1 - | T | T | diag", "empty");
    emit("zero 1 1 | get 0 0 | set 0 0 0 | set 0 0 3 | set 0 0 0", "tiny");
    // --- constructor from raw arrays: canonical and broken ones; the static predicates
    int nraw = th ? 1200 : 200;
    for (int k = 0; k < nraw; k++) {
        unsigned rows = 1 + (unsigned)r.below(4), cols = 1 + (unsigned)r.below(4);
        // start from a canonical layout, then maybe break it
        std::vector<unsigned> p(1, 0), j;
        for (unsigned i = 0; i < rows; i++) {
            for (unsigned c = 0; c < cols; c++)
                if (r.coin(1, 2))
                    j.push_back(c);
            p.push_back((unsigned)j.size());
        }
        std::string tag = "raw-canonical";
        unsigned brk = (unsigned)r.below(6);
        if (brk == 1 && j.size() >= 2) { // swap two neighbours (unsorted or harmless across rows)
            size_t q = r.below(j.size() - 1);
            std::swap(j[q], j[q + 1]);
            tag = "raw-swapped";
        } else if (brk == 2 && j.size() >= 2) { // duplicate a neighbour
            size_t q = r.below(j.size() - 1);
            j[q + 1] = j[q];
            tag = "raw-duplicate";
        } else if (brk == 3 && rows >= 2) { // non-monotone p (values stay <= nnz)
            size_t q = 1 + r.below(rows - 1);
            p[q] = (unsigned)r.below(j.size() + 1);
            tag = "raw-p-changed";
        } else if (brk == 4) { // nnz mismatch: drop the last stored entry but keep p
            if (!j.empty()) {
                j.pop_back();
                tag = "raw-short";
            }
        }
        std::string xs = rand_qlist(r, (unsigned)j.size(), false);
        if (tag != "raw-short") {
            emit("chkraw " + std::to_string(rows) + " " + list_str(p) + " " + list_str(j), "chk" + tag);
            emit("raw " + std::to_string(rows) + " " + std::to_string(cols) + " " + list_str(p) + " " + list_str(j)
                     + " " + xs + " | chk | T",
                 tag);
        } else
            emit("raw " + std::to_string(rows) + " " + std::to_string(cols) + " " + list_str(p) + " " + list_str(j)
                     + " " + xs,
                 tag);
    }
    // --- preconditions: out-of-range get/set, wrong scale vector sizes, zero scale factors
    for (int k = 0; k < 12; k++) {
        unsigned rows = 1 + (unsigned)r.below(4), cols = 1 + (unsigned)r.below(4);
        std::string base = "coo " + std::to_string(rows) + " " + std::to_string(cols) + " "
                           + rand_coo(r, rows, cols, rows * cols / 2 + 1, false);
        emit(base + " | set " + std::to_string(rows) + " 0 1", "range");
        emit(base + " | get 0 " + std::to_string(cols + r.below(3)), "range");
        emit(base + " | srows " + rand_qlist(r, rows + 1, false), "range");
        emit(base + " | scols " + rand_qlist(r, cols, false) + " | scols " + rand_qlist(r, cols > 1 ? cols - 1 : 2, false),
             "range");
        std::vector<std::string> zs(rows, "2");
        zs[r.below(rows)] = "0";
        emit(base + " | srows " + join(zs, ","), "scale-zero");
        std::vector<std::string> zc(cols, "3");
        zc[r.below(cols)] = "0";
        emit(base + " | scols " + join(zc, ","), "scale-zero");
    }
    for (const char *nm :
         {"add_matrix", "mul_matrix", "add_scalar", "mul_scalar", "rank", "det", "inv", "submatrix", "LU", "cholesky"})
        emit(std::string("coo 2 2 0,0,1;1,1,2 | ni ") + nm, "not-implemented");
    // --- jacobian of linear maps
    int njac = th ? 200 : 30;
    for (int k = 0; k < njac; k++) {
        unsigned rows = 1 + (unsigned)r.below(5), cols = 1 + (unsigned)r.below(5);
        std::vector<std::string> rs;
        for (unsigned i = 0; i < rows; i++) {
            std::vector<std::string> cs;
            for (unsigned c = 0; c < cols; c++)
                cs.push_back(r.coin(1, 2) ? "0" : rand_val(r, false));
            rs.push_back(join(cs, ","));
        }
        emit("jac " + std::to_string(cols) + " " + join(rs, ";") + " | chk | T", "jacobian");
    }
    // --- random histories
    int nh = th ? 6000 : 700;
    for (int k = 0; k < nh; k++) {
        bool small = r.coin(1, 2);
        int len = 1 + (int)r.below(th ? 24 : 12);
        emit(rand_history(r, len, small ? 3 : 8, true), small ? "hist-small" : "hist-8x8");
    }
    // --- matmat on random shapes (B.col <= A.col: the scratch vectors are sized A.col_)
    int nm = th ? 1500 : 200;
    for (int k = 0; k < nm; k++) {
        unsigned rows = 1 + (unsigned)r.below(6), cols = 1 + (unsigned)r.below(6), c2 = 1 + (unsigned)r.below(cols);
        emit("coo " + std::to_string(rows) + " " + std::to_string(cols) + " "
                 + rand_coo(r, rows, cols, (unsigned)r.below(rows * cols + 2), true) + " | mul " + std::to_string(c2)
                 + " " + rand_coo(r, cols, c2, (unsigned)r.below(cols * c2 + 2), true),
             "matmul");
    }
}
