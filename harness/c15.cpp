// C15: C code printers (C89CodePrinter, C99CodePrinter = ccode(), double and float precision).
//
// op line:  cc <c89|c99> <d|f> <x=hex,y=hex,z=hex> <g=bits|NA|ERR> <dump>
//   the symbols x y z are bound to the given doubles; `g` is what the emitted C code returned when
//   compiled with gcc and run (batch compiled by `hx gen`; NA = not compiled in this batch)
// output:   v=<bits of eval_double at the inputs | E:..>;r=<tree in printing order, RewriteTrigVisitor applied>;s=<C string, \n escaped>
//
// oracles (independent of the Lean model):
//   c_value         value computed by the compiled C code vs a long-double evaluation of the expression
//                   (condition-scaled tolerance; float precision: 1e-5 relative on top)
//   c_compile       the emitted code was rejected by gcc
//   literal15       a RealDouble leaf does not survive print_double (15 significant digits)   [known finding D19]
//   bigint_literal  an Integer >= 2^63 is emitted as a C integer constant                      [known finding D23]
//   unevaluated_paren  an UnevaluatedExpr operand of lower precedence printed without parentheses [known finding D22]
//   recip_denominator  1/f(x) printed for Cot/Csc/Sec/Coth/Csch/Sech without parentheses in a denominator [D25]
//   int_division    integer numerator over an all-Integer Piecewise: int/int                   [known finding D26]
#include "evalfam.h" // (evalfam.h rev 2: the build stamp only hashes this file)
#include <symengine/printers.h>
#include <symengine/printers/codegen.h>
#include <symengine/real_double.h>
#include <fstream>
#include <unistd.h>

using namespace SymEngine;
using namespace evf;

static std::string print_with(const std::string &flavor, bool flt, const Basic &e)
{
    CodePrinterPrecision p = flt ? CodePrinterPrecision::Float : CodePrinterPrecision::Double;
    if (flavor == "c89") {
        C89CodePrinter c(p);
        return c.apply(e);
    }
    C99CodePrinter c(p);
    return c.apply(e);
}

// tree in printing order with the RewriteTrigVisitor rewrites applied (the printer visits
// div(one, tan(arg)) etc. instead of the node)
static std::string rdump(const Basic &b)
{
    auto one_arg = [&](const Basic &x) { return x.get_args()[0]; };
    switch (b.get_type_code()) {
        case SYMENGINE_COT:
            return rdump(*div(one, tan(one_arg(b))));
        case SYMENGINE_CSC:
            return rdump(*div(one, sin(one_arg(b))));
        case SYMENGINE_SEC:
            return rdump(*div(one, cos(one_arg(b))));
        case SYMENGINE_ACOT:
            return rdump(*atan(div(one, one_arg(b))));
        case SYMENGINE_ACSC:
            return rdump(*asin(div(one, one_arg(b))));
        case SYMENGINE_ASEC:
            return rdump(*acos(div(one, one_arg(b))));
        case SYMENGINE_COTH:
            return rdump(*div(one, tanh(one_arg(b))));
        case SYMENGINE_CSCH:
            return rdump(*div(one, sinh(one_arg(b))));
        case SYMENGINE_SECH:
            return rdump(*div(one, cosh(one_arg(b))));
        case SYMENGINE_ACOTH:
            return rdump(*atanh(div(one, one_arg(b))));
        case SYMENGINE_ACSCH:
            return rdump(*asinh(div(one, one_arg(b))));
        case SYMENGINE_ASECH:
            return rdump(*acosh(div(one, one_arg(b))));
        case SYMENGINE_ADD: {
            const Add &a = down_cast<const Add &>(b);
            std::vector<std::pair<RCP<const Basic>, RCP<const Number>>> v(a.get_dict().begin(), a.get_dict().end());
            // PrinterBasicCmp of strprinter.cpp
            std::sort(v.begin(), v.end(), [](const std::pair<RCP<const Basic>, RCP<const Number>> &x,
                                             const std::pair<RCP<const Basic>, RCP<const Number>> &y) {
                if (x.first->__eq__(*y.first))
                    return false;
                return x.first->__cmp__(*y.first) == -1;
            });
            std::string o = "(+ " + vsexp::dump(*a.get_coef());
            for (auto &p : v)
                o += " (" + rdump(*p.first) + " " + vsexp::dump(*p.second) + ")";
            return o + ")";
        }
        case SYMENGINE_MUL: {
            const Mul &m = down_cast<const Mul &>(b);
            std::string o = "(* " + vsexp::dump(*m.get_coef());
            for (auto &p : m.get_dict())
                o += " (" + rdump(*p.first) + " " + rdump(*p.second) + ")";
            return o + ")";
        }
        case SYMENGINE_POW: {
            const Pow &p = down_cast<const Pow &>(b);
            return "(^ " + rdump(*p.get_base()) + " " + rdump(*p.get_exp()) + ")";
        }
        default: {
            vec_basic args = b.get_args();
            if (args.empty() || b.get_type_code() == SYMENGINE_COMPLEX || b.get_type_code() == SYMENGINE_INFTY
                || b.get_type_code() == SYMENGINE_FUNCTIONSYMBOL || b.get_type_code() == SYMENGINE_INTERVAL)
                return vsexp::dump(b);
            std::string o = "(" + type_code_name(b.get_type_code());
            for (auto &a : args)
                o += " " + rdump(*a);
            return o + ")";
        }
    }
}

static std::string esc(const std::string &s)
{
    std::string o;
    for (char c : s) {
        if (c == '\n')
            o += "\\n";
        else
            o += c;
    }
    return o;
}

// what RewriteTrigVisitor visits instead of the node (null for every other kind)
static RCP<const Basic> rewritten(const Basic &b)
{
    auto a = [&]() { return b.get_args()[0]; };
    switch (b.get_type_code()) {
        case SYMENGINE_COT:
            return div(one, tan(a()));
        case SYMENGINE_CSC:
            return div(one, sin(a()));
        case SYMENGINE_SEC:
            return div(one, cos(a()));
        case SYMENGINE_ACOT:
            return atan(div(one, a()));
        case SYMENGINE_ACSC:
            return asin(div(one, a()));
        case SYMENGINE_ASEC:
            return acos(div(one, a()));
        case SYMENGINE_COTH:
            return div(one, tanh(a()));
        case SYMENGINE_CSCH:
            return div(one, sinh(a()));
        case SYMENGINE_SECH:
            return div(one, cosh(a()));
        case SYMENGINE_ACOTH:
            return atanh(div(one, a()));
        case SYMENGINE_ACSCH:
            return asinh(div(one, a()));
        case SYMENGINE_ASECH:
            return acosh(div(one, a()));
        default:
            return RCP<const Basic>();
    }
}

// D25: a reciprocal function node (printed as 1/f(x) by RewriteTrigVisitor, but of precedence Atom) used as the only
// denominator of a product or as the base of a power with exponent -1
static bool is_recip_kind(const Basic &b)
{
    if (is_a<UnevaluatedExpr>(b)) // printed bare: the wrapper changes nothing in the output
        return is_recip_kind(*b.get_args()[0]);
    switch (b.get_type_code()) {
        case SYMENGINE_COT:
        case SYMENGINE_CSC:
        case SYMENGINE_SEC:
        case SYMENGINE_COTH:
        case SYMENGINE_CSCH:
        case SYMENGINE_SECH:
            return true;
        default:
            return false;
    }
}
static bool has_recip_denominator(const Basic &b)
{
    auto one_arg = [&](const Basic &x) { return x.get_args()[0]; };
    switch (b.get_type_code()) { // follow the printer: the rewritten expression is what gets visited
        case SYMENGINE_COT:
            return has_recip_denominator(*div(one, tan(one_arg(b))));
        case SYMENGINE_CSC:
            return has_recip_denominator(*div(one, sin(one_arg(b))));
        case SYMENGINE_SEC:
            return has_recip_denominator(*div(one, cos(one_arg(b))));
        case SYMENGINE_ACOT:
            return has_recip_denominator(*atan(div(one, one_arg(b))));
        case SYMENGINE_ACSC:
            return has_recip_denominator(*asin(div(one, one_arg(b))));
        case SYMENGINE_ASEC:
            return has_recip_denominator(*acos(div(one, one_arg(b))));
        case SYMENGINE_COTH:
            return has_recip_denominator(*div(one, tanh(one_arg(b))));
        case SYMENGINE_CSCH:
            return has_recip_denominator(*div(one, sinh(one_arg(b))));
        case SYMENGINE_SECH:
            return has_recip_denominator(*div(one, cosh(one_arg(b))));
        case SYMENGINE_ACOTH:
            return has_recip_denominator(*atanh(div(one, one_arg(b))));
        case SYMENGINE_ACSCH:
            return has_recip_denominator(*asinh(div(one, one_arg(b))));
        case SYMENGINE_ASECH:
            return has_recip_denominator(*acosh(div(one, one_arg(b))));
        default:
            break;
    }
    if (is_a<Pow>(b)) {
        const Pow &p = down_cast<const Pow &>(b);
        if (eq(*p.get_exp(), *minus_one) && is_recip_kind(*p.get_base()))
            return true;
        return has_recip_denominator(*p.get_base()) || has_recip_denominator(*p.get_exp());
    }
    if (is_a<Mul>(b)) {
        int dens = 0;
        bool bad = false;
        for (auto &p : down_cast<const Mul &>(b).get_dict()) {
            if ((is_a<Integer>(*p.second) || is_a<Rational>(*p.second)) && down_cast<const Number &>(*p.second).is_negative()
                && !eq(*p.first, *E)) {
                dens++;
                if (eq(*p.second, *minus_one) && is_recip_kind(*p.first))
                    bad = true;
            }
        }
        if (dens == 1 && bad)
            return true;
        for (auto &p : down_cast<const Mul &>(b).get_dict())
            if (has_recip_denominator(*p.first) || has_recip_denominator(*p.second))
                return true;
        return false;
    }
    if (is_a<Add>(b)) {
        for (auto &p : down_cast<const Add &>(b).get_dict())
            if (has_recip_denominator(*p.first))
                return true;
        return false;
    }
    for (auto &a : b.get_args())
        if (has_recip_denominator(*a))
            return true;
    return false;
}

// D22: CodePrinter::bvisit(const UnevaluatedExpr&) prints its operand bare while Precedence reports Atom: the
// operand's own precedence is lost when the parent is a product, a coefficient times it, a unary minus or 1/(...)
static int sym_prec(const RCP<const Basic> &b)
{
    Precedence p;
    return (int)p.getPrecedence(b);
}
static bool uneval_loses(const Basic &b, int need, bool strict)
{
    if (!is_a<UnevaluatedExpr>(b))
        return false;
    RCP<const Basic> arg = b.get_args()[0];
    while (is_a<UnevaluatedExpr>(*arg))
        arg = arg->get_args()[0];
    if (is_recip_kind(*arg))
        return false; // classified as recip_denominator (finding D25) by has_recip_denominator
    int pr = sym_prec(arg);
    // a power with exponent -1 is printed as the quotient 1/base although its precedence class is Pow
    if (is_a<Pow>(*arg) && eq(*down_cast<const Pow &>(*arg).get_exp(), *minus_one)
        && !eq(*down_cast<const Pow &>(*arg).get_base(), *E))
        pr = (int)PrecedenceEnum::Mul;
    return strict ? pr <= need : pr < need;
}
static bool has_unevaluated_precedence_loss(const Basic &b)
{
    const int MUL = (int)PrecedenceEnum::Mul;
    {
        auto one_arg = [&](const Basic &x) { return x.get_args()[0]; };
        switch (b.get_type_code()) { // follow the printer through the RewriteTrigVisitor rewrites
            case SYMENGINE_COT:
                return has_unevaluated_precedence_loss(*div(one, tan(one_arg(b))));
            case SYMENGINE_CSC:
                return has_unevaluated_precedence_loss(*div(one, sin(one_arg(b))));
            case SYMENGINE_SEC:
                return has_unevaluated_precedence_loss(*div(one, cos(one_arg(b))));
            case SYMENGINE_ACOT:
                return has_unevaluated_precedence_loss(*atan(div(one, one_arg(b))));
            case SYMENGINE_ACSC:
                return has_unevaluated_precedence_loss(*asin(div(one, one_arg(b))));
            case SYMENGINE_ASEC:
                return has_unevaluated_precedence_loss(*acos(div(one, one_arg(b))));
            case SYMENGINE_COTH:
                return has_unevaluated_precedence_loss(*div(one, tanh(one_arg(b))));
            case SYMENGINE_CSCH:
                return has_unevaluated_precedence_loss(*div(one, sinh(one_arg(b))));
            case SYMENGINE_SECH:
                return has_unevaluated_precedence_loss(*div(one, cosh(one_arg(b))));
            case SYMENGINE_ACOTH:
                return has_unevaluated_precedence_loss(*atanh(div(one, one_arg(b))));
            case SYMENGINE_ACSCH:
                return has_unevaluated_precedence_loss(*asinh(div(one, one_arg(b))));
            case SYMENGINE_ASECH:
                return has_unevaluated_precedence_loss(*acosh(div(one, one_arg(b))));
            default:
                break;
        }
    }
    if (is_a<Pow>(b)) {
        const Pow &p = down_cast<const Pow &>(b);
        if (eq(*p.get_exp(), *minus_one) && uneval_loses(*p.get_base(), MUL, true))
            return true;
    }
    if (is_a<Mul>(b)) {
        const Mul &m = down_cast<const Mul &>(b);
        int dens = 0;
        for (auto &p : m.get_dict())
            if ((is_a<Integer>(*p.second) || is_a<Rational>(*p.second)) && down_cast<const Number &>(*p.second).is_negative()
                && !eq(*p.first, *E))
                dens++;
        for (auto &p : m.get_dict()) {
            if (eq(*p.second, *one) && uneval_loses(*p.first, MUL, false))
                return true;
            if (eq(*p.second, *minus_one) && uneval_loses(*p.first, MUL, dens == 1))
                return true;
        }
    }
    if (is_a<Add>(b)) {
        for (auto &p : down_cast<const Add &>(b).get_dict())
            if (!eq(*p.second, *one) && uneval_loses(*p.first, MUL, false))
                return true;
    }
    for (auto &a : b.get_args())
        if (has_unevaluated_precedence_loss(*a))
            return true;
    if (is_a<Add>(b))
        for (auto &p : down_cast<const Add &>(b).get_dict())
            if (has_unevaluated_precedence_loss(*p.first))
                return true;
    return false;
}

// D26: a quotient whose numerator and denominator are both printed as C `int` expressions (integer literals,
// Piecewise whose branch values are all such) is evaluated by integer division
static bool int_typed(const Basic &b)
{
    if (is_a<Integer>(b))
        return true;
    if (is_a<Piecewise>(b)) {
        for (auto &p : down_cast<const Piecewise &>(b).get_vec())
            if (!int_typed(*p.first))
                return false;
        return true;
    }
    if (is_a<UnevaluatedExpr>(b))
        return int_typed(*b.get_args()[0]);
    return false;
}
static bool has_int_division(const Basic &b)
{
    {
        RCP<const Basic> rw = rewritten(b);
        if (!rw.is_null())
            return has_int_division(*rw);
    }
    if (is_a<Pow>(b)) {
        const Pow &p = down_cast<const Pow &>(b);
        if (eq(*p.get_exp(), *minus_one) && int_typed(*p.get_base()))
            return true;
    }
    if (is_a<Mul>(b)) {
        const Mul &m = down_cast<const Mul &>(b);
        bool num_int = is_a<Integer>(*m.get_coef()), den_int = true;
        int dens = 0;
        for (auto &p : m.get_dict()) {
            bool neg = (is_a<Integer>(*p.second) || is_a<Rational>(*p.second)) && down_cast<const Number &>(*p.second).is_negative()
                       && !eq(*p.first, *E);
            if (neg) {
                dens++;
                if (!(eq(*p.second, *minus_one) && int_typed(*p.first)))
                    den_int = false;
            } else if (!(eq(*p.second, *one) && int_typed(*p.first)))
                num_int = false;
        }
        if (dens > 0 && num_int && den_int)
            return true;
    }
    for (auto &a : b.get_args())
        if (has_int_division(*a))
            return true;
    if (is_a<Add>(b))
        for (auto &p : down_cast<const Add &>(b).get_dict())
            if (has_int_division(*p.first))
                return true;
    return false;
}

static void find_leaf_issues(const Basic &b, std::string &lit15, std::string &bigint)
{
    if (is_a<RealDouble>(b)) {
        double d = down_cast<const RealDouble &>(b).i;
        std::string s = print_double(d);
        if (std::isfinite(d) && strtod(s.c_str(), nullptr) != d && lit15.empty()) {
            std::ostringstream o;
            o.precision(17);
            o << d << " is printed as " << s;
            lit15 = o.str();
        }
    }
    if (is_a<Integer>(b)) {
        const integer_class &i = down_cast<const Integer &>(b).as_integer_class();
        if (mp_abs(i) >= (integer_class(1) << 63) && bigint.empty())
            bigint = vsexp::int_str(i);
    }
    for (auto &a : b.get_args())
        find_leaf_issues(*a, lit15, bigint);
    if (is_a<Add>(b))
        find_leaf_issues(*down_cast<const Add &>(b).get_coef(), lit15, bigint);
}

struct Case {
    std::string flavor;
    bool flt;
    double x, y, z;
    RCP<const Basic> e;
    std::string tag;
    std::string g = "NA";
};

// compile a batch of emitted expressions with gcc and run them
static void gcc_batch(std::vector<Case> &cs, size_t from, size_t to)
{
    char dir[] = "/tmp/verif_c15_XXXXXX";
    if (!mkdtemp(dir))
        return;
    std::string d = dir;
    std::vector<size_t> idx;
    {
        std::ofstream f(d + "/b.c");
        f << "#include <math.h>\n#include <stdio.h>\n#include <string.h>\n"
             "#define EulerGamma 0.57721566490153286060651209008240243\n"
             "#define Catalan 0.91596559417721901505460351493238411\n"
             "#define GoldenRatio 1.61803398874989484820458683436563811\n";
        for (size_t i = from; i < to; i++) {
            std::string code;
            try {
                if (cs[i].flavor == "c89") { // C89 has no tgamma/lgamma: the printer emits gamma(...) / loggamma(...)
                    std::map<std::string, long> kinds;
                    count_kinds(*cs[i].e, kinds);
                    if (kinds.count("Gamma") || kinds.count("LogGamma"))
                        continue;
                }
                code = print_with(cs[i].flavor, cs[i].flt, *cs[i].e);
            } catch (const std::exception &) {
                continue;
            }
            const char *T = cs[i].flt ? "float" : "double";
            f << "static " << T << " f" << i << "(" << T << " x, " << T << " y, " << T << " z) { return " << code << "; }\n";
            idx.push_back(i);
        }
        f << "static void pr(double d){ unsigned long long u; memcpy(&u,&d,8); printf(\"%016llx\\n\", u); }\n";
        f << "int main(void){\n";
        f.precision(17);
        for (size_t i : idx) {
            f << " pr((double)f" << i << "(" << std::hexfloat << cs[i].x << ", " << cs[i].y << ", " << cs[i].z << std::defaultfloat
              << "));\n";
        }
        f << " return 0; }\n";
    }
    std::string cmd = "cd " + d + " && gcc -std=gnu99 -O0 -fno-builtin -w b.c -o b -lm 2> err.txt && ./b > out.txt 2>> err.txt";
    int rc = system(cmd.c_str());
    if (rc != 0) {
        if (to - from > 1) { // bisect to isolate the offending expression(s)
            size_t mid = from + (to - from) / 2;
            gcc_batch(cs, from, mid);
            gcc_batch(cs, mid, to);
        } else if (!idx.empty())
            cs[from].g = "ERR";
    } else {
        std::ifstream o(d + "/out.txt");
        std::string line;
        size_t k = 0;
        while (std::getline(o, line) && k < idx.size())
            cs[idx[k++]].g = line;
    }
    std::string rm = "rm -rf " + d;
    if (system(rm.c_str())) {
    }
}

void hx_gen(Rng &rng, const std::string &tier)
{
    long n = tier == "thorough" ? 6000 : 420;
    std::vector<Case> cs;
    auto add_fixed = [&](const char *fl, bool flt, const std::string &dump, const char *tag) {
        Case c;
        c.flavor = fl;
        c.flt = flt;
        c.x = 0.75;
        c.y = -1.5;
        c.z = 2.25;
        c.e = vsexp::parse(dump);
        c.tag = tag;
        cs.push_back(c);
    };
    add_fixed("c99", false, "(* 2 ((UnevaluatedExpr (+ 1 ((s x) 1))) 1))", "fixed-unevaluated-in-product");
    add_fixed("c99", false, "(+ 0 ((s y) 1) ((UnevaluatedExpr (+ 1 ((s x) 1))) -1))", "fixed-unevaluated-subtracted");
    add_fixed("c89", false, "(* 1 ((s y) 1) ((UnevaluatedExpr (+ 1 ((s x) 1))) -1))", "fixed-unevaluated-denominator");
    add_fixed("c99", false, "(* (D 3ff0000000000012) ((s x) 1))", "fixed-double-17-digits");
    add_fixed("c99", false, "(* 100000000000000000000 ((s x) 1))", "fixed-big-integer");
    add_fixed("c99", false, "(+ 0 ((^ (s x) -1) 2) ((s y) 1))", "fixed-coef-times-reciprocal");
    add_fixed("c99", true, "(+ 1/3 ((^ (s x) 1/3) 2))", "fixed-float");
    add_fixed("c99", false, "(* 3 ((Piecewise 2 (StrictLessThan (s x) 1) 4 true) -1))", "fixed-int-piecewise-divisor");
    add_fixed("c99", false, "(^ (Cot (s y)) -1)", "fixed-reciprocal-of-cot");
    add_fixed("c89", false, "(+ 1/3 ((^ (s x) 1/3) 2) ((Gamma (s z)) 1))", "fixed-c89");
    for (long i = 0; i < n; i++) {
        TreeGen g(rng, true, true);
        g.syms = {symbol("x"), symbol("y"), symbol("z")};
        Case c;
        c.x = g.env["x"] = 0.25 * (double)rng.range(-12, 12) + (rng.coin() ? 0.125 : 0.0);
        c.y = g.env["y"] = 0.25 * (double)rng.range(-12, 12) + (rng.coin() ? 0.0625 : 0.0);
        c.z = g.env["z"] = 0.5 * (double)rng.range(1, 9);
        unsigned fl = rng.below(10);
        c.flavor = fl < 3 ? "c89" : "c99";
        c.flt = rng.coin(1, 6);
        int depth = 1 + (int)rng.below(4);
        try {
            c.e = g.expr(depth);
        } catch (const std::exception &) {
            continue;
        }
        if (is_a_Number(*c.e) && rng.coin(3, 4))
            continue;
        std::string extra;
        if (rng.coin(1, 60)) { // integer-valued Piecewise as a divisor (finding D26)
            RCP<const Basic> pw = piecewise({{integer(rng.range(2, 5)), Lt(symbol("x"), integer(rng.range(-2, 2)))},
                                             {integer(rng.range(6, 9)), boolTrue}});
            c.e = rng.coin() ? div(integer(rng.range(2, 7)), pw) : add(pow(pw, minus_one), c.e);
            extra = "-intdiv";
        } else if (rng.coin(1, 14)) { // a double coefficient that survives 15 significant digits
            static const double ok[] = {0.5, 2.25, 0.1, 1e-3, 12.125, 3.3, 1e22, 123456789012345.0, -123456789012345.0, 1e-5, 1e15, -0.75};
            c.e = add(mul(real_double(ok[rng.below(12)]), c.e), g.leaf());
            extra = "-dbl";
        } else if (rng.coin(1, 40)) { // and one that does not (finding D19)
            static const double bad[] = {0.1 + 0.2, 1.0000000000000004, 2.0 / 3.0, 1e22 / 3.0};
            c.e = add(mul(real_double(bad[rng.below(4)]), c.e), g.leaf());
            extra = "-dbl17";
        }
        c.tag = c.flavor + (c.flt ? "f" : "d") + "-d" + std::to_string(depth) + "-" + type_code_name(c.e->get_type_code()) + extra;
        cs.push_back(c);
    }
    // compile everything (batches keep a single failure from spoiling the rest)
    if (access("/usr/bin/gcc", X_OK) == 0) {
        for (size_t from = 0; from < cs.size(); from += 250)
            gcc_batch(cs, from, std::min(cs.size(), from + 250));
    }
    for (auto &c : cs)
        emit("cc " + c.flavor + " " + (c.flt ? "f" : "d") + " x=" + bits(c.x) + ",y=" + bits(c.y) + ",z=" + bits(c.z) + " g=" + c.g
                 + " " + vsexp::dump(*c.e),
             c.tag);
}

std::string hx_run(const std::string &op, std::string &oracle)
{
    std::vector<std::string> w = split(op, ' ');
    if (w.size() < 6 || w[0] != "cc")
        throw std::runtime_error("bad op");
    std::string flavor = w[1];
    bool flt = w[2] == "f";
    Env env;
    for (auto &kv : split(w[3], ',')) {
        size_t eqp = kv.find('=');
        env[kv.substr(0, eqp)] = vsexp::hex_dbl(kv.substr(eqp + 1));
    }
    std::string g = w[4].substr(2);
    size_t pos = 0;
    for (int k = 0; k < 5; k++)
        pos = op.find(' ', pos) + 1;
    RCP<const Basic> e = vsexp::parse(op.substr(pos));
    std::map<std::string, long> kinds;
    count_kinds(*e, kinds);
    for (auto &kv : kinds)
        stat("kind_" + kv.first, kv.second);
    std::string s;
    try {
        s = print_with(flavor, flt, *e);
    } catch (const SymEngine::VerifAssertError &) {
        throw;
    } catch (const std::exception &ex) {
        stat("printer_threw");
        return "v=NA;r=" + rdump(*e) + ";s=" + exc_name(ex);
    }
    stat(flavor + (flt ? "_float" : "_double"));
    // value of the expression at the inputs by the library itself
    std::string v;
    try {
        map_basic_basic sub;
        for (auto &kv : env)
            sub[symbol(kv.first)] = real_double(kv.second);
        v = bits(eval_double(*e->subs(sub)));
    } catch (const std::exception &ex) {
        v = exc_name(ex);
    }
    std::string lit15, bigint;
    find_leaf_issues(*e, lit15, bigint);
    if (!lit15.empty()) {
        oracle = "FAIL:literal15:RealDouble " + lit15;
        stat("literal15");
    } else if (!bigint.empty() && !flt) {
        oracle = "FAIL:bigint_literal:Integer " + bigint + " is emitted as a C integer constant";
        stat("bigint_literal");
    }
    if (oracle == "ok" && has_recip_denominator(*e)) {
        oracle = "FAIL:recip_denominator:" + esc(s).substr(0, 200);
        stat("recip_denominator");
    }
    if (oracle == "ok" && has_unevaluated_precedence_loss(*e)) {
        oracle = "FAIL:unevaluated_paren:" + esc(s).substr(0, 200);
        stat("unevaluated_paren");
    }
    if (oracle == "ok" && !flt && has_int_division(*e)) {
        oracle = "FAIL:int_division:" + esc(s).substr(0, 200);
        stat("int_division");
    }
    if (g == "ERR") {
        if (oracle == "ok")
            oracle = "FAIL:c_compile:gcc rejected: " + esc(s).substr(0, 300);
    } else if (g != "NA") {
        double gv = vsexp::hex_dbl(g);
        try {
            RefEval re(&env, true);
            Ref r = re.eval(*e);
            Verdict vd;
            if (!flt)
                vd = judge(r, gv);
            else {
                // float arithmetic: every operation rounds to 24 bits, the first-order bound scales by 2^29
                vd = Verdict{false, true, "", r.v};
                LD scale = std::max(fabsl(r.v), (LD)1e-30L);
                LD ef = r.e * 5.4e8L;
                if (r.ill || !std::isfinite((double)r.v) || fabsl(r.v) > 1e12L || ef > 1e-2L * scale)
                    vd.discarded = true;
                else {
                    LD allow = 4 * ef + 16 * 5.96e-8L * scale;
                    LD diff = fabsl((LD)gv - r.v);
                    if (!(diff <= allow)) {
                        vd.ok = false;
                        std::ostringstream o;
                        o.precision(9);
                        o << "got=" << gv << " ref=" << (double)r.v << " diff=" << (double)diff << " allowed=" << (double)allow << " (float)";
                        vd.why = o.str();
                    }
                }
            }
            if (vd.discarded)
                stat("c_value_discarded_illconditioned");
            else if (!vd.ok) {
                if (oracle == "ok")
                    oracle = "FAIL:c_value:compiled C code " + vd.why + " code=" + esc(s).substr(0, 200);
            } else
                stat(flt ? "c_value_checked_float" : "c_value_checked_double");
        } catch (Unsupported &) {
            stat("c_value_no_reference");
        }
    } else
        stat("not_compiled");
    return "v=" + v + ";r=" + rdump(*e) + ";s=" + esc(s);
}
