// C45: arbitrary-precision evaluation (eval_mpfr, evalf > 53 bits) and RealMPFR arithmetic.
// Only meaningful in a build with MPFR (config `mpfr`); MPC is not installed, so the complex half
// (eval_mpc, ComplexMPC) is covered by the translated-formula theorems only.
//
// op lines
//   ev <prec> <dump>                         closed tree, eval_mpfr / evalf at <prec> bits
//   ar <op> <p> <this> <kind> <other> [<q>]  RealMPFR(<this> at p bits) <op> other;  op in add sub rsub mul div rdiv pow rpow,
//                                            kind in Integer Rational RealDouble RealMPFR Complex ComplexDouble;
//                                            <this>/<other> decimal strings (Rational n/d, Complex a,b), <q> = precision of a RealMPFR other
// impl output
//   ev:  v=<bits of the result rounded to double | E:..>;tol=<ulps>;sp=<special table>;o=<ordered dump>
//   ar:  R<precision of the RealMPFR result> | Z (exact Integer zero) | E:Runtime (needs MPC) | K:<other result kind>
//
// oracles (independent of the Lean model)
//   mpfr_vs_ref         eval_mpfr result vs the long-double reference evaluator of evalfam.h (condition-scaled)
//   mpfr_self_consistent eval_mpfr at p vs the same tree at 2p+64 bits: agreement to p - g bits
//   evalf_precision     evalf(e, p, Real) is a RealMPFR of precision exactly p whose value is eval_mpfr's at p
//   arith_precision     result of RealMPFR arithmetic has the operands' (larger) precision
//   arith_rounding      … and is the correctly rounded value of the exact operation (reference at 4·max(p,q)+256 bits)
//   arith_domain        real powers with a non-negative base must not be sent to the complex branch
#include "evalfam.h"
#include <symengine/real_double.h>
#include <symengine/complex.h>
#include <symengine/complex_double.h>
#ifdef HAVE_SYMENGINE_MPFR
#include <mpfr.h>
#include <symengine/real_mpfr.h>
#include <symengine/eval_mpfr.h>
#endif

using namespace SymEngine;
using namespace evf;

static const long PRECS[] = {64, 113, 200, 500};

#ifndef HAVE_SYMENGINE_MPFR
void hx_gen(Rng &, const std::string &)
{
    emit("nompfr", "trivial-no-mpfr");
}
std::string hx_run(const std::string &, std::string &oracle)
{
    oracle = "FAIL:config:harness built without MPFR";
    return "NOMPFR";
}
#else

static std::string dec_of(Rng &r, bool allow_neg = true, bool small = false)
{
    // decimal literal d.ddddddd e k
    std::string s = (allow_neg && r.coin(1, 3)) ? "-" : "";
    s += tostr(r.range(1, 9)) + ".";
    int nd = (int)r.range(1, 18);
    for (int i = 0; i < nd; i++)
        s += tostr(r.below(10));
    long e = small ? r.range(-2, 2) : r.range(-6, 8);
    return s + "e" + tostr(e);
}

void hx_gen(Rng &rng, const std::string &tier)
{
    bool th = tier == "thorough";
    // minimised past findings / boundary cases first
    emit("ev 113 (ASec 3)", "fixed-asec");
    emit("ev 113 (ACsc 3)", "fixed-acsc");
    emit("ev 64 (ASec -3/2)", "fixed-asec");
    emit("ev 200 (ATan2 1 2)", "fixed-atan2");
    emit("ev 113 (^ 2 1/2)", "fixed-pow");
    emit("ev 113 (k GoldenRatio)", "fixed-const");
    emit("ev 500 (k EulerGamma)", "fixed-const");
    emit("ev 64 (+ 1 ((k pi) 2))", "fixed-add");
    emit("ar rpow 113 -1.5e0 RealDouble 2.0e0", "fixed-rpow-negative-exponent");
    emit("ar rpow 113 2.5e0 RealDouble 3.0e0", "fixed-rpow");
    emit("ar rdiv 64 3.0e0 Integer 7", "fixed-rdiv");
    emit("ar mul 64 3.0e0 Integer 0", "fixed-mul-zero");
    emit("ar pow 64 -2.0e0 Rational 1/2", "fixed-pow-negative-base");
    long n_ev = th ? 5000 : 600, n_ar = th ? 12000 : 1500;
    for (long i = 0; i < n_ev; i++) {
        TreeGen g(rng, false);
        int depth = 1 + (int)rng.below(th ? 4 : 3);
        RCP<const Basic> e = g.expr(depth);
        if (is_a_Number(*e) && rng.coin(3, 4))
            e = g.unary_fn(1);
        long p = PRECS[rng.below(4)];
        emit("ev " + tostr(p) + " " + vsexp::dump(*e), "ev-p" + tostr(p) + "-d" + tostr(depth) + "-" + type_code_name(e->get_type_code()));
    }
    static const char *ops[] = {"add", "sub", "rsub", "mul", "div", "rdiv", "pow", "rpow"};
    static const char *kinds[] = {"Integer", "Rational", "RealDouble", "RealMPFR", "Complex", "ComplexDouble"};
    for (long i = 0; i < n_ar; i++) {
        std::string op = ops[rng.below(8)];
        bool is_pow = op == "pow" || op == "rpow";
        bool rop = op[0] == 'r';
        std::string kind;
        do {
            kind = kinds[rng.below(rng.coin(1, 8) ? 6 : 4)];
        } while (rop && kind == "RealMPFR");
        long p = PRECS[rng.below(4)];
        std::string self = dec_of(rng, true, is_pow);
        std::string other, q;
        if (kind == "Integer") {
            long v = rng.coin(1, 12) ? 0 : rng.range(is_pow ? -6 : -100000, is_pow ? 9 : 100000);
            if (rng.coin(1, 10) && !is_pow && v != 0)
                other = tostr(v) + "000000000000000000000000000000000007"; // wider than 113 bits
            else
                other = tostr(v);
        } else if (kind == "Rational") {
            long d = rng.range(2, is_pow ? 9 : 9999), nn = rng.range(is_pow ? -20 : -99999, is_pow ? 30 : 99999);
            RCP<const Number> qv = Rational::from_two_ints(nn, d);
            if (is_a<Integer>(*qv))
                qv = Rational::from_two_ints(2 * nn + 1, 2);
            other = qv->__str__();
        } else if (kind == "RealDouble") {
            other = dec_of(rng, true, is_pow);
        } else if (kind == "RealMPFR") {
            other = dec_of(rng, true, is_pow);
            q = tostr(PRECS[rng.below(4)]);
        } else if (kind == "Complex") {
            other = tostr(rng.range(-5, 5)) + "," + tostr(rng.range(1, 5));
        } else {
            other = dec_of(rng, true, true) + "," + dec_of(rng, false, true);
        }
        std::string sg = std::string(self[0] == '-' ? "n" : "p") + (other[0] == '-' ? "n" : "p");
        emit("ar " + op + " " + tostr(p) + " " + self + " " + kind + " " + other + (q.empty() ? "" : " " + q),
             "ar-" + op + "-" + kind + (is_pow ? "-" + sg : ""));
    }
}

static std::string mpfr_str(mpfr_srcptr x)
{
    char buf[400];
    mpfr_snprintf(buf, sizeof buf, "%.40Rg", x);
    return buf;
}

// bits of agreement between a (precision p value) and the reference b
static long agree_bits(mpfr_srcptr a, mpfr_srcptr b)
{
    if (mpfr_nan_p(a) || mpfr_nan_p(b))
        return (mpfr_nan_p(a) && mpfr_nan_p(b)) ? 100000 : 0;
    if (mpfr_inf_p(a) || mpfr_inf_p(b))
        return (mpfr_inf_p(a) && mpfr_inf_p(b) && mpfr_sgn(a) == mpfr_sgn(b)) ? 100000 : 0;
    if (mpfr_cmp(a, b) == 0)
        return 100000;
    if (mpfr_zero_p(b))
        return 0;
    mpfr_t d;
    mpfr_init2(d, mpfr_get_prec(b) + 64);
    mpfr_sub(d, a, b, MPFR_RNDN);
    mpfr_div(d, d, b, MPFR_RNDN);
    mpfr_abs(d, d, MPFR_RNDN);
    long e = (long)mpfr_get_exp(d); // |rel| < 2^e
    mpfr_clear(d);
    return -e;
}

static std::string run_ev(const std::vector<std::string> &w, const std::string &op, std::string &oracle)
{
    long p = atol(w.at(1).c_str());
    size_t pos = op.find(' ', 3);
    RCP<const Basic> e = vsexp::parse(op.substr(pos + 1));
    std::map<std::string, long> kinds;
    count_kinds(*e, kinds);
    for (auto &kv : kinds)
        stat("kind_" + kv.first, kv.second);
    stat("ev_p" + tostr(p));
    std::string v, tol = "0";
    std::vector<std::string> spec;
    mpfr_class r(p);
    bool ok = false;
    try {
        eval_mpfr(r.get_mpfr_t(), *e, MPFR_RNDN);
        ok = true;
        v = bits(mpfr_get_d(r.get_mpfr_t(), MPFR_RNDN));
    } catch (const SymEngine::VerifAssertError &) {
        v = "E:Assert";
    } catch (const std::exception &ex) {
        v = exc_name(ex);
    }
    if (!ok)
        stat("ev_threw_" + v);
    Ref ref;
    bool have_ref = false;
    try {
        RefEval re(nullptr, false);
        ref = re.eval(*e);
        have_ref = true;
    } catch (Unsupported &) {
        stat("no_reference");
    }
    // special-function operand values for the model run (also when eval_mpfr throws: the model must get as far)
    collect_special(*e, [](const Basic &b) { return eval_double(b); }, spec);
    if (ok) {
        double got = mpfr_get_d(r.get_mpfr_t(), MPFR_RNDN);
        // ---- oracle 1: vs the independent long double reference
        if (have_ref) {
            Verdict vd = judge(ref, got);
            if (vd.discarded)
                stat("ref_discarded_illconditioned");
            else {
                stat("ref_checked");
                if (!vd.ok)
                    oracle = "FAIL:mpfr_vs_ref:p=" + tostr(p) + " " + vd.why;
                LD scale = std::max(fabsl(ref.v), (LD)1e-300L);
                LD allow = 4 * ref.e + 8 * EPS * scale;
                long t = (long)ceill(allow / (2 * EPS * scale)) + 4;
                tol = tostr(t > 4000000 ? 4000000 : t);
            }
        }
        // ---- oracle 2: precision p vs 2p+64
        if (have_ref && !ref.ill && std::isfinite((double)ref.v) && ref.v != 0) {
            mpfr_class hi(2 * p + 64);
            eval_mpfr(hi.get_mpfr_t(), *e, MPFR_RNDN);
            LD amp = ref.e / (EPS * fabsl(ref.v));
            if (!(amp >= 1))
                amp = 1;
            if (amp > 1e7L) {
                stat("selfcons_discarded_illconditioned");
            } else {
                long g = (long)ceill(log2l(amp)) + 10;
                long ab = agree_bits(r.get_mpfr_t(), hi.get_mpfr_t());
                stat("selfcons_checked");
                stat("selfcons_guard_bits_total", g);
                if (ab < p - g && oracle == "ok")
                    oracle = "FAIL:mpfr_self_consistent:p=" + tostr(p) + " agrees with the " + tostr(2 * p + 64) + "-bit value to " + tostr(ab)
                             + " bits only (guard " + tostr(g) + "): " + mpfr_str(r.get_mpfr_t()) + " vs " + mpfr_str(hi.get_mpfr_t());
            }
        }
    }
    // ---- oracle 3: evalf dispatch
    try {
        RCP<const Basic> ef = evalf(*e, (unsigned long)p, EvalfDomain::Real);
        if (!is_a<RealMPFR>(*ef)) {
            if (oracle == "ok")
                oracle = "FAIL:evalf_precision:evalf(e," + tostr(p) + ",Real) is a " + type_code_name(ef->get_type_code());
        } else {
            const RealMPFR &m = down_cast<const RealMPFR &>(*ef);
            stat("evalf_checked");
            if ((long)m.get_prec() != p && oracle == "ok")
                oracle = "FAIL:evalf_precision:requested " + tostr(p) + " bits, result has " + tostr((long)m.get_prec());
            if (ok && !(mpfr_equal_p(m.i.get_mpfr_t(), r.get_mpfr_t()) || (mpfr_nan_p(m.i.get_mpfr_t()) && mpfr_nan_p(r.get_mpfr_t())))
                && oracle == "ok")
                oracle = "FAIL:evalf_precision:evalf and eval_mpfr differ at " + tostr(p) + " bits";
        }
        if (!ok && oracle == "ok")
            oracle = "FAIL:evalf_precision:eval_mpfr threw " + v + " but evalf returned";
    } catch (const std::exception &ex) {
        if (ok && oracle == "ok")
            oracle = "FAIL:evalf_precision:evalf threw " + exc_name(ex) + " but eval_mpfr returned";
    }
    return "v=" + v + ";tol=" + tol + ";sp=" + join(spec, ",") + ";o=" + odump(*e);
}

static RCP<const Number> mk_mpfr(const std::string &s, long p)
{
    return real_mpfr(mpfr_class(s, p, 10));
}

static std::string run_ar(const std::vector<std::string> &w, std::string &oracle)
{
    std::string op = w.at(1);
    long p = atol(w.at(2).c_str());
    std::string kind = w.at(4), os = w.at(5);
    long q = w.size() > 6 ? atol(w[6].c_str()) : 0;
    RCP<const Number> self = mk_mpfr(w.at(3), p), other;
    if (kind == "Integer")
        other = integer(integer_class(os));
    else if (kind == "Rational") {
        size_t sl = os.find('/');
        other = Rational::from_two_ints(*integer(integer_class(os.substr(0, sl))), *integer(integer_class(os.substr(sl + 1))));
    } else if (kind == "RealDouble")
        other = real_double(strtod(os.c_str(), nullptr));
    else if (kind == "RealMPFR")
        other = mk_mpfr(os, q);
    else if (kind == "Complex") {
        size_t c = os.find(',');
        other = Complex::from_two_nums(*integer(integer_class(os.substr(0, c))), *integer(integer_class(os.substr(c + 1))));
    } else if (kind == "ComplexDouble") {
        size_t c = os.find(',');
        other = complex_double(std::complex<double>(strtod(os.substr(0, c).c_str(), nullptr), strtod(os.substr(c + 1).c_str(), nullptr)));
    } else
        throw std::runtime_error("bad kind");
    stat("ar_" + op + "_" + kind);
    RCP<const Number> res;
    std::string tok;
    try {
        if (op == "add")
            res = addnum(self, other);
        else if (op == "sub")
            res = subnum(self, other);
        else if (op == "rsub")
            res = subnum(other, self);
        else if (op == "mul")
            res = mulnum(self, other);
        else if (op == "div")
            res = divnum(self, other);
        else if (op == "rdiv")
            res = divnum(other, self);
        else if (op == "pow")
            res = pownum(self, other);
        else if (op == "rpow")
            res = pownum(other, self);
        else
            throw std::runtime_error("bad op");
    } catch (const SymEngine::VerifAssertError &) {
        return "E:Assert";
    } catch (const SymEngine::SymEngineException &ex) {
        tok = exc_name(ex);
    }
    bool complex_kind = kind == "Complex" || kind == "ComplexDouble";
    // expected class of the mathematical result
    const mpfr_class &a = down_cast<const RealMPFR &>(*self).i;
    bool is_pow = op == "pow" || op == "rpow";
    bool base_neg = false;
    if (!complex_kind) {
        if (op == "pow")
            base_neg = mpfr_sgn(a.get_mpfr_t()) < 0;
        else if (op == "rpow")
            base_neg = other->is_negative();
    }
    if (!tok.empty()) {
        stat("ar_threw");
        // without MPC a complex result cannot be represented: acceptable only when the result may be complex
        bool may_be_complex = complex_kind || (is_pow && base_neg && !(op == "pow" && kind == "Integer"));
        if (!may_be_complex)
            oracle = "FAIL:arith_domain:" + op + " " + kind + " threw " + tok + " although base and exponent are real and the base is not negative ("
                     + self->__str__() + ", " + other->__str__() + ")";
        return tok;
    }
    if (is_a<Integer>(*res) && down_cast<const Integer &>(*res).is_zero())
        return "Z";
    if (!is_a<RealMPFR>(*res))
        return "K:" + type_code_name(res->get_type_code());
    const RealMPFR &rm = down_cast<const RealMPFR &>(*res);
    long rp = (long)rm.get_prec();
    long want_p = kind == "RealMPFR" ? std::max(p, q) : p;
    if (rp != want_p)
        oracle = "FAIL:arith_precision:" + op + " " + kind + " precision " + tostr(rp) + ", operands " + tostr(p) + (q ? "/" + tostr(q) : "");
    // ---- reference: exact operands at high precision, one rounding to the result precision
    if (is_pow && base_neg && !(op == "pow" && kind == "Integer")) {
        stat("ar_real_result_for_negative_base");
    }
    long P = 4 * std::max(p, q) + 256;
    mpfr_t x, y, z, want;
    mpfr_init2(x, P);
    mpfr_init2(y, P + 256);
    mpfr_init2(z, P);
    mpfr_init2(want, want_p);
    mpfr_set(x, a.get_mpfr_t(), MPFR_RNDN);
    bool exact_y = true;
    if (kind == "Integer") {
        mpfr_set_prec(y, std::max<long>(P, (long)mpz_sizeinbase(get_mpz_t(down_cast<const Integer &>(*other).as_integer_class()), 2) + 8));
        mpfr_set_z(y, get_mpz_t(down_cast<const Integer &>(*other).as_integer_class()), MPFR_RNDN);
    } else if (kind == "Rational") {
        mpfr_set_q(y, get_mpq_t(down_cast<const Rational &>(*other).as_rational_class()), MPFR_RNDN);
        exact_y = false;
    } else if (kind == "RealDouble")
        mpfr_set_d(y, down_cast<const RealDouble &>(*other).i, MPFR_RNDN);
    else
        mpfr_set(y, down_cast<const RealMPFR &>(*other).i.get_mpfr_t(), MPFR_RNDN);
    (void)exact_y;
    if (op == "add")
        mpfr_add(z, x, y, MPFR_RNDN);
    else if (op == "sub")
        mpfr_sub(z, x, y, MPFR_RNDN);
    else if (op == "rsub")
        mpfr_sub(z, y, x, MPFR_RNDN);
    else if (op == "mul")
        mpfr_mul(z, x, y, MPFR_RNDN);
    else if (op == "div")
        mpfr_div(z, x, y, MPFR_RNDN);
    else if (op == "rdiv")
        mpfr_div(z, y, x, MPFR_RNDN);
    else if (op == "pow")
        mpfr_pow(z, x, y, MPFR_RNDN);
    else
        mpfr_pow(z, y, x, MPFR_RNDN);
    mpfr_set(want, z, MPFR_RNDN);
    bool same = mpfr_equal_p(want, rm.i.get_mpfr_t()) || (mpfr_nan_p(want) && mpfr_nan_p(rm.i.get_mpfr_t()));
    stat("ar_rounding_checked");
    if (!same && rp == want_p && oracle == "ok") {
        long ab = agree_bits(rm.i.get_mpfr_t(), z);
        oracle = "FAIL:arith_rounding:" + op + " " + kind + " at " + tostr(want_p) + " bits: got " + mpfr_str(rm.i.get_mpfr_t()) + " want "
                 + mpfr_str(want) + " (agree to " + tostr(ab) + " bits)";
    }
    mpfr_clear(x);
    mpfr_clear(y);
    mpfr_clear(z);
    mpfr_clear(want);
    return "R" + tostr(rp);
}

std::string hx_run(const std::string &op, std::string &oracle)
{
    std::vector<std::string> w = split(op, ' ');
    if (w.at(0) == "ev")
        return run_ev(w, op, oracle);
    if (w.at(0) == "ar")
        return run_ar(w, oracle);
    throw std::runtime_error("bad op");
}
#endif
