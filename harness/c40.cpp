// C40: API workloads are memory-safe and leak-free (partial: protocol proved, the rest explored).
//
// Op lines
//   T <op>;<op>;...     a handle-level program over a pool of RCP<const Basic> slots (slot numbers are
//                       allocated sequentially by every op except drop/as/mas):
//                         sym:<name> int:<n> rat:<p>/<q>          leaves
//                         cp:<i> mv:<i> as:<dst>,<src> mas:<dst>,<src> drop:<i> rft:<i>   real RCP operations
//                         add|mul|sub|div|pow:<i>,<j>  neg|expand|sin|cos|exp|log:<i>
//                         diff:<i>,<j>  subs:<i>,<j>,<k>            library calls
//                       Output = the reference-level trace (see lean/Drv/C40.lean): after every op the harness walks
//                       the *stored* fields of everything reachable from its slots, tells the model which objects are
//                       new / which existing object came back (aliasing), and prints the real use_count() of every
//                       tracked object.  The Lean driver replays this on the protocol model.
//   W <kind> <seed> <size>   a whole API workload (arith expand calculus parse print matrix dense densesq sparse poly sets ntheory series
//                       solve serialize), executed repeatedly; output `delta=<blocks>,<bytes>` = heap growth of a
//                       measured repetition once all handles died (global operator new/delete and GMP allocator are
//                       replaced by counting versions below).
// The same binary built in the `asan` configuration (ASan+UBSan+LeakSanitizer) turns any memory error into a crash.
#include "common.h"
#include <malloc.h>
#include <new>
#include <set>
#include <unordered_set>
#include <functional>
#include <tuple>
#include <gmp.h>
#include <symengine/basic.h>
#include <symengine/add.h>
#include <symengine/mul.h>
#include <symengine/pow.h>
#include <symengine/integer.h>
#include <symengine/rational.h>
#include <symengine/symbol.h>
#include <symengine/constants.h>
#include <symengine/functions.h>
#include <symengine/infinity.h>
#include <symengine/visitor.h>
#include <symengine/parser.h>
#include <symengine/printers.h>
#include <symengine/matrix.h>
#include <symengine/sets.h>
#include <symengine/logic.h>
#include <symengine/ntheory.h>
#include <symengine/series.h>
#include <symengine/solve.h>
#include <symengine/eval_double.h>
#include <symengine/polys/uintpoly.h>
#include <symengine/polys/uratpoly.h>
#include <symengine/polys/uexprpoly.h>

using namespace SymEngine;
typedef RCP<const Basic> B;

// ---------------------------------------------------------------- allocation accounting
static long g_blocks = 0, g_bytes = 0;
static bool g_track = false;

template <class T>
struct MAlloc {
    typedef T value_type;
    MAlloc() {}
    template <class U>
    MAlloc(const MAlloc<U> &) {}
    T *allocate(size_t n)
    {
        return static_cast<T *>(malloc(n * sizeof(T)));
    }
    void deallocate(T *p, size_t)
    {
        free(p);
    }
    template <class U>
    struct rebind {
        typedef MAlloc<U> other;
    };
    bool operator==(const MAlloc &) const
    {
        return true;
    }
    bool operator!=(const MAlloc &) const
    {
        return false;
    }
};
typedef std::unordered_set<const void *, std::hash<const void *>, std::equal_to<const void *>, MAlloc<const void *>>
    PtrSet;
static PtrSet *newset()
{
    static PtrSet *s = nullptr;
    if (!s) {
        void *m = malloc(sizeof(PtrSet));
        s = new (m) PtrSet();
    }
    return s;
}
static inline void *acct_new(size_t n)
{
    void *p = malloc(n ? n : 1);
    if (!p)
        throw std::bad_alloc();
    g_blocks++;
    g_bytes += (long)malloc_usable_size(p);
    if (g_track)
        newset()->insert(p);
    return p;
}
static inline void acct_del(void *p)
{
    if (!p)
        return;
    g_blocks--;
    g_bytes -= (long)malloc_usable_size(p);
    if (g_track)
        newset()->erase(p);
    free(p);
}
void *operator new(size_t n)
{
    return acct_new(n);
}
void *operator new[](size_t n)
{
    return acct_new(n);
}
void *operator new(size_t n, const std::nothrow_t &) noexcept
{
    try {
        return acct_new(n);
    } catch (...) {
        return nullptr;
    }
}
void *operator new[](size_t n, const std::nothrow_t &) noexcept
{
    try {
        return acct_new(n);
    } catch (...) {
        return nullptr;
    }
}
void operator delete(void *p) noexcept
{
    acct_del(p);
}
void operator delete[](void *p) noexcept
{
    acct_del(p);
}
void operator delete(void *p, size_t) noexcept
{
    acct_del(p);
}
void operator delete[](void *p, size_t) noexcept
{
    acct_del(p);
}
void operator delete(void *p, const std::nothrow_t &) noexcept
{
    acct_del(p);
}
void operator delete[](void *p, const std::nothrow_t &) noexcept
{
    acct_del(p);
}
// GMP limbs: same counters (plain malloc/free underneath, so blocks allocated before the hook are compatible)
static void *gm_alloc(size_t n)
{
    void *p = malloc(n ? n : 1);
    g_blocks++;
    g_bytes += (long)malloc_usable_size(p);
    return p;
}
static void *gm_realloc(void *q, size_t, size_t n)
{
    if (q) {
        g_blocks--;
        g_bytes -= (long)malloc_usable_size(q);
    }
    void *p = realloc(q, n ? n : 1);
    g_blocks++;
    g_bytes += (long)malloc_usable_size(p);
    return p;
}
static void gm_free(void *p, size_t)
{
    if (!p)
        return;
    g_blocks--;
    g_bytes -= (long)malloc_usable_size(p);
    free(p);
}
static struct GmpHook {
    GmpHook()
    {
        mp_set_memory_functions(gm_alloc, gm_realloc, gm_free);
    }
} g_gmp_hook;

static bool is_new_alloc(const Basic *p)
{
    return newset()->count(dynamic_cast<const void *>(p)) != 0;
}

// ---------------------------------------------------------------- stored members of an object
struct Opaque {
    std::string cls;
};
static void stored_children(const Basic &b, std::vector<const Basic *> &out)
{
    out.clear();
    if (is_a<Infty>(b)) {
        out.push_back(down_cast<const Infty &>(b).get_direction().get());
        return;
    }
    if (is_a_Number(b) || is_a<Symbol>(b) || is_a<Dummy>(b) || is_a<Constant>(b) || is_a<BooleanAtom>(b))
        return;
    if (is_a<Add>(b)) {
        const Add &a = down_cast<const Add &>(b);
        out.push_back(a.get_coef().get());
        for (auto &p : a.get_dict()) {
            out.push_back(p.first.get());
            out.push_back(p.second.get());
        }
        return;
    }
    if (is_a<Mul>(b)) {
        const Mul &a = down_cast<const Mul &>(b);
        out.push_back(a.get_coef().get());
        for (auto &p : a.get_dict()) {
            out.push_back(p.first.get());
            out.push_back(p.second.get());
        }
        return;
    }
    if (is_a<Pow>(b)) {
        const Pow &a = down_cast<const Pow &>(b);
        out.push_back(a.get_base().get());
        out.push_back(a.get_exp().get());
        return;
    }
    if (auto f = dynamic_cast<const OneArgFunction *>(&b)) {
        out.push_back(f->get_arg().get());
        return;
    }
    throw Opaque{type_code_name(b.get_type_code())};
}

// ---------------------------------------------------------------- the traced pool
struct RcTrace {
    std::vector<B> pool;
    std::vector<long> poolH;              // model handle of each slot
    std::vector<std::string> poolStr;     // printed form when the slot was filled (immutability oracle)
    std::map<const Basic *, long> oid;    // tracked live objects
    std::map<const Basic *, std::vector<const Basic *>> kids; // stored members of tracked non-ext objects
    std::map<const Basic *, long> extBase;
    std::set<const Basic *> ext;
    std::map<long, const Basic *> hnd; // non-null model handles
    long nextH = 0, nextO = 0;
    std::vector<std::string> toks;
    std::string fail;
    long n_new = 0, n_ext = 0, n_alias = 0, n_freed = 0, n_checks = 0;

    void failOnce(const std::string &s)
    {
        if (fail.empty())
            fail = s;
    }
    // a model handle (and member path) leading to tracked object `t`
    bool locate(const Basic *t, long &h, std::vector<int> &path)
    {
        for (auto &kv : hnd)
            if (kv.second == t) {
                h = kv.first;
                path.clear();
                return true;
            }
        // BFS through stored members of tracked objects
        std::map<const Basic *, std::pair<const Basic *, int>> par;
        std::map<const Basic *, long> root;
        std::vector<const Basic *> q;
        for (auto &kv : hnd)
            if (!root.count(kv.second)) {
                root[kv.second] = kv.first;
                q.push_back(kv.second);
            }
        for (size_t qi = 0; qi < q.size(); qi++) {
            const Basic *p = q[qi];
            if (p == t)
                break;
            auto it = kids.find(p);
            if (it == kids.end())
                continue;
            for (size_t k = 0; k < it->second.size(); k++) {
                const Basic *c = it->second[k];
                if (root.count(c) || par.count(c))
                    continue;
                par[c] = {p, (int)k};
                q.push_back(c);
            }
        }
        if (!par.count(t))
            return false;
        path.clear();
        const Basic *c = t;
        while (par.count(c)) {
            path.push_back(par[c].second);
            c = par[c].first;
        }
        std::reverse(path.begin(), path.end());
        h = root[c];
        return true;
    }
    long emitCopyOf(const Basic *t)
    {
        long h;
        std::vector<int> path;
        if (!locate(t, h, path)) {
            failOnce("FAIL:untracked:object not reachable from any tracked handle");
            toks.push_back("c"); // keep numbering consistent
            nextO++;
            return nextH++;
        }
        if (path.empty())
            toks.push_back("k" + std::to_string(h));
        else {
            std::string s = "p" + std::to_string(h) + ":";
            for (size_t i = 0; i < path.size(); i++)
                s += (i ? "." : "") + std::to_string(path[i]);
            toks.push_back(s);
        }
        hnd[nextH] = t;
        return nextH++;
    }
    void visit(const Basic *p, std::vector<long> &optemps)
    {
        if (oid.count(p))
            return;
        if (!is_new_alloc(p)) {
            // allocated before this line started: a static object of the library (constants, tables)
            toks.push_back("c");
            oid[p] = nextO++;
            hnd[nextH++] = p; // its static holder, never dropped
            ext.insert(p);
            n_ext++;
            return;
        }
        std::vector<const Basic *> ch;
        stored_children(*p, ch);
        for (auto c : ch)
            visit(c, optemps);
        std::vector<long> temps;
        for (auto c : ch)
            temps.push_back(emitCopyOf(c));
        std::string s = "c";
        for (size_t i = 0; i < temps.size(); i++)
            s += (i ? "," : "") + std::to_string(temps[i]);
        toks.push_back(s);
        oid[p] = nextO++;
        kids[p] = ch;
        hnd[nextH] = p;
        optemps.push_back(nextH++);
        for (auto t : temps) {
            toks.push_back("d" + std::to_string(t));
            hnd.erase(t);
        }
        n_new++;
    }
    // a library call returned `r`: put it in a new slot
    void ingest(const B &r)
    {
        std::vector<long> optemps;
        bool known = oid.count(r.get()) != 0;
        visit(r.get(), optemps);
        if (known)
            n_alias++;
        long H = emitCopyOf(r.get());
        for (size_t i = optemps.size(); i-- > 0;) {
            toks.push_back("d" + std::to_string(optemps[i]));
            hnd.erase(optemps[i]);
        }
        pool.push_back(r);
        poolH.push_back(H);
        poolStr.push_back(r->__str__());
    }
    void reachable(const std::vector<const Basic *> &roots, std::set<const Basic *> &seen)
    {
        std::vector<const Basic *> st(roots);
        for (auto e : ext)
            st.push_back(e);
        while (!st.empty()) {
            const Basic *p = st.back();
            st.pop_back();
            if (!p || seen.count(p))
                continue;
            seen.insert(p);
            auto it = kids.find(p);
            if (it != kids.end())
                for (auto c : it->second)
                    st.push_back(c);
        }
    }
    // perform a slot-level change `f` that may release references; `after` = slot targets after the change
    void handleChange(const std::vector<const Basic *> &after, const std::function<void()> &f)
    {
        std::set<const Basic *> seen;
        reachable(after, seen);
        std::vector<const Basic *> dead;
        for (auto &kv : oid)
            if (!seen.count(kv.first))
                dead.push_back(kv.first);
        std::vector<const void *> deadv; // allocation addresses, taken while the objects still exist
        for (auto p : dead)
            deadv.push_back(dynamic_cast<const void *>(p));
        f();
        // freed exactly when the last reference is dropped (no allocation between f() and this loop)
        bool still = false;
        for (auto p : deadv)
            if (newset()->count(p))
                still = true;
        if (still)
            failOnce("FAIL:notfreed:an object unreachable from every handle is still allocated");
        for (auto p : dead) {
            oid.erase(p);
            kids.erase(p);
        }
        n_freed += (long)dead.size();
    }
    std::vector<const Basic *> targets()
    {
        std::vector<const Basic *> v;
        for (auto &r : pool)
            v.push_back(r.get());
        return v;
    }
    void checkpoint()
    {
        // expected counts from the tracked graph alone
        std::map<const Basic *, long> expect;
        for (auto &kv : oid)
            expect[kv.first] = 0;
        for (auto &r : pool)
            if (!r.is_null())
                expect[r.get()]++;
        for (auto &kv : kids)
            for (auto c : kv.second)
                expect[c]++;
        std::vector<std::pair<long, long>> out;
        for (auto &kv : oid) {
            const Basic *p = kv.first;
            long real = (long)p->use_count();
            long shown = real;
            if (ext.count(p)) {
                if (!extBase.count(p)) {
                    extBase[p] = real - expect[p];
                    if (extBase[p] < 1)
                        failOnce("FAIL:count:static object " + p->__str__() + " has no static holder");
                }
                shown = real - extBase[p] + 1; // the model gives it one static handle
                if (real - extBase[p] != expect[p])
                    failOnce("FAIL:count:static object " + p->__str__() + " use_count moved by "
                             + std::to_string(real - extBase[p] - expect[p]) + " beyond the tracked references");
            } else if (real != expect[p])
                failOnce("FAIL:count:use_count of " + p->__str__() + " is " + std::to_string(real) + ", "
                         + std::to_string(expect[p]) + " references exist");
            out.push_back({kv.second, shown});
            n_checks++;
        }
        std::sort(out.begin(), out.end());
        std::string s = "Q:" + std::to_string(out.size()) + ":";
        for (size_t i = 0; i < out.size(); i++)
            s += (i ? "," : "") + std::to_string(out[i].first) + "=" + std::to_string(out[i].second);
        toks.push_back(s);
    }
    void immutability()
    {
        for (size_t i = 0; i < pool.size(); i++)
            if (!pool[i].is_null() && pool[i]->__str__() != poolStr[i])
                failOnce("FAIL:mutated:slot " + std::to_string(i) + " was " + poolStr[i] + " now " + pool[i]->__str__());
    }
};

static B slot(RcTrace &t, const std::string &s)
{
    size_t i = std::stoul(s);
    if (i >= t.pool.size() || t.pool[i].is_null())
        throw std::runtime_error("bad slot");
    return t.pool[i];
}

static std::string run_trace(const std::string &body, std::string &oracle)
{
    newset()->clear();
    g_track = true;
    std::string result;
    {
        RcTrace t;
        try {
            long n_thrown = 0;
            for (auto &op : split(body, ';')) {
                auto kv = split(op, ':');
                const std::string &k = kv[0];
                std::vector<std::string> a = kv.size() > 1 ? split(kv[1], ',') : std::vector<std::string>();
                if (k == "cp") {
                    size_t i = std::stoul(a[0]);
                    t.pool.push_back(t.pool[i]);
                    t.toks.push_back("k" + std::to_string(t.poolH[i]));
                    if (!t.pool[i].is_null())
                        t.hnd[t.nextH] = t.pool[i].get();
                    t.poolH.push_back(t.nextH++);
                    t.poolStr.push_back(t.poolStr[i]);
                } else if (k == "mv") {
                    size_t i = std::stoul(a[0]);
                    B n(std::move(t.pool[i]));
                    t.toks.push_back("m" + std::to_string(t.poolH[i]));
                    t.hnd.erase(t.poolH[i]);
                    if (!n.is_null())
                        t.hnd[t.nextH] = n.get();
                    t.pool.push_back(std::move(n));
                    t.poolH.push_back(t.nextH++);
                    t.poolStr.push_back(t.poolStr[i]);
                } else if (k == "as" || k == "mas") {
                    size_t d = std::stoul(a[0]), s = std::stoul(a[1]);
                    auto after = t.targets();
                    if (k == "as")
                        after[d] = after[s];
                    else
                        std::swap(after[d], after[s]);
                    t.toks.push_back((k == "as" ? "a" : "w") + std::to_string(t.poolH[d]) + ","
                                     + std::to_string(t.poolH[s]));
                    t.handleChange(after, [&]() {
                        if (k == "as")
                            t.pool[d] = t.pool[s];
                        else
                            t.pool[d] = std::move(t.pool[s]);
                    });
                    if (k == "as")
                        t.poolStr[d] = t.poolStr[s];
                    else
                        std::swap(t.poolStr[d], t.poolStr[s]);
                    for (size_t i : {d, s}) {
                        t.hnd.erase(t.poolH[i]);
                        if (!t.pool[i].is_null())
                            t.hnd[t.poolH[i]] = t.pool[i].get();
                    }
                } else if (k == "drop") {
                    size_t i = std::stoul(a[0]);
                    auto after = t.targets();
                    after[i] = nullptr;
                    t.toks.push_back("r" + std::to_string(t.poolH[i]));
                    t.hnd.erase(t.poolH[i]);
                    t.handleChange(after, [&]() { t.pool[i].reset(); });
                } else if (k == "rft") {
                    B x = slot(t, a[0]);
                    size_t i = std::stoul(a[0]);
                    t.pool.push_back(x->rcp_from_this());
                    t.toks.push_back("t" + std::to_string(t.poolH[i]));
                    t.hnd[t.nextH] = x.get();
                    t.poolH.push_back(t.nextH++);
                    t.poolStr.push_back(t.poolStr[i]);
                } else {
                    B r;
                    bool threw = false;
                    try {
                        if (k == "sym")
                            r = symbol(a[0]);
                        else if (k == "int")
                            r = integer(std::stol(a[0]));
                        else if (k == "rat") {
                            auto pq = split(a[0], '/');
                            r = Rational::from_two_ints(*integer(std::stol(pq[0])), *integer(std::stol(pq[1])));
                        } else if (k == "add")
                            r = add(slot(t, a[0]), slot(t, a[1]));
                        else if (k == "mul")
                            r = mul(slot(t, a[0]), slot(t, a[1]));
                        else if (k == "sub")
                            r = sub(slot(t, a[0]), slot(t, a[1]));
                        else if (k == "div")
                            r = div(slot(t, a[0]), slot(t, a[1]));
                        else if (k == "pow")
                            r = pow(slot(t, a[0]), slot(t, a[1]));
                        else if (k == "neg")
                            r = neg(slot(t, a[0]));
                        else if (k == "expand")
                            r = expand(slot(t, a[0]));
                        else if (k == "sin")
                            r = sin(slot(t, a[0]));
                        else if (k == "cos")
                            r = cos(slot(t, a[0]));
                        else if (k == "exp")
                            r = exp(slot(t, a[0]));
                        else if (k == "log")
                            r = log(slot(t, a[0]));
                        else if (k == "diff") {
                            B s = slot(t, a[1]);
                            if (!is_a<Symbol>(*s))
                                throw std::runtime_error("diff wrt non-symbol");
                            r = slot(t, a[0])->diff(rcp_static_cast<const Symbol>(s));
                        } else if (k == "subs") {
                            map_basic_basic m;
                            m[slot(t, a[1])] = slot(t, a[2]);
                            r = slot(t, a[0])->subs(m);
                        } else
                            return "bad-op";
                    } catch (const SymEngine::VerifAssertError &) {
                        throw;
                    } catch (const SymEngine::SymEngineException &) {
                        // a library exception (0**-2, log(0), ...) ends the program here: the temporaries were
                        // unwound, so every count must still equal the tracked references (checked below)
                        threw = true;
                    }
                    if (threw) {
                        n_thrown++;
                        t.checkpoint();
                        break;
                    }
                    t.ingest(r);
                }
                t.checkpoint();
            }
            t.immutability();
            // all handles die: everything but the library's static objects must go
            for (size_t i = 0; i < t.pool.size(); i++) {
                if (t.pool[i].is_null())
                    continue;
                auto after = t.targets();
                after[i] = nullptr;
                t.toks.push_back("d" + std::to_string(t.poolH[i]));
                t.hnd.erase(t.poolH[i]);
                t.handleChange(after, [&]() { t.pool[i].reset(); });
            }
            t.checkpoint();
            for (auto &kv : t.oid)
                if (!t.ext.count(kv.first))
                    t.failOnce("FAIL:leak:tracked object survives all handles");
            result = join(t.toks, " ");
            if (n_thrown)
                stat("trace_ended_by_exception", n_thrown);
        } catch (const Opaque &o) {
            result = "OPAQUE " + o.cls;
            stat("trace_opaque");
        }
        if (!t.fail.empty() && oracle == "ok")
            oracle = t.fail;
        long a = t.n_new, b = t.n_ext, c = t.n_alias, d = t.n_freed, e = t.n_checks;
        g_track = false;
        stat("trace_new_objects", a);
        stat("trace_static_objects", b);
        stat("trace_alias_results", c);
        stat("trace_freed_objects", d);
        stat("trace_count_checks", e);
        g_track = true;
    }
    g_track = false;
    return result;
}

// ---------------------------------------------------------------- whole workloads
struct WCount {
    long calls = 0, exc = 0, asserts = 0;
    std::string first_assert; // a failed SYMENGINE_ASSERT on valid arguments = would-be undefined behaviour
    std::string first_fail;   // a broken container invariant observed by the workload itself (FAIL:<key>:<detail>)
};
static B rexpr(Rng &r, const std::vector<B> &syms, int depth)
{
    if (depth <= 0 || r.coin(1, 5)) {
        switch (r.below(4)) {
            case 0:
                return integer(r.range(-5, 9));
            case 1:
                return Rational::from_two_ints(*integer(r.range(-7, 7)), *integer(r.range(1, 6)));
            default:
                return r.pick(syms);
        }
    }
    switch (r.below(11)) {
        case 0:
        case 1:
            return add(rexpr(r, syms, depth - 1), rexpr(r, syms, depth - 1));
        case 2:
        case 3:
            return mul(rexpr(r, syms, depth - 1), rexpr(r, syms, depth - 1));
        case 4:
            return sub(rexpr(r, syms, depth - 1), rexpr(r, syms, depth - 1));
        case 5:
            return pow(rexpr(r, syms, depth - 1), integer(r.range(-2, 4)));
        case 6:
            return sin(rexpr(r, syms, depth - 1));
        case 7:
            return cos(rexpr(r, syms, depth - 1));
        case 8:
            return exp(rexpr(r, syms, depth - 1));
        case 9:
            return sqrt(add(r.pick(syms), integer(r.range(1, 4))));
        default:
            return div(rexpr(r, syms, depth - 1), add(r.pick(syms), integer(r.range(1, 5))));
    }
}
static B rpoly(Rng &r, const B &x, int deg)
{
    B e = integer(r.range(-4, 4));
    for (int i = 1; i <= deg; i++)
        e = add(e, mul(integer(r.range(-4, 4)), pow(x, integer(i))));
    return e;
}


// The CSR invariant that makes every later index computation of the library stay in bounds:
// p has row+1 monotone entries from 0 to nnz, |j| = |x| = nnz, column indices < col and strictly increasing per row.
static std::string csr_structure(const CSRMatrix &A)
{
    std::vector<unsigned> p, j;
    vec_basic xv;
    std::tie(p, j, xv) = A.as_vectors();
    unsigned R = A.nrows(), C = A.ncols();
    if (p.size() != R + 1)
        return "row pointer array has " + std::to_string(p.size()) + " entries for " + std::to_string(R) + " rows";
    if (p[0] != 0)
        return "p[0] = " + std::to_string(p[0]);
    for (unsigned r = 0; r < R; r++)
        if (p[r] > p[r + 1])
            return "row pointers decrease: p[" + std::to_string(r) + "] = " + std::to_string(p[r]) + " > p["
                   + std::to_string(r + 1) + "] = " + std::to_string(p[r + 1]);
    if (p[R] != j.size() || j.size() != xv.size())
        return "p[rows] = " + std::to_string(p[R]) + ", |j| = " + std::to_string(j.size()) + ", |x| = "
               + std::to_string(xv.size());
    for (unsigned r = 0; r < R; r++)
        for (unsigned k = p[r]; k < p[r + 1]; k++) {
            if (j[k] >= C)
                return "column index " + std::to_string(j[k]) + " >= " + std::to_string(C);
            if (k > p[r] && j[k - 1] >= j[k])
                return "row " + std::to_string(r) + " is not strictly sorted";
            if (xv[k].is_null())
                return "null entry";
        }
    return "";
}

#define TRY(...)                                                                                                       \
    try {                                                                                                              \
        wc.calls++;                                                                                                    \
        __VA_ARGS__;                                                                                                   \
    } catch (const SymEngine::VerifAssertError &ae_) {                                                                 \
        wc.asserts++;                                                                                                  \
        if (wc.first_assert.empty())                                                                                   \
            wc.first_assert = ae_.what();                                                                              \
    } catch (const std::exception &) {                                                                                 \
        wc.exc++;                                                                                                      \
    }

static void workload(const std::string &kind, uint64_t seed, int size, WCount &wc)
{
    Rng r(seed);
    RCP<const Symbol> x = symbol("x"), y = symbol("y"), z = symbol("z");
    std::vector<B> syms = {x, y, z};
    for (int it = 0; it < size; it++)
        try { // building the random operands may itself throw (e.g. 0**-2): counted, not fatal
        if (kind == "arith") {
            B a = rexpr(r, syms, 3), b = rexpr(r, syms, 3);
            TRY(B c = add(mul(a, b), sub(a, b)); B d = div(c, add(b, integer(7))); (void)d->hash();
                (void)eq(*c, *d); (void)c->__cmp__(*d));
        } else if (kind == "expand") {
            B a = rexpr(r, syms, 2), b = rexpr(r, syms, 2);
            TRY(B c = expand(pow(add(a, b), integer(r.range(2, 4)))); (void)expand(mul(c, add(a, integer(1)))));
        } else if (kind == "calculus") {
            B a = rexpr(r, syms, 3);
            TRY(B d = a->diff(x); B d2 = d->diff(y); map_basic_basic m; m[x] = add(y, integer(1)); m[y] = z;
                (void)d2->subs(m); (void)a->subs(m); (void)free_symbols(*a));
        } else if (kind == "parse") {
            B a = rexpr(r, syms, 3);
            TRY(std::string s = a->__str__(); B b = parse(s); (void)b->__str__());
            static const char *bad[] = {"x +* y", "(x", "sin(", "2**", "x y", "1e", ")", "f(x,,y)"};
            TRY((void)parse(bad[r.below(8)]));
        } else if (kind == "print") {
            B a = rexpr(r, syms, 3);
            TRY((void)str(*a); (void)latex(*a); (void)unicode(*a); (void)mathml(*a));
            TRY((void)ccode(*a));
            TRY((void)jscode(*a));
        } else if (kind == "matrix") {
            unsigned n = 2 + (unsigned)r.below(3);
            vec_basic v, w;
            for (unsigned i = 0; i < n * n; i++) {
                v.push_back(r.coin(1, 4) ? rexpr(r, syms, 1) : B(integer(r.range(-4, 6))));
                w.push_back(integer(r.range(-3, 5)));
            }
            DenseMatrix A(n, n, v), Bm(n, n, w), C(n, n), D(n, n), L(n, n), U(n, n);
            TRY(A.mul_matrix(Bm, C); A.add_matrix(Bm, D); C.transpose(D); (void)A.det(); (void)Bm.det());
            TRY(Bm.inv(D));
            TRY(Bm.LU(L, U));
            std::vector<unsigned> ri, ci;
            vec_basic xs;
            for (unsigned i = 0; i < n + 2; i++) {
                ri.push_back((unsigned)r.below(n));
                ci.push_back((unsigned)r.below(n));
                xs.push_back(integer(r.range(1, 5)));
            }
            TRY(CSRMatrix S = CSRMatrix::from_coo(n, n, ri, ci, xs); CSRMatrix T(n, n); S.transpose(T);
                DenseMatrix E(n, n); S.mul_matrix(Bm, E); (void)S.get(0, 0));
        } else if (kind == "dense" || kind == "densesq") {
            // dense matrices whose shape forces the pivoting paths: leading zero columns, zero rows, repeated rows
            // (rank deficient), the zero matrix; rectangular for the eliminations, square for LU / inverse / solve
            bool sq = kind == "densesq";
            unsigned nr = 1 + (unsigned)r.below(4), nc = sq ? nr : 1 + (unsigned)r.below(5);
            unsigned zc = (unsigned)r.below(3);          // number of leading zero columns
            bool zrow = r.coin(1, 3), dup = r.coin(1, 3), allz = r.coin(1, 10), symb = r.coin(1, 5) && nr <= 3;
            unsigned zr = (unsigned)r.below(nr);
            vec_basic v(nr * nc);
            for (unsigned i = 0; i < nr; i++)
                for (unsigned j = 0; j < nc; j++) {
                    B e = integer(r.coin(1, 4) ? 0 : r.range(-3, 4));
                    if (symb && r.coin(1, 6))
                        e = r.coin() ? B(x) : add(x, integer(r.range(1, 2)));
                    if (allz || j < zc || (zrow && i == zr))
                        e = zero;
                    v[i * nc + j] = e;
                }
            if (dup && nr >= 2)
                for (unsigned j = 0; j < nc; j++)
                    v[(nr - 1) * nc + j] = v[j];
            DenseMatrix A(nr, nc, v);
            for (int nl = 0; nl < 2; nl++) {
                TRY(DenseMatrix R(nr, nc); vec_uint piv; reduced_row_echelon_form(A, R, piv, nl == 1);
                    (void)R.__str__(); (void)piv.size());
                // aliasing: output == input
                TRY(DenseMatrix C(nr, nc, v); vec_uint piv; reduced_row_echelon_form(C, C, piv, nl == 1);
                    (void)C.__str__());
            }
            TRY(DenseMatrix R(nr, nc); permutelist pl; pivoted_gaussian_elimination(A, R, pl); (void)R.__str__());
            TRY(DenseMatrix R(nr, nc); permutelist pl; pivoted_fraction_free_gaussian_elimination(A, R, pl);
                (void)R.__str__());
            TRY(DenseMatrix R(nr, nc); permutelist pl; pivoted_gauss_jordan_elimination(A, R, pl); (void)R.__str__());
            TRY(DenseMatrix R(nr, nc); permutelist pl; pivoted_fraction_free_gauss_jordan_elimination(A, R, pl);
                (void)R.__str__());
            TRY(DenseMatrix C(nr, nc, v); permutelist pl; pivoted_fraction_free_gauss_jordan_elimination(C, C, pl);
                (void)C.__str__());
            TRY((void)A.rank()); // NotImplemented for DenseMatrix at present
            TRY((void)A.is_zero(); (void)A.is_diagonal(); (void)A.is_symmetric());
            // rectangular too: is_lower()/is_upper() used to index columns with nrows() (fixed in /repo 1687e4b)
            TRY((void)A.is_lower(); (void)A.is_upper());
            TRY(DenseMatrix T(nc, nr); A.transpose(T); DenseMatrix P(nr, nr); A.mul_matrix(T, P); (void)P.det();
                (void)P.is_symmetric());
            if (sq) {
                unsigned n = nr;
                vec_basic bv;
                for (unsigned i = 0; i < n * 2; i++)
                    bv.push_back(integer(r.range(-2, 3)));
                DenseMatrix rhs(n, 2, bv);
                TRY(DenseMatrix L(n, n), U(n, n); LU(A, L, U); (void)U.__str__());
                TRY(DenseMatrix M(n, n); permutelist pl; pivoted_LU(A, M, pl); (void)M.__str__());
                TRY(DenseMatrix L(n, n), U(n, n); permutelist pl; pivoted_LU(A, L, U, pl); (void)L.__str__());
                TRY(DenseMatrix M(n, n); fraction_free_LU(A, M); (void)M.__str__());
                TRY(DenseMatrix L(n, n), D(n, n), U(n, n); fraction_free_LDU(A, L, D, U); (void)D.__str__());
                TRY(DenseMatrix R(n, n); fraction_free_gaussian_elimination(A, R); (void)R.__str__());
                TRY(DenseMatrix R(n, n); fraction_free_gauss_jordan_elimination(A, R); (void)R.__str__());
                TRY(DenseMatrix I(n, n); inverse_fraction_free_LU(A, I); (void)I.__str__());
                TRY(DenseMatrix I(n, n); inverse_LU(A, I); (void)I.__str__());
                TRY(DenseMatrix I(n, n); inverse_pivoted_LU(A, I); (void)I.__str__());
                TRY(DenseMatrix I(n, n); inverse_gauss_jordan(A, I); (void)I.__str__());
                TRY(DenseMatrix I(n, n); A.inv(I); (void)I.__str__());
                TRY((void)det_bareis(A); (void)det_berkowitz(A); (void)A.det(); (void)A.trace());
                TRY(DenseMatrix P(n + 1, 1); char_poly(A, P); (void)P.__str__());
                TRY(DenseMatrix X(n, 2); LU_solve(A, rhs, X); (void)X.__str__());
                TRY(DenseMatrix X(n, 2); pivoted_LU_solve(A, rhs, X); (void)X.__str__());
                TRY(DenseMatrix X(n, 2); fraction_free_LU_solve(A, rhs, X); (void)X.__str__());
                TRY(DenseMatrix X(n, 2); fraction_free_gauss_jordan_solve(A, rhs, X, true); (void)X.__str__());
                TRY(DenseMatrix X(n, 2); fraction_free_gauss_jordan_solve(A, rhs, X, false); (void)X.__str__());
                TRY(DenseMatrix X(n, 2); fraction_free_gaussian_elimination_solve(A, rhs, X); (void)X.__str__());
                TRY(DenseMatrix X(n, 2); A.LU_solve(rhs, X); (void)X.__str__());
                // symmetric positive semi-definite input for LDL / cholesky (numeric only: symbolic square roots explode)
                if (!symb)
                    TRY(DenseMatrix T(n, n); A.transpose(T); DenseMatrix S(n, n); A.mul_matrix(T, S); DenseMatrix L(n, n),
                    D(n, n); LDL(S, L, D); DenseMatrix L2(n, n); cholesky(S, L2); DenseMatrix X(n, 2);
                    LDL_solve(S, rhs, X); (void)X.__str__());
                if (!symb)
                    TRY(DenseMatrix Q(n, n), R(n, n); QR(A, Q, R); (void)R.__str__());
                // aliasing: output is one of the operands
                TRY(DenseMatrix C(n, n, v), T(n, n, v); mul_dense_dense(C, T, C); mul_dense_dense(C, T, T);
                    mul_dense_dense(C, C, C); add_dense_dense(C, T, C); add_dense_dense(C, C, C);
                    C.mul_matrix(C, C); C.add_matrix(T, T); C.elementwise_mul_matrix(C, C);
                    RCP<const Basic> k = integer(2); C.mul_scalar(k, C); C.add_scalar(k, C); (void)C.__str__());
            }
        } else if (kind == "sparse") {
            // CSR matrices built by set() histories (zero writes into empty slots, overwrites, erasures, mostly empty
            // leading rows) and from COO lists (duplicates, unsorted), mirrored in a plain integer table
            unsigned R = 1 + (unsigned)r.below(5), C = 1 + (unsigned)r.below(5);
            unsigned lead = r.coin(1, 2) ? (unsigned)r.below(R) : 0; // rows < lead stay (mostly) empty
            CSRMatrix A(R, C);
            std::vector<long> D(R * C, 0);
            auto fail = [&](const std::string &key, const std::string &what) {
                if (wc.first_fail.empty())
                    wc.first_fail = "FAIL:" + key + ":" + what;
            };
            auto compare = [&](const CSRMatrix &M, const std::vector<long> &T, const std::string &ctx) {
                for (unsigned i = 0; i < M.nrows(); i++)
                    for (unsigned j = 0; j < M.ncols(); j++)
                        if (!eq(*M.get(i, j), *integer(T[i * M.ncols() + j]))) {
                            fail("csrvalue", ctx + ": cell (" + std::to_string(i) + "," + std::to_string(j) + ") is "
                                                 + M.get(i, j)->__str__() + ", expected "
                                                 + std::to_string(T[i * M.ncols() + j]));
                            return;
                        }
            };
            bool broken = false;
            int nops = 6 + (int)r.below(22);
            std::string hist;
            for (int o = 0; o < nops && !broken; o++) {
                unsigned i = (unsigned)r.below(R), j = (unsigned)r.below(C);
                if (i < lead && !r.coin(1, 6))
                    i = lead + (unsigned)r.below(R - lead);
                long v = r.coin(2, 5) ? 0 : r.range(1, 6) * (r.coin() ? 1 : -1);
                hist += "set(" + std::to_string(i) + "," + std::to_string(j) + "," + std::to_string(v) + ");";
                TRY(A.set(i, j, integer(v)));
                D[i * C + j] = v;
                std::string s = csr_structure(A);
                if (!s.empty()) {
                    // do not touch the matrix any more: the next get()/set() would index out of bounds
                    fail("csr", "after " + hist + " the CSR structure is corrupt: " + s);
                    broken = true;
                    break;
                }
                TRY(if (!A.is_canonical()) fail("csr", "after " + hist + " is_canonical() is false"));
                if (o % 3 == 2 || o == nops - 1)
                    TRY(compare(A, D, "after " + hist));
            }
            if (!broken) {
                // a second matrix from COO triples (unsorted, with duplicates: summed)
                std::vector<unsigned> ri, ci;
                vec_basic xs;
                std::vector<long> E(R * C, 0);
                for (unsigned k = 0; k < 1 + r.below(2 * R * C); k++) {
                    unsigned i = (unsigned)r.below(R), j = (unsigned)r.below(C);
                    long v = r.range(1, 4);
                    ri.push_back(i);
                    ci.push_back(j);
                    xs.push_back(integer(v));
                    E[i * C + j] += v;
                }
                TRY(CSRMatrix Bm = CSRMatrix::from_coo(R, C, ri, ci, xs); std::string s = csr_structure(Bm);
                    if (!s.empty()) fail("csr", "from_coo result is corrupt: " + s); else {
                        compare(Bm, E, "from_coo");
                        CSRMatrix S(R, C), P(R, C);
                        csr_binop_csr_canonical(A, Bm, S, add);
                        A.elementwise_mul_matrix(Bm, P);
                        std::vector<long> DS(R * C), DP(R * C);
                        for (unsigned q = 0; q < R * C; q++) {
                            DS[q] = D[q] + E[q];
                            DP[q] = D[q] * E[q];
                        }
                        std::string s2 = csr_structure(S), s3 = csr_structure(P);
                        if (!s2.empty() || !s3.empty())
                            fail("csr", "sum/product of two CSR matrices is corrupt: " + s2 + s3);
                        else {
                            compare(S, DS, "A + B");
                            compare(P, DP, "A .* B");
                        }
                    });
                TRY(CSRMatrix T = A.transpose(); std::string s = csr_structure(T);
                    if (!s.empty()) fail("csr", "transpose is corrupt: " + s); else {
                        std::vector<long> DT(R * C);
                        for (unsigned i = 0; i < R; i++)
                            for (unsigned j = 0; j < C; j++)
                                DT[j * R + i] = D[i * C + j];
                        compare(T, DT, "transpose");
                        CSRMatrix TT(R, C);
                        T.transpose(TT);
                        if (!TT.eq(A)) fail("csrvalue", "transpose(transpose(A)) != A");
                    });
                TRY(CSRMatrix Cj(R, C); A.conjugate(Cj); CSRMatrix Ct(C, R); A.conjugate_transpose(Ct);
                    (void)Cj.is_canonical(); (void)Ct.is_canonical(); (void)A.__str__());
                TRY(unsigned N = std::min(R, C); DenseMatrix dg(N, 1); csr_diagonal(A, dg);
                    for (unsigned i = 0; i < N; i++) if (!eq(*dg.get(i, 0), *integer(D[i * C + i])))
                        fail("csrvalue", "csr_diagonal entry " + std::to_string(i)));
                TRY(vec_basic f; for (unsigned i = 0; i < R; i++) f.push_back(integer(r.range(1, 3)));
                    DenseMatrix X(R, 1, f); CSRMatrix Sc = A.transpose().transpose(); csr_scale_rows(Sc, X);
                    vec_basic g; for (unsigned j = 0; j < C; j++) g.push_back(integer(r.range(1, 3)));
                    DenseMatrix Y(C, 1, g); csr_scale_columns(Sc, Y); (void)Sc.is_canonical(); (void)Sc.__str__());
                TRY(RCP<const Basic> k2 = integer(2); CSRMatrix Q(R, C); A.mul_scalar(k2, Q));
                TRY(RCP<const Basic> k2 = integer(2); CSRMatrix Q(R, C); A.add_scalar(k2, Q));
                TRY((void)A.is_real());
            }
        } else if (kind == "poly") {
            std::map<unsigned, integer_class> d1, d2;
            for (unsigned i = 0; i <= 1 + r.below(4); i++) {
                d1[i] = integer_class((long)r.range(-5, 5));
                d2[i] = integer_class((long)r.range(-5, 5));
            }
            TRY(RCP<const UIntPoly> p = UIntPoly::from_dict(x, std::move(d1)),
                q = UIntPoly::from_dict(x, std::move(d2));
                RCP<const UIntPoly> m = mul_upoly(*p, *q); RCP<const UIntPoly> s = add_upoly(*p, *q);
                RCP<const UIntPoly> w = pow_upoly(*p, 1 + (unsigned)r.below(3)); (void)m->__str__();
                (void)s->as_symbolic(); (void)w->get_degree(); RCP<const UIntPoly> qq;
                (void)divides_upoly(*p, *m, outArg(qq)));
            TRY(RCP<const UExprPoly> e = UExprPoly::from_vec(x, {Expression(rexpr(r, syms, 1)), Expression(1),
                                                                  Expression(y)});
                RCP<const UExprPoly> e2 = mul_upoly(*e, *e); (void)e2->__str__());
        } else if (kind == "sets") {
            RCP<const Set> i1 = interval(integer(r.range(-5, 0)), integer(r.range(1, 6)), r.coin(), r.coin());
            RCP<const Set> i2 = interval(integer(r.range(-3, 2)), integer(r.range(3, 9)), r.coin(), r.coin());
            set_basic fs;
            for (int i = 0; i < 4; i++)
                fs.insert(integer(r.range(-6, 8)));
            RCP<const Set> f = finiteset(fs);
            TRY(RCP<const Set> u = i1->set_union(i2); RCP<const Set> n = i1->set_intersection(f);
                RCP<const Set> c = f->set_complement(i2); (void)u->contains(integer(1)); (void)c->__str__();
                (void)n->set_union(c); (void)set_union({i1, i2, f}); (void)i1->set_complement(universalset()));
        } else if (kind == "ntheory") {
            RCP<const Integer> a = integer(r.range(2, 100000)), b = integer(r.range(2, 5000));
            TRY((void)gcd(*a, *b); (void)lcm(*a, *b); (void)nextprime(*a); (void)probab_prime_p(*a);
                std::vector<RCP<const Integer>> pf; prime_factors(pf, *a); (void)fibonacci((unsigned long)r.below(60));
                (void)binomial(*b, (unsigned long)r.below(8)); (void)factorial((unsigned long)r.below(25));
                (void)totient(a); RCP<const Integer> inv; (void)mod_inverse(outArg(inv), *a, *b);
                RCP<const Integer> g; (void)primitive_root(outArg(g), *b));
        } else if (kind == "series") {
            B a = rexpr(r, {x}, 2);
            TRY(auto s = series(a, x, 4 + (unsigned)r.below(3)); (void)s->as_basic(); (void)s->get_coeff(2));
        } else if (kind == "solve") {
            TRY(RCP<const Set> s = solve(rpoly(r, x, 1 + (int)r.below(3)), x); (void)s->__str__());
        } else if (kind == "serialize") {
            B a = rexpr(r, syms, 3);
            TRY(std::string s = a->dumps(); B b = Basic::loads(s); (void)eq(*a, *b));
            TRY(std::string s = a->dumps(); s.resize(s.size() / 2); (void)Basic::loads(s));
        } else if (kind == "eval") {
            B a = rexpr(r, syms, 3);
            map_basic_basic m;
            m[x] = Rational::from_two_ints(*integer(3), *integer(7));
            m[y] = integer(2);
            m[z] = Rational::from_two_ints(*integer(5), *integer(3));
            TRY(B v = a->subs(m); (void)eval_double(*v));
        }
        } catch (const SymEngine::SymEngineException &) {
            wc.exc++;
        }
}

static std::string run_workload(const std::string &kind, uint64_t seed, int size, std::string &oracle)
{
    WCount wc;
    long db = 0, dy = 0;
    workload(kind, seed, size, wc); // warm-up: function-local statics, the sieve's prime table, locale, ...
    // a genuine leak repeats on every execution; one-off cache growth does not
    for (int rep = 0; rep < 3; rep++) {
        WCount w2;
        long b0 = g_blocks, y0 = g_bytes;
        workload(kind, seed, size, w2);
        db = g_blocks - b0;
        dy = g_bytes - y0;
        if (db == 0 && dy == 0)
            break;
    }
    if (!wc.first_fail.empty() && oracle == "ok")
        oracle = wc.first_fail;
    // a failed assertion is reported first: the throwing assert hook unwinds through code that was never meant to
    // be unwound, so heap growth observed together with assertion failures is not evidence of a leak
    if (wc.asserts && oracle == "ok")
        oracle = "FAIL:assert:" + kind + " workload: internal assertion failed on valid arguments: " + wc.first_assert;
    if ((db != 0 || dy != 0) && oracle == "ok")
        oracle = "FAIL:leak:" + kind + " workload leaves " + std::to_string(db) + " blocks / " + std::to_string(dy)
                 + " bytes allocated on every repetition";
    stat("workload_calls", wc.calls);
    stat("workload_exceptions", wc.exc);
    stat("workload_asserts", wc.asserts);
    return "delta=" + std::to_string(db) + "," + std::to_string(dy) + " calls=" + std::to_string(wc.calls)
           + " exc=" + std::to_string(wc.exc);
}

std::string hx_run(const std::string &line, std::string &oracle)
{
    if (line.compare(0, 2, "T ") == 0)
        return run_trace(line.substr(2), oracle);
    if (line.compare(0, 2, "W ") == 0) {
        auto w = split(line, ' ');
        if (w.size() != 4)
            return "bad-op";
        return run_workload(w[1], strtoull(w[2].c_str(), nullptr, 10), atoi(w[3].c_str()), oracle);
    }
    return "bad-op";
}

// ---------------------------------------------------------------- generation
static std::string gen_trace(Rng &r, int len)
{
    std::vector<std::string> ops;
    std::vector<bool> alive; // slot non-null
    std::vector<bool> issym;
    auto push = [&](const std::string &s, bool sym) {
        ops.push_back(s);
        alive.push_back(true);
        issym.push_back(sym);
    };
    static const char *names[] = {"x", "y", "z", "w"};
    push(std::string("sym:") + names[0], true);
    push(std::string("sym:") + names[1], true);
    push("int:" + std::to_string(r.range(2, 5)), false);
    auto pickLive = [&](bool wantSym) -> int {
        std::vector<int> c;
        for (size_t i = 0; i < alive.size(); i++)
            if (alive[i] && (!wantSym || issym[i]))
                c.push_back((int)i);
        return c.empty() ? -1 : c[r.below(c.size())];
    };
    for (int n = 0; n < len; n++) {
        int a = pickLive(false), b = pickLive(false), s = pickLive(true);
        if (a < 0) {
            push(std::string("sym:") + names[r.below(4)], true);
            continue;
        }
        unsigned k = (unsigned)r.below(100);
        std::string A = std::to_string(a), Bs = std::to_string(b);
        if (k < 6)
            push(std::string("sym:") + names[r.below(4)], true);
        else if (k < 12)
            push("int:" + std::to_string(r.range(-3, 6)), false);
        else if (k < 15)
            push("rat:" + std::to_string(r.range(-5, 5)) + "/" + std::to_string(r.range(2, 5)), false);
        else if (k < 27)
            push("add:" + A + "," + Bs, false);
        else if (k < 39)
            push("mul:" + A + "," + Bs, false);
        else if (k < 44)
            push("sub:" + A + "," + Bs, false);
        else if (k < 48)
            push("div:" + A + "," + Bs, false);
        else if (k < 53) {
            push("int:" + std::to_string(r.range(-2, 3)), false);
            push("pow:" + A + "," + std::to_string(alive.size() - 1), false);
        } else if (k < 56)
            push("neg:" + A, false);
        else if (k < 61)
            push("expand:" + A, false);
        else if (k < 64)
            push("sin:" + A, false);
        else if (k < 66)
            push("cos:" + A, false);
        else if (k < 68)
            push("exp:" + A, false);
        else if (k < 69)
            push("log:" + A, false);
        else if (k < 74 && s >= 0)
            push("diff:" + A + "," + std::to_string(s), false);
        else if (k < 79 && s >= 0)
            push("subs:" + A + "," + std::to_string(s) + "," + Bs, false);
        else if (k < 84) {
            ops.push_back("cp:" + A);
            alive.push_back(true);
            issym.push_back(issym[a]);
        } else if (k < 87) {
            ops.push_back("mv:" + A);
            alive.push_back(true);
            issym.push_back(issym[a]);
            alive[a] = false;
        } else if (k < 90) {
            ops.push_back("rft:" + A);
            alive.push_back(true);
            issym.push_back(issym[a]);
        } else if (k < 93 && a != b) {
            ops.push_back("as:" + A + "," + Bs);
            issym[a] = issym[b];
        } else if (k < 95 && a != b) {
            ops.push_back("mas:" + A + "," + Bs);
            bool t = issym[a];
            issym[a] = issym[b];
            issym[b] = t;
        } else {
            ops.push_back("drop:" + A);
            alive[a] = false;
        }
    }
    return "T " + join(ops, ";");
}

void hx_gen(Rng &r, const std::string &tier)
{
    bool th = tier == "thorough";
    // fixed boundary programs: aliasing results, the single-Mul branch of Add::from_dict, self-assignment
    emit("T sym:x;int:0;add:0,1;mul:0,1;int:1;mul:0,4;pow:0,4;pow:0,1", "trace-alias");
    emit("T sym:x;sym:y;mul:0,1;int:0;add:2,3;int:2;mul:5,2;add:6,3;drop:2;drop:6", "trace-steal-branch");
    emit("T sym:x;cp:0;as:0,1;as:1,1;mas:0,1;mv:0;rft:2;drop:1;drop:2;drop:3", "trace-handles");
    emit("T sym:x;sym:y;add:0,1;mul:2,2;expand:3;diff:4,0;subs:5,0,1;drop:2;drop:3;drop:4", "trace-chain");
    // dense pivoting paths get extra weight: many small matrices per line
    for (int i = 0; i < (th ? 10 : 2); i++) {
        emit("W dense " + std::to_string(r.below(1000000)) + " " + std::to_string(th ? 60 : 40), "workload-dense");
        emit("W densesq " + std::to_string(r.below(1000000)) + " " + std::to_string(th ? 40 : 25), "workload-densesq");
        emit("W sparse " + std::to_string(r.below(1000000)) + " " + std::to_string(th ? 80 : 50), "workload-sparse");
    }
    int nt = th ? 900 : 160;
    for (int i = 0; i < nt; i++) {
        int len = 4 + (int)r.below(th ? 45 : 28);
        emit(gen_trace(r, len), len < 12 ? "trace-short" : (len < 30 ? "trace-medium" : "trace-long"));
    }
    static const char *kinds[] = {"arith", "expand",  "calculus", "parse", "print", "matrix",    "poly", "sets",
                                  "ntheory", "series", "solve",    "eval",  "serialize", "dense", "densesq", "sparse"};
    int reps = th ? 12 : 3;
    for (int k = 0; k < 16; k++)
        for (int i = 0; i < reps; i++)
            emit(std::string("W ") + kinds[k] + " " + std::to_string(r.below(1000000)) + " "
                     + std::to_string(th ? 12 : 6),
                 std::string("workload-") + kinds[k]);
}
