// C38: finite-difference weights are exact.
// Op line:  fd <max_deriv> <around> <g0> <g1> ...     rationals written  n  or  n/d
// Output:   the flat weight vector (index j + k*len), entries n or n/d, joined by ','
//           "nonfinite" if some weight is not an Integer/Rational (repeated grid points: the
//           library divides by an exact zero and returns zoo/nan instead of throwing).
// Oracle (independent of the Lean model, plain GMP mpq arithmetic): for every k <= max_deriv and
// every monomial x^m, m < len:  sum_j w[j + k*len] * g_j^m  ==  m!/(m-k)! * around^(m-k)  (0 if k > m).
// By linearity this is the property for every polynomial of degree < len.
#include "common.h"
#include <gmp.h>
#include <symengine/finitediff.h>
#include <symengine/integer.h>
#include <symengine/rational.h>
#include <set>

using namespace SymEngine;

struct Q { // minimal exact rational on the GMP C API
    mpq_t v;
    Q()
    {
        mpq_init(v);
    }
    Q(long n)
    {
        mpq_init(v);
        mpq_set_si(v, n, 1);
    }
    explicit Q(const std::string &s)
    {
        mpq_init(v);
        if (mpq_set_str(v, s.c_str(), 10) != 0)
            throw std::runtime_error("bad rational " + s);
        mpq_canonicalize(v);
    }
    Q(const Q &o)
    {
        mpq_init(v);
        mpq_set(v, o.v);
    }
    Q &operator=(const Q &o)
    {
        mpq_set(v, o.v);
        return *this;
    }
    ~Q()
    {
        mpq_clear(v);
    }
    Q operator+(const Q &o) const
    {
        Q r;
        mpq_add(r.v, v, o.v);
        return r;
    }
    Q operator*(const Q &o) const
    {
        Q r;
        mpq_mul(r.v, v, o.v);
        return r;
    }
    bool operator==(const Q &o) const
    {
        return mpq_equal(v, o.v) != 0;
    }
    bool operator<(const Q &o) const
    {
        return mpq_cmp(v, o.v) < 0;
    }
    std::string str() const
    {
        char *c = mpq_get_str(nullptr, 10, v);
        std::string s(c);
        free(c);
        return s;
    }
};

static Q qpow(const Q &b, unsigned e)
{
    Q r(1);
    for (unsigned i = 0; i < e; i++)
        r = r * b;
    return r;
}

static RCP<const Basic> to_basic(const std::string &s)
{
    auto p = split(s, '/');
    if (p.size() == 1)
        return integer(integer_class(p[0]));
    return Rational::from_two_ints(*integer(integer_class(p[0])), *integer(integer_class(p[1])));
}

std::string hx_run(const std::string &line, std::string &oracle)
{
    auto w = split(line, ' ');
    if (w.size() < 3 || w[0] != "fd")
        return "bad-op";
    unsigned md = (unsigned)std::stoul(w[1]);
    RCP<const Basic> around = to_basic(w[2]);
    vec_basic grid;
    std::vector<Q> gq;
    for (size_t i = 3; i < w.size(); i++) {
        grid.push_back(to_basic(w[i]));
        gq.push_back(Q(w[i]));
    }
    if (grid.empty())
        return "E:oob"; // grid[0] / weights[0] on empty vectors is undefined behaviour: never executed
    size_t n = grid.size();
    bool distinct = true;
    for (size_t i = 0; i < n; i++)
        for (size_t j = 0; j < i; j++)
            if (gq[i] == gq[j])
                distinct = false;
    vec_basic res = generate_fdiff_weights_vector(grid, md, around);
    stat("calls");
    if (res.size() != n * (md + 1)) {
        oracle = "FAIL:size:weight vector has " + std::to_string(res.size()) + " entries, expected "
                 + std::to_string(n * (md + 1));
    }
    std::vector<std::string> outs;
    std::vector<Q> wq;
    bool finite = true;
    for (auto &b : res) {
        if (is_a<Integer>(*b) || is_a<Rational>(*b)) {
            outs.push_back(b->__str__());
            wq.push_back(Q(outs.back()));
        } else
            finite = false;
    }
    if (!finite) {
        stat("nonfinite");
        if (distinct)
            oracle = "FAIL:nonfinite:non-rational weight for a grid of distinct rationals";
        return "nonfinite";
    }
    if (!distinct) {
        oracle = "FAIL:dup:all weights rational although the grid has repeated points";
        return join(outs, ",");
    }
    // the property itself, on monomials
    Q z(w[2]);
    for (unsigned k = 0; k <= md && oracle == "ok"; k++) {
        for (unsigned m = 0; m < n; m++) {
            Q lhs(0);
            for (size_t j = 0; j < n; j++)
                lhs = lhs + wq[j + k * n] * qpow(gq[j], m);
            Q rhs(0);
            if (k <= m) {
                rhs = Q(1);
                for (unsigned t = 0; t < k; t++)
                    rhs = rhs * Q((long)(m - t));
                rhs = rhs * qpow(z, m - k);
            }
            stat("monomial_checks");
            if (!(lhs == rhs)) {
                oracle = "FAIL:exact:order " + std::to_string(k) + " weights applied to x^" + std::to_string(m)
                         + " give " + lhs.str() + ", exact derivative at the centre is " + rhs.str();
                break;
            }
        }
    }
    return join(outs, ",");
}

static std::string rat(Rng &r, int maxnum, int maxden)
{
    long n = r.range(-maxnum, maxnum);
    long d = r.range(1, maxden);
    Q q(n);
    Q dq(d);
    mpq_div(q.v, q.v, dq.v);
    return q.str();
}

static void gen_case(Rng &r, size_t n, unsigned md, int maxnum, int maxden, const std::string &tag)
{
    std::vector<Q> pts;
    std::vector<std::string> toks;
    while (pts.size() < n) {
        std::string s = rat(r, maxnum, maxden);
        Q q(s);
        bool dup = false;
        for (auto &p : pts)
            if (p == q)
                dup = true;
        if (dup)
            continue;
        pts.push_back(q);
        toks.push_back(s);
    }
    // centre: on a node, or anywhere
    std::string c = r.coin(1, 3) ? toks[r.below(n)] : rat(r, maxnum, maxden);
    emit("fd " + std::to_string(md) + " " + c + " " + join(toks, " "), tag);
}

void hx_gen(Rng &r, const std::string &tier)
{
    bool th = tier == "thorough";
    // classical stencils: equispaced integer grids around 0 and one-sided
    for (int h = 1; h <= (th ? 4 : 3); h++) {
        std::vector<std::string> g;
        for (int x = -h; x <= h; x++)
            g.push_back(std::to_string(x));
        for (unsigned md = 0; md <= (unsigned)(2 * h + 1); md++)
            emit("fd " + std::to_string(md) + " 0 " + join(g, " "), "stencil-central");
    }
    for (int n = 1; n <= (th ? 8 : 6); n++) {
        std::vector<std::string> g;
        for (int x = 0; x < n; x++)
            g.push_back(std::to_string(x));
        for (unsigned md = 0; md <= (unsigned)n; md++)
            emit("fd " + std::to_string(md) + " 0 " + join(g, " "), "stencil-onesided");
    }
    // repeated grid points: division by an exact zero (model: nonfinite)
    emit("fd 1 0 1 1", "dup");
    emit("fd 2 1/2 0 1 0", "dup");
    emit("fd 0 3 2 5 7 5", "dup");
    emit("fd 3 0 0 0 0 0", "dup");
    // every size 1..7 x every order 0..size, several random grids each
    int reps = th ? 60 : 14;
    for (size_t n = 1; n <= (th ? 9u : 7u); n++)
        for (unsigned md = 0; md <= n; md++)
            for (int t = 0; t < reps; t++) {
                bool big = r.coin(1, 4);
                gen_case(r, n, md, big ? 50 : 9, big ? 12 : 4, "rand-n" + std::to_string(n));
            }
    // orders beyond the grid size (rows of zeros), unsorted grids, large centre
    for (int t = 0; t < (th ? 200 : 30); t++) {
        size_t n = 1 + r.below(5);
        gen_case(r, n, (unsigned)(n + 1 + r.below(4)), 20, 6, "order-beyond-size");
    }
}
