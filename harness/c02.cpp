// C02: Basic::__cmp__ is a strict total order consistent with eq (and RCPBasicKeyLess a strict weak order).
//
// Correspondence ops (operands are canonical dumps, harness/sexp.h; rebuilt structurally):
//   cmp <a> <b>          a->__cmp__(*b)  as -1/0/1
//   less <a> <b>         RCPBasicKeyLess()(a, b) as 0/1
//   sort <e1> ... <en>   insert into a set_basic in the given order, print the iteration order as operand indices
// Oracle-only op (the Lean driver answers SKIP; objects are built through the public API from the recipe):
//   ouniv <seed> <n> <mode>     mode 0: no NaN / no -0.0 doubles, no matrix expressions / multivariate polynomials;
//                               1: + NaN doubles (D3); 2: + -0.0 doubles (D1); 3: + matrix expressions
//                               (C02-matexpr-compare); 4: + multivariate polynomials (D2)
// Oracle: on the real objects, for all pairs  cmp in {-1,0,1},  cmp == 0 <=> eq,  cmp(a,b) == -cmp(b,a);
// for all triples of the representatives  transitivity;  a set_basic filled in three different orders iterates
// in the same order and holds one element per eq-class.
#include "c01_gen.h"
#include <algorithm>

using namespace SymEngine;
using xg::B;

static bool is_neg_zero_dbl(const Basic &b)
{
    if (is_a<RealDouble>(b)) {
        double d = down_cast<const RealDouble &>(b).i;
        return d == 0.0 && std::signbit(d);
    }
    if (is_a<ComplexDouble>(b)) {
        auto z = down_cast<const ComplexDouble &>(b).i;
        return (z.real() == 0.0 && std::signbit(z.real())) || (z.imag() == 0.0 && std::signbit(z.imag()));
    }
    return false;
}
static bool is_mpoly(const Basic &b)
{
    return is_a<MIntPoly>(b) || is_a<MExprPoly>(b);
}
static bool is_matexpr(const Basic &b)
{
    return b.get_type_code() >= SYMENGINE_IDENTITYMATRIX && b.get_type_code() <= SYMENGINE_TRANSPOSE;
}
// __cmp__ that reports a failed SYMENGINE_ASSERT (bad down_cast inside some compare()) instead of escaping
static const int CMP_THREW = 3;
static int safe_cmp(const Basic &a, const Basic &b, std::string *what = nullptr)
{
    try {
        return a.__cmp__(b);
    } catch (const std::exception &e) {
        if (what)
            *what = e.what();
        return CMP_THREW;
    }
}

static std::string short_dump(const Basic &b)
{
    std::string s;
    try {
        s = vsexp::dump(b);
    } catch (...) {
        s = "<undumpable>";
    }
    if (s.size() > 200)
        s = s.substr(0, 200) + "...";
    return s;
}

// failures are ranked: a failure that involves neither a NaN double nor a -0.0 double (nor a multivariate
// polynomial, D2) is reported first, so the known defects cannot hide a new one
struct Verdict {
    int rank = 99;
    std::string text;
    void fail(const std::string &axiom, const std::string &detail, std::initializer_list<const Basic *> objs)
    {
        bool nan = false, nz = false, mp = false, mx = false;
        std::string where;
        for (auto o : objs) {
            nan = nan || xg::has_nan(*o);
            nz = nz || xg::any_node(*o, is_neg_zero_dbl);
            mp = mp || xg::any_node(*o, is_mpoly);
            mx = mx || (axiom == "cmp-throws" && xg::any_node(*o, is_matexpr));
            where += " [" + short_dump(*o) + "]";
        }
        int rk = nan ? 4 : (nz ? 3 : (mp ? 2 : (mx ? 1 : 0)));
        stat(std::string("fail_") + (nan ? "nan" : nz ? "signed-zero" : mp ? "mpoly" : mx ? "matexpr" : "plain"));
        if (rk < rank) {
            rank = rk;
            const char *key = nan ? "order-nan"
                              : (nz ? "order-signed-zero" : (mp ? "order-mpoly" : (mx ? "order-matexpr" : "order")));
            text = std::string("FAIL:") + key + ":" + axiom + " " + detail + where;
        }
    }
    void into(std::string &oracle) const
    {
        if (rank != 99 && oracle == "ok")
            oracle = text;
    }
};

static void check_pair(const Basic &a, const Basic &b, Verdict &v)
{
    std::string what;
    int c = safe_cmp(a, b, &what), d = safe_cmp(b, a, &what);
    stat("oracle_pairs");
    if (c == CMP_THREW || d == CMP_THREW) {
        v.fail("cmp-throws", what, {&a, &b});
        return;
    }
    bool e = eq(a, b), e2 = eq(b, a);
    if (c < -1 || c > 1)
        v.fail("range", "cmp=" + std::to_string(c), {&a, &b});
    if ((c == 0) != e)
        v.fail("zero-iff-eq", "cmp=" + std::to_string(c) + " eq=" + std::to_string(e), {&a, &b});
    if (c != -d)
        v.fail("antisym", "cmp(a,b)=" + std::to_string(c) + " cmp(b,a)=" + std::to_string(d), {&a, &b});
    if (e != e2)
        v.fail("eq-sym", "eq(a,b)=" + std::to_string(e) + " eq(b,a)=" + std::to_string(e2), {&a, &b});
    if (&a == &b || e) {
        if (c != 0)
            v.fail("refl", "cmp of equal objects = " + std::to_string(c), {&a, &b});
    }
}

static std::string run_universe(uint64_t seed, unsigned n, int mode, std::string &oracle)
{
    std::vector<B> u = xg::make_universe(seed, n, mode);
    n = (unsigned)u.size();
    Verdict v;
    std::vector<signed char> M((size_t)n * n);
    unsigned long zeros = 0;
    for (unsigned i = 0; i < n; i++)
        for (unsigned j = 0; j < n; j++) {
            int c = safe_cmp(*u[i], *u[j]);
            M[(size_t)i * n + j] = (signed char)(c == CMP_THREW ? CMP_THREW : (c < -2 ? -2 : (c > 2 ? 2 : c)));
            if (c == 0)
                zeros++;
        }
    for (unsigned i = 0; i < n; i++)
        for (unsigned j = i; j < n; j++)
            check_pair(*u[i], *u[j], v);
    // transitivity over the representatives (all of them when the universe is small)
    unsigned m = std::min<unsigned>(n, 260);
    unsigned long triples = 0;
    for (unsigned i = 0; i < m; i++)
        for (unsigned j = 0; j < m; j++) {
            int ab = M[(size_t)i * n + j];
            if (ab > 0)
                continue;
            for (unsigned k = 0; k < m; k++) {
                int bc = M[(size_t)j * n + k];
                if (bc > 0)
                    continue;
                triples++;
                int ac = M[(size_t)i * n + k];
                if (ac == CMP_THREW)
                    continue;
                bool strict = ab < 0 || bc < 0;
                if (ac > 0 || (strict && ac == 0)) {
                    if (v.rank > 0)
                        v.fail("trans", "cmp(a,b)=" + std::to_string(ab) + " cmp(b,c)=" + std::to_string(bc)
                                            + " cmp(a,c)=" + std::to_string(ac),
                               {u[i].get(), u[j].get(), u[k].get()});
                }
            }
        }
    stat("oracle_triples", (long)triples);
    // ordered container: same keys, three insertion orders
    set_basic s1, s2, s3;
    for (unsigned i = 0; i < n; i++)
        s1.insert(u[i]);
    for (unsigned i = n; i-- > 0;)
        s2.insert(u[i]);
    std::vector<unsigned> perm(n);
    for (unsigned i = 0; i < n; i++)
        perm[i] = i;
    Rng pr(seed ^ 0xabcdef);
    for (unsigned i = n; i > 1; i--)
        std::swap(perm[i - 1], perm[pr.below(i)]);
    for (unsigned i = 0; i < n; i++)
        s3.insert(u[perm[i]]);
    auto same = [&](const set_basic &a, const set_basic &b) {
        if (a.size() != b.size())
            return false;
        auto x = a.begin(), y = b.begin();
        for (; x != a.end(); ++x, ++y)
            if (!eq(**x, **y))
                return false;
        return true;
    };
    // number of eq-classes, counted without the order
    unsigned classes = 0;
    {
        std::vector<B> reps;
        for (auto &e : u) {
            bool found = false;
            for (auto &q : reps)
                if (e->hash() == q->hash() && eq(*e, *q)) {
                    found = true;
                    break;
                }
            if (!found)
                reps.push_back(e);
        }
        classes = (unsigned)reps.size();
    }
    bool has_nan = false, has_nz = false;
    for (auto &e : u) {
        has_nan = has_nan || xg::has_nan(*e);
        has_nz = has_nz || xg::any_node(*e, is_neg_zero_dbl);
    }
    if (!same(s1, s2) || !same(s1, s3) || s1.size() != classes) {
        // attribute to the universe's special content
        const Basic *w = u[0].get();
        for (auto &e : u)
            if ((has_nan && xg::has_nan(*e)) || (!has_nan && has_nz && xg::any_node(*e, is_neg_zero_dbl))) {
                w = e.get();
                break;
            }
        v.fail("container", "set_basic sizes " + std::to_string(s1.size()) + "/" + std::to_string(s2.size()) + "/"
                                + std::to_string(s3.size()) + " for " + std::to_string(classes)
                                + " eq-classes, or different iteration orders",
               {w});
    }
    stat("universe_size", (long)n);
    v.into(oracle);
    return "n=" + std::to_string(n) + " zeros=" + std::to_string(zeros) + " classes=" + std::to_string(classes);
}

// ---------------------------------------------------------------- run
static std::vector<B> operands(const std::string &rest)
{
    std::vector<B> v;
    for (auto &n : vsexp::parse_all(rest))
        v.push_back(vsexp::build(n));
    return v;
}

std::string hx_run(const std::string &line, std::string &oracle)
{
    size_t sp = line.find(' ');
    if (sp == std::string::npos)
        return "bad-op";
    std::string op = line.substr(0, sp), rest = line.substr(sp + 1);
    if (op == "ouniv") {
        auto w = split(rest, ' ');
        if (w.size() != 3)
            return "bad-op";
        return run_universe(strtoull(w[0].c_str(), nullptr, 10), (unsigned)std::stoul(w[1]), std::stoi(w[2]), oracle);
    }
    std::vector<B> v = operands(rest);
    if (op == "cmp" || op == "less") {
        if (v.size() != 2)
            return "bad-op";
        Verdict vd;
        check_pair(*v[0], *v[1], vd);
        vd.into(oracle);
        if (op == "cmp")
            return std::to_string(v[0]->__cmp__(*v[1]));
        return RCPBasicKeyLess()(v[0], v[1]) ? "1" : "0";
    }
    if (op == "sort") {
        std::map<const Basic *, unsigned> idx;
        set_basic s, rev;
        for (unsigned i = 0; i < v.size(); i++) {
            if (s.insert(v[i]).second)
                idx[v[i].get()] = i;
        }
        for (unsigned i = (unsigned)v.size(); i-- > 0;)
            rev.insert(v[i]);
        std::string o;
        for (auto &e : s) {
            if (!o.empty())
                o += ",";
            o += std::to_string(idx[e.get()]);
        }
        Verdict vd;
        bool ok = s.size() == rev.size();
        if (ok) {
            auto x = s.begin(), y = rev.begin();
            for (; x != s.end(); ++x, ++y)
                ok = ok && eq(**x, **y);
        }
        if (!ok)
            vd.fail("container", "set_basic differs between insertion orders", {v[0].get()});
        for (auto &a : v)
            for (auto &b : v)
                check_pair(*a, *b, vd);
        vd.into(oracle);
        return o;
    }
    return "bad-op";
}

// ---------------------------------------------------------------- gen
static bool corr_ok(const Basic &b)
{
    try {
        if (!(xg::modelled(b) && xg::dumpable(b) && xg::nan_only_top(b)))
            return false;
        std::string d = vsexp::dump(b);
        if (d.size() > 1500)
            return false;
        B again = vsexp::parse(d);
        return vsexp::dump(*again) == d && again->hash() == b.hash();
    } catch (const std::exception &) {
        return false;
    }
}

static std::string class_tag(const Basic &b)
{
    if (is_a_Number(b))
        return "num";
    if (is_a_Boolean(b))
        return "bool";
    if (is_a_Set(b))
        return "set";
    switch (b.get_type_code()) {
        case SYMENGINE_ADD:
        case SYMENGINE_MUL:
        case SYMENGINE_POW:
        case SYMENGINE_SYMBOL:
        case SYMENGINE_CONSTANT:
        case SYMENGINE_FUNCTIONSYMBOL:
            return type_code_name(b.get_type_code());
        default:
            return "function";
    }
}

void hx_gen(Rng &r0, const std::string &tier)
{
    Rng r(r0.next() ^ 0x2545f491u); // see harness/c01.cpp: decorrelate consecutive seeds
    bool th = tier == "thorough";
    // fixed witnesses (D3) and boundaries
    emit("cmp (D 7ff8000000000000) (D 3ff0000000000000)", "cmp-nan");
    emit("cmp (D 3ff0000000000000) (D 7ff8000000000000)", "cmp-nan");
    emit("cmp (D 7ff8000000000000) (D 7ff8000000000000)", "cmp-nan");
    emit("cmp (CD 7ff8000000000000 0000000000000000) (CD 3ff0000000000000 0000000000000000)", "cmp-nan");
    emit("cmp (D 0000000000000000) (D 8000000000000000)", "cmp-signed-zero");
    emit("cmp (+ 0 ((F f (D 0000000000000000)) 1) ((s y) 1)) (+ 0 ((F f (D 8000000000000000)) 1) ((s y) 1))",
         "cmp-signed-zero");
    emit("cmp 1 (D 3ff0000000000000)", "cmp-kinds");
    emit("cmp 1/2 1", "cmp-kinds");
    emit("cmp (oo 1) (oo -1)", "cmp-kinds");
    emit("cmp (Interval 0 1 true false) (Interval 0 1 false true)", "cmp-interval");
    emit("cmp 18446744073709551616 -18446744073709551616", "cmp-bigint");
    emit("cmp 9223372036854775807/2 9223372036854775809/2", "cmp-bigint");

    // oracle universes
    int nu = th ? 11 : 6;
    unsigned usize = th ? 1500 : 320;
    for (int i = 0; i < nu; i++) {
        int mode = i == 0 ? 0 : (i - 1) % 5;
        static const char *mn[] = {"clean", "nan", "signed-zero", "matexpr", "mpoly"};
        emit("ouniv " + std::to_string(r.next() % 1000000007ULL) + " " + std::to_string(usize) + " " + std::to_string(mode),
             std::string("ouniv-") + mn[mode]);
    }
    // correspondence universe: modelled, faithfully rebuildable expressions
    xg::Gen g(r, false, 30);
    std::vector<B> univ;
    std::vector<std::string> dumps;
    unsigned want = th ? 420 : 130;
    for (int tries = 0; tries < 20000 && univ.size() < want; tries++) {
        B e = g.any((int)r.below(3));
        if (!corr_ok(*e))
            continue;
        univ.push_back(e);
        dumps.push_back(vsexp::dump(*e));
        if (r.coin(1, 5)) {
            try {
                B e2 = add(e, g.sym());
                if (corr_ok(*e2)) {
                    univ.push_back(e2);
                    dumps.push_back(vsexp::dump(*e2));
                }
            } catch (const std::exception &) {
            }
        }
    }
    size_t n = univ.size();
    // same-class pairs are the informative ones: bucket by type code and by coarse class
    int npairs = th ? 30000 : 3500;
    for (int i = 0; i < npairs; i++) {
        size_t a = r.below(n), b = r.below(n);
        if (r.coin(2, 3)) {
            // look for a partner of the same type code
            for (int t = 0; t < 12 && univ[a]->get_type_code() != univ[b]->get_type_code(); t++)
                b = r.below(n);
        }
        bool same = univ[a]->get_type_code() == univ[b]->get_type_code();
        emit((r.coin(1, 8) ? "less " : "cmp ") + dumps[a] + " " + dumps[b],
             (same ? "cmp-same-" : "cmp-mixed-") + class_tag(*univ[a]));
    }
    int nsort = th ? 2500 : 300;
    for (int i = 0; i < nsort; i++) {
        unsigned k = 2 + (unsigned)r.below(7);
        std::string o = "sort";
        size_t len = 0;
        for (unsigned j = 0; j < k; j++) {
            size_t a = r.below(n);
            if (xg::has_nan(*univ[a]))
                continue;
            o += " " + dumps[a];
            len += dumps[a].size();
        }
        if (len > 0 && len < 6000)
            emit(o, "sort");
    }
}
