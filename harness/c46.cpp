// C46: homogeneous_lde returns exactly the minimal non-zero non-negative integer solutions of A x = 0.
// Op line:  lde <p> <q> a11 a12 ... apq        (row major, integers)
// Output:   the returned basis sorted lexicographically, vectors joined by ';', components by ',';
//           "none" for an empty basis.
// Oracle (independent of the Lean model, plain long arithmetic):
//   sol      every returned vector has q Integer entries, is non-negative, non-zero and solves A x = 0
//   antichain  no returned vector dominates another one, none is returned twice
//   complete   brute-force enumeration of every solution inside the box 0 <= x_i <= B, reduced to its
//              minimal elements, equals the returned set restricted to the box
//              (B = max(largest returned entry + 2, 10), capped so that (B+1)^(q-1) <= 400000; the cap is counted).
#include "common.h"
#include <symengine/diophantine.h>
#include <symengine/integer.h>
#include <symengine/matrix.h>
#include <algorithm>

using namespace SymEngine;
typedef std::vector<long> V;

static bool dominates_or_eq(const V &a, const V &b) // a >= b componentwise
{
    for (size_t i = 0; i < a.size(); i++)
        if (a[i] < b[i])
            return false;
    return true;
}

static void enumerate(const std::vector<V> &A, size_t q, long B, size_t pos, V &x, V &partial, std::vector<V> &out)
{
    size_t p = A.size();
    if (pos == q - 1) {
        // last coordinate: solve a_{r,last} * x = -partial_r for all rows
        long lo = 0, hi = B;
        for (size_t r = 0; r < p; r++) {
            long a = A[r][pos];
            if (a == 0) {
                if (partial[r] != 0)
                    return;
            } else {
                if ((-partial[r]) % a != 0)
                    return;
                long v = (-partial[r]) / a;
                lo = std::max(lo, v);
                hi = std::min(hi, v);
            }
        }
        for (long v = lo; v <= hi; v++) {
            x[pos] = v;
            bool zero = true;
            for (long c : x)
                if (c != 0)
                    zero = false;
            if (!zero)
                out.push_back(x);
        }
        x[pos] = 0;
        return;
    }
    for (long v = 0; v <= B; v++) {
        x[pos] = v;
        enumerate(A, q, B, pos + 1, x, partial, out);
        for (size_t r = 0; r < p; r++)
            partial[r] += A[r][pos];
    }
    for (size_t r = 0; r < p; r++)
        partial[r] -= A[r][pos] * (B + 1);
    x[pos] = 0;
}

static std::string vstr(const V &v)
{
    std::vector<std::string> s;
    for (long c : v)
        s.push_back(std::to_string(c));
    return join(s, ",");
}

std::string hx_run(const std::string &line, std::string &oracle)
{
    auto w = split(line, ' ');
    if (w.size() < 3 || w[0] != "lde")
        return "bad-op";
    size_t p = std::stoul(w[1]), q = std::stoul(w[2]);
    if (w.size() != 3 + p * q)
        return "bad-op";
    std::vector<V> A(p, V(q));
    vec_basic ents;
    for (size_t r = 0; r < p; r++)
        for (size_t c = 0; c < q; c++) {
            A[r][c] = std::stol(w[3 + r * q + c]);
            ents.push_back(integer(A[r][c]));
        }
    DenseMatrix M((unsigned)p, (unsigned)q, ents);
    std::vector<DenseMatrix> basis;
    homogeneous_lde(basis, M);
    stat("calls");
    stat("basis_vectors", (long)basis.size());
    stat(basis.empty() ? "basis_empty" : (basis.size() < 3 ? "basis_1_2" : (basis.size() < 8 ? "basis_3_7" : "basis_ge8")));
    std::vector<V> got;
    for (auto &b : basis) {
        if (b.nrows() != 1 || b.ncols() != q) {
            oracle = "FAIL:sol:basis element of shape " + std::to_string(b.nrows()) + "x" + std::to_string(b.ncols());
            return "bad-shape";
        }
        V v(q);
        for (size_t c = 0; c < q; c++) {
            if (!is_a<Integer>(*b.get(0, (unsigned)c))) {
                oracle = "FAIL:sol:non-integer entry " + b.get(0, (unsigned)c)->__str__();
                return "bad-entry";
            }
            v[c] = (long)down_cast<const Integer &>(*b.get(0, (unsigned)c)).as_int();
        }
        got.push_back(v);
    }
    long maxe = 0;
    for (auto &v : got) {
        bool zero = true;
        for (size_t c = 0; c < q; c++) {
            if (v[c] < 0 && oracle == "ok")
                oracle = "FAIL:sol:negative component in " + vstr(v);
            if (v[c] != 0)
                zero = false;
            maxe = std::max(maxe, v[c]);
        }
        if (zero && oracle == "ok")
            oracle = "FAIL:sol:the zero vector was returned";
        for (size_t r = 0; r < p; r++) {
            long s = 0;
            for (size_t c = 0; c < q; c++)
                s += A[r][c] * v[c];
            if (s != 0 && oracle == "ok")
                oracle = "FAIL:sol:" + vstr(v) + " is not a solution (row " + std::to_string(r) + " gives "
                         + std::to_string(s) + ")";
        }
    }
    for (size_t i = 0; i < got.size(); i++)
        for (size_t j = 0; j < got.size(); j++)
            if (i != j && dominates_or_eq(got[i], got[j]) && oracle == "ok")
                oracle = std::string("FAIL:antichain:") + (got[i] == got[j] ? "returned twice: " : "not minimal: ")
                         + vstr(got[i]) + " >= " + vstr(got[j]);
    // brute force inside the box
    long B = std::max(maxe + 2, 10L);
    bool capped = false;
    while (B > 1) {
        double cells = 1;
        for (size_t c = 0; c + 1 < q; c++)
            cells *= (double)(B + 1);
        if (cells <= 400000.0)
            break;
        B--;
        capped = true;
    }
    stat(capped ? "box_capped" : "box_full");
    std::vector<V> sols;
    {
        V x(q, 0), partial(p, 0);
        enumerate(A, q, B, 0, x, partial, sols);
    }
    stat("box_solutions", (long)sols.size());
    std::sort(sols.begin(), sols.end(), [](const V &a, const V &b) {
        long sa = 0, sb = 0;
        for (long c : a)
            sa += c;
        for (long c : b)
            sb += c;
        if (sa != sb)
            return sa < sb;
        return a < b;
    });
    std::vector<V> mins;
    for (auto &s : sols) {
        bool minimal = true;
        for (auto &m : mins)
            if (dominates_or_eq(s, m)) {
                minimal = false;
                break;
            }
        if (minimal)
            mins.push_back(s);
    }
    std::vector<V> gotbox;
    for (auto &v : got) {
        bool in = true;
        for (long c : v)
            if (c > B)
                in = false;
        if (in)
            gotbox.push_back(v);
    }
    std::sort(mins.begin(), mins.end());
    std::sort(gotbox.begin(), gotbox.end());
    gotbox.erase(std::unique(gotbox.begin(), gotbox.end()), gotbox.end());
    stat("minimal_in_box", (long)mins.size());
    if (mins != gotbox && oracle == "ok") {
        for (auto &m : mins)
            if (!std::binary_search(gotbox.begin(), gotbox.end(), m)) {
                oracle = "FAIL:complete:minimal solution " + vstr(m) + " is missing from the basis";
                break;
            }
        if (oracle == "ok")
            for (auto &g : gotbox)
                if (!std::binary_search(mins.begin(), mins.end(), g)) {
                    oracle = "FAIL:complete:returned vector " + vstr(g) + " is not a minimal solution";
                    break;
                }
    }
    std::sort(got.begin(), got.end());
    if (got.empty())
        return "none";
    std::vector<std::string> outs;
    for (auto &v : got)
        outs.push_back(vstr(v));
    return join(outs, ";");
}

static void gen_matrix(Rng &r, size_t p, size_t q, int lim, const std::string &tag)
{
    std::vector<std::string> t;
    // bias towards rows with both signs (otherwise only trivial solutions) and some zeros
    for (size_t i = 0; i < p; i++) {
        for (size_t j = 0; j < q; j++) {
            long v = r.coin(1, 6) ? 0 : r.range(-lim, lim);
            t.push_back(std::to_string(v));
        }
    }
    emit("lde " + std::to_string(p) + " " + std::to_string(q) + " " + join(t, " "), tag);
}

// a matrix with a planted non-negative solution x (so that the basis is not empty)
static void gen_planted(Rng &r, size_t p, size_t q, int lim, const std::string &tag)
{
    V x(q);
    for (size_t j = 0; j < q; j++)
        x[j] = r.below(4);
    size_t one = r.below(q);
    x[one] = 1;
    std::vector<std::string> t;
    for (size_t i = 0; i < p; i++) {
        V row(q);
        for (int attempt = 0; attempt < 50; attempt++) {
            long s = 0;
            for (size_t j = 0; j < q; j++) {
                row[j] = r.coin(1, 8) ? 0 : r.range(-lim, lim);
                if (j != one)
                    s += row[j] * x[j];
            }
            row[one] = -s;
            if (std::labs(row[one]) <= lim + 1)
                break;
        }
        for (size_t j = 0; j < q; j++)
            t.push_back(std::to_string(row[j]));
    }
    emit("lde " + std::to_string(p) + " " + std::to_string(q) + " " + join(t, " "), tag);
}

void hx_gen(Rng &r, const std::string &tier)
{
    bool th = tier == "thorough";
    // fixed cases: the test-suite matrices and boundary shapes
    emit("lde 1 2 1 -1", "fixed");
    emit("lde 1 2 1 1", "fixed");
    emit("lde 1 2 0 0", "fixed");
    emit("lde 1 3 1 1 -2", "fixed");
    emit("lde 1 4 1 2 -3 -1", "fixed");
    emit("lde 2 4 1 -1 0 0 0 0 2 -3", "fixed");
    emit("lde 2 3 1 -1 0 0 1 -1", "fixed");
    emit("lde 3 3 1 0 0 0 1 0 0 0 1", "fixed");
    emit("lde 3 4 0 0 0 0 0 0 0 0 0 0 0 0", "fixed");
    emit("lde 2 5 1 1 -1 -1 0 1 -1 1 -1 2", "fixed");
    // exhaustive tiny universe: all 1x2 and 1x3 matrices with entries in [-2,2] (quick) / [-3,3] (thorough)
    int e = th ? 3 : 2;
    for (int a = -e; a <= e; a++)
        for (int b = -e; b <= e; b++) {
            emit("lde 1 2 " + std::to_string(a) + " " + std::to_string(b), "exh-1x2");
            for (int c = -e; c <= e; c++)
                emit("lde 1 3 " + std::to_string(a) + " " + std::to_string(b) + " " + std::to_string(c), "exh-1x3");
        }
    int n = th ? 6000 : 900;
    int lim = th ? 4 : 3;
    size_t maxq = th ? 5 : 4;
    for (int i = 0; i < n; i++) {
        size_t p = 1 + r.below(3);
        size_t q = 2 + r.below(maxq - 1);
        if (r.coin(2, 3))
            gen_planted(r, p, q, lim, "planted-" + std::to_string(p) + "x" + std::to_string(q));
        else
            gen_matrix(r, p, q, lim, "rand-" + std::to_string(p) + "x" + std::to_string(q));
    }
}
