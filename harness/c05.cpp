// C05: exact number arithmetic (Integer, Rational, Complex) is correct and normalised.
// Op line:  <op> <a> <b>     op in add sub mul div pow tpow   (pow = a->pow(*b), tpow = SymEngine::pow(a, b); b an integer)
// value tokens: i<int> | r<num>/<den> | c<n>/<d>,<n>/<d>
// output: canonical dump of the result:  I:<n> | Q:<n>/<d> | C:<n>/<d>,<n>/<d> | zoo | nan | E:<exc>
// oracle: the value is recomputed from the *tokens* with plain GMP rationals (no symengine class involved)
//         and the normalisation invariants are checked on the fields of the returned object.
#include "common.h"
#include <symengine/basic.h>
#include <symengine/integer.h>
#include <symengine/rational.h>
#include <symengine/complex.h>
#include <symengine/real_double.h>
#include <symengine/complex_double.h>
#include <symengine/infinity.h>
#include <symengine/nan.h>
#include <symengine/constants.h>
#include <symengine/pow.h>
#include <cmath>
#include <complex>

using namespace SymEngine;
typedef RCP<const Number> Num;

// ---------------------------------------------------------------- value syntax (shared text with c05.cpp / c29.cpp)
static std::string hex16(double d)
{
    if (std::isnan(d))
        return "nan";
    uint64_t u;
    memcpy(&u, &d, 8);
    char buf[20];
    snprintf(buf, sizeof buf, "%016llx", (unsigned long long)u);
    return buf;
}
static double from_hex(const std::string &s)
{
    uint64_t u = strtoull(s.c_str(), nullptr, 16);
    double d;
    memcpy(&d, &u, 8);
    return d;
}
static integer_class zint(const std::string &s)
{
    integer_class z;
    mpz_set_str(get_mpz_t(z), s.c_str(), 10);
    return z;
}
static Num parse_q(const std::string &s)
{
    auto p = split(s, '/');
    return Rational::from_two_ints(*integer(zint(p[0])), *integer(zint(p.size() > 1 ? p[1] : "1")));
}
static Num parse_num(const std::string &t)
{
    if (t == "oo")
        return Inf;
    if (t == "-oo")
        return NegInf;
    if (t == "zoo")
        return ComplexInf;
    if (t == "nan")
        return Nan;
    std::string r = t.substr(1);
    switch (t[0]) {
        case 'i':
            return integer(zint(r));
        case 'r':
            return parse_q(r);
        case 'c': {
            auto p = split(r, ',');
            return Complex::from_two_nums(*parse_q(p[0]), *parse_q(p[1]));
        }
        case 'd':
            return real_double(from_hex(r));
        case 'z': {
            auto p = split(r, ',');
            return complex_double(std::complex<double>(from_hex(p[0]), from_hex(p[1])));
        }
    }
    throw std::runtime_error("bad value token " + t);
}
static std::string zstr(const integer_class &z)
{
    char *c = mpz_get_str(nullptr, 10, get_mpz_t(z));
    std::string s(c);
    free(c);
    return s;
}
static std::string qstr(const rational_class &q)
{
    return zstr(get_num(q)) + "/" + zstr(get_den(q));
}
static std::string dump(const Basic &b)
{
    if (is_a<Integer>(b))
        return "I:" + zstr(down_cast<const Integer &>(b).as_integer_class());
    if (is_a<Rational>(b))
        return "Q:" + qstr(down_cast<const Rational &>(b).as_rational_class());
    if (is_a<Complex>(b)) {
        const Complex &c = down_cast<const Complex &>(b);
        return "C:" + qstr(c.real_) + "," + qstr(c.imaginary_);
    }
    if (is_a<RealDouble>(b))
        return "D:" + hex16(down_cast<const RealDouble &>(b).i);
    if (is_a<ComplexDouble>(b)) {
        auto z = down_cast<const ComplexDouble &>(b).i;
        return "Z:" + hex16(z.real()) + "," + hex16(z.imag());
    }
    if (is_a<Infty>(b)) {
        const Infty &f = down_cast<const Infty &>(b);
        RCP<const Number> d = f.get_direction();
        if (is_a<Integer>(*d)) {
            if (d->is_one())
                return "oo";
            if (d->is_minus_one())
                return "-oo";
            if (d->is_zero())
                return "zoo";
        }
        return "INFTY-NONCANONICAL(" + dump(*d) + ")";
    }
    if (is_a<NaN>(b))
        return "nan";
    return "OTHER(" + b.__str__() + ")";
}

static Num apply(const std::string &op, const Num &a, const Num &b)
{
    if (op == "add")
        return a->add(*b);
    if (op == "sub")
        return a->sub(*b);
    if (op == "mul")
        return a->mul(*b);
    if (op == "div")
        return a->div(*b);
    if (op == "pow")
        return a->pow(*b);
    if (op == "tpow") { // the free function pow(a, b) of pow.cpp
        RCP<const Basic> r = SymEngine::pow(a, b);
        if (not is_a_Number(*r))
            throw std::runtime_error("pow returned a non-number: " + r->__str__());
        return rcp_static_cast<const Number>(r);
    }
    throw std::runtime_error("bad op");
}
static std::string eval(const std::string &op, const Num &a, const Num &b, std::string &oracle)
{
    try {
        return dump(*apply(op, a, b));
    } catch (const VerifAssertError &e) {
        if (oracle == "ok")
            oracle = std::string("FAIL:assert:") + e.what();
        return "E:Assert";
    } catch (const std::exception &e) {
        return exc_name(e);
    }
}


// ---------------------------------------------------------------- independent reference arithmetic on (re, im) in Q x Q
struct G {
    rational_class re, im;
};
static rational_class q_of(const std::string &s)
{
    auto p = split(s, '/');
    rational_class q(zint(p[0]), zint(p.size() > 1 ? p[1] : "1"));
    canonicalize(q);
    return q;
}
static G g_of_token(const std::string &t)
{
    std::string r = t.substr(1);
    G g;
    g.im = 0;
    if (t[0] == 'i')
        g.re = rational_class(zint(r));
    else if (t[0] == 'r')
        g.re = q_of(r);
    else if (t[0] == 'c') {
        auto p = split(r, ',');
        g.re = q_of(p[0]);
        g.im = q_of(p[1]);
    } else
        throw std::runtime_error("bad exact token " + t);
    return g;
}
static bool g_zero(const G &a)
{
    return a.re == 0 and a.im == 0;
}
static G g_add(const G &a, const G &b)
{
    return G{a.re + b.re, a.im + b.im};
}
static G g_sub(const G &a, const G &b)
{
    return G{a.re - b.re, a.im - b.im};
}
static G g_mul(const G &a, const G &b)
{
    return G{a.re * b.re - a.im * b.im, a.re * b.im + a.im * b.re};
}
static G g_div(const G &a, const G &b)
{
    rational_class m = b.re * b.re + b.im * b.im;
    return G{(a.re * b.re + a.im * b.im) / m, (a.im * b.re - a.re * b.im) / m};
}
static G g_pow(const G &a, long e)
{ // plain repeated multiplication, |e| is small
    G r{rational_class(1), rational_class(0)};
    for (long k = 0; k < (e < 0 ? -e : e); k++)
        r = g_mul(r, a);
    if (e < 0)
        r = g_div(G{rational_class(1), rational_class(0)}, r);
    return r;
}

static bool canonical_q(const rational_class &q)
{
    integer_class g;
    mpz_gcd(get_mpz_t(g), get_mpz_t(get_num(q)), get_mpz_t(get_den(q)));
    return get_den(q) > 0 and g == 1;
}

// value and normalisation of a returned object; false if it is not an exact number
static bool value_of(const Basic &b, G &g, std::string &why)
{
    g.im = 0;
    if (is_a<Integer>(b)) {
        g.re = rational_class(down_cast<const Integer &>(b).as_integer_class());
        return true;
    }
    if (is_a<Rational>(b)) {
        const rational_class &q = down_cast<const Rational &>(b).as_rational_class();
        if (!canonical_q(q))
            why = "rational not in lowest terms / positive denominator";
        else if (get_den(q) == 1)
            why = "Rational with denominator 1";
        g.re = q;
        return true;
    }
    if (is_a<Complex>(b)) {
        const Complex &c = down_cast<const Complex &>(b);
        if (!canonical_q(c.real_) or !canonical_q(c.imaginary_))
            why = "complex part not canonical";
        else if (c.imaginary_ == 0)
            why = "Complex with zero imaginary part";
        g.re = c.real_;
        g.im = c.imaginary_;
        return true;
    }
    return false;
}
static std::string gstr(const G &g)
{
    return qstr(g.re) + "," + qstr(g.im);
}
static void fail(std::string &oracle, const std::string &key, const std::string &d)
{
    if (oracle == "ok")
        oracle = "FAIL:" + key + ":" + d;
}

std::string hx_run(const std::string &line, std::string &oracle)
{
    auto w = split(line, ' ');
    if (w.size() != 3)
        return "bad-op";
    const std::string &op = w[0];
    Num a = parse_num(w[1]), b = parse_num(w[2]);
    G ga = g_of_token(w[1]), gb = g_of_token(w[2]);
    std::string ctx = op + "(" + dump(*a) + "," + dump(*b) + ")";
    // the constructors themselves must normalise (int when den = 1, real when im = 0)
    {
        G chk;
        std::string why;
        if (!value_of(*a, chk, why) or !why.empty() or chk.re != ga.re or chk.im != ga.im)
            fail(oracle, "ctor", "operand " + w[1] + " constructed as " + dump(*a) + " " + why);
    }
    std::string out;
    Num r;
    try {
        r = apply(op, a, b);
        out = dump(*r);
    } catch (const VerifAssertError &e) {
        fail(oracle, "assert", ctx + ": " + e.what());
        return "E:Assert";
    } catch (const std::exception &e) {
        out = exc_name(e);
        fail(oracle, "throws", ctx + " = " + out);
        stat("op_" + op);
        return out;
    }
    stat("op_" + op);
    ctx += " = " + out;

    bool have = true; // expected finite value exists
    G exp;
    std::string special; // "zoo" / "nan" when expected
    if (op == "add")
        exp = g_add(ga, gb);
    else if (op == "sub")
        exp = g_sub(ga, gb);
    else if (op == "mul")
        exp = g_mul(ga, gb);
    else if (op == "div") {
        if (g_zero(gb)) {
            have = false;
            special = g_zero(ga) ? "nan" : "zoo";
        } else
            exp = g_div(ga, gb);
    } else { // pow / tpow with an integer exponent
        long e = strtol(w[2].c_str() + 1, nullptr, 10);
        if (g_zero(ga) and e < 0) {
            have = false;
            special = "zoo";
        } else
            exp = g_pow(ga, e);
    }
    if (!have) {
        if (out != special)
            fail(oracle, "div-zero", ctx + " expected " + special);
        stat("checked_zero_division");
        return out;
    }
    G got;
    std::string why;
    if (!value_of(*r, got, why)) {
        fail(oracle, "kind", ctx + " is not an exact number, expected " + gstr(exp));
        return out;
    }
    if (!why.empty())
        fail(oracle, "normal", ctx + ": " + why);
    if (got.re != exp.re or got.im != exp.im)
        fail(oracle, "value", ctx + " expected " + gstr(exp));
    stat("checked_value_and_normal_form");
    if (get_den(got.re) != 1 or got.im != 0)
        stat("result_nonint");
    return out;
}

// ---------------------------------------------------------------- generation
static std::string itok(long n)
{
    return "i" + std::to_string(n);
}
static long gcdl(long a, long b)
{
    a = a < 0 ? -a : a;
    while (b) {
        long t = a % b;
        a = b;
        b = t;
    }
    return a;
}
static std::string qtok(long n, long d)
{
    return std::to_string(n) + "/" + std::to_string(d);
}
static std::string rand_int(Rng &r, int maxbits)
{
    int bits = 1 + (int)r.below(maxbits);
    integer_class z = 0;
    for (int i = 0; i < bits; i += 32)
        z = z * integer_class(4294967296UL) + integer_class((unsigned long)(r.next() & 0xffffffffULL));
    integer_class m = 1;
    mpz_mul_2exp(get_mpz_t(m), get_mpz_t(m), bits);
    mpz_mod(get_mpz_t(z), get_mpz_t(z), get_mpz_t(m));
    if (r.coin())
        z = -z;
    return zstr(z);
}
static std::string rand_q(Rng &r, int maxbits)
{
    std::string n = rand_int(r, maxbits), d = rand_int(r, maxbits);
    if (d[0] == '-')
        d = d.substr(1);
    if (d == "0")
        d = "1";
    rational_class q(zint(n), zint(d));
    canonicalize(q);
    return qstr(q);
}
static std::string rand_exact(Rng &r, int bits)
{
    switch (r.below(3)) {
        case 0:
            return "i" + rand_int(r, bits);
        case 1:
            return "r" + rand_q(r, bits);
        default:
            return "c" + rand_q(r, bits) + "," + rand_q(r, bits);
    }
}

void hx_gen(Rng &r, const std::string &tier)
{
    bool th = tier == "thorough";
    // small values, exhaustively: numerators and denominators in [-B, B]
    long B = th ? 6 : 4;
    std::vector<std::string> V;
    for (long n = -B; n <= B; n++)
        V.push_back(itok(n));
    for (long d = 2; d <= B; d++)
        for (long n = -B; n <= B; n++)
            if (gcdl(n, d) == 1)
                V.push_back("r" + qtok(n, d));
    std::vector<std::string> parts;
    long P = th ? 3 : 2;
    for (long d = 1; d <= P; d++)
        for (long n = -P; n <= P; n++)
            if (gcdl(n, d) == 1 and (d > 1 or true))
                parts.push_back(qtok(n, d));
    for (auto &re : parts)
        for (auto &im : parts)
            if (im.substr(0, 2) != "0/")
                V.push_back("c" + re + "," + im);
    const char *ops4[] = {"add", "sub", "mul", "div"};
    for (auto &a : V)
        for (auto &b : V)
            for (auto op : ops4)
                emit(std::string(op) + " " + a + " " + b, std::string("small-") + a[0] + "x" + b[0]);
    // constructors given non-canonical input must normalise
    emit("add r6/-4 r4/2", "ctor");
    emit("add c6/4,0/5 c1/1,2/-4", "ctor");
    emit("mul c0/1,1/1 c0/1,1/1", "ctor");
    // multi-limb values, random
    int n = th ? 30000 : 4000;
    for (int i = 0; i < n; i++) {
        int bits = r.coin(1, 4) ? 2000 : (r.coin() ? 200 : 70);
        std::string a = rand_exact(r, bits), b = r.coin(1, 8) ? "i0" : rand_exact(r, bits);
        const char *op = ops4[r.below(4)];
        emit(std::string(op) + " " + a + " " + b, std::string("multilimb-") + a[0] + "x" + b[0]);
    }
    // integer powers last (0 ** negative crashed the unpatched library; keep such cases at the end)
    int np = th ? 4000 : 600;
    for (int i = 0; i < np; i++) {
        std::string a = r.coin(1, 80) ? "i0" : rand_exact(r, r.coin() ? 150 : 40);
        long e = r.range(-24, 24);
        emit(std::string(r.coin() ? "pow " : "tpow ") + a + " " + itok(e), std::string("multilimb-pow-") + a[0]);
    }
    long E = th ? 9 : 6;
    for (auto &a : V)
        for (long e = -E; e <= E; e++) {
            emit("pow " + a + " " + itok(e), std::string("small-pow-") + a[0]);
            emit("tpow " + a + " " + itok(e), std::string("small-tpow-") + a[0]);
        }
}
