// Common scaffolding for the per-property correspondence harnesses.
//
//   hx gen <seed> <tier>     prints   OP\t<op line>\t<tag>        (one per generated case)
//   hx run  < ops            prints   R\t<impl output>\t<oracle>  (one per op line, flushed)
//                            then     S\t<key>\t<count>           (statistics)
//
// A harness defines
//   void hx_gen(Rng &rng, const std::string &tier);          // calls emit(op, tag)
//   std::string hx_run(const std::string &op, std::string &oracle);
// `oracle` is "ok" or "FAIL:<key>:<detail>" and is the *property itself* evaluated on the real
// objects, independent of the Lean model.  Every random choice derives from one SplitMix64 state.
#ifndef VERIF_HARNESS_COMMON_H
#define VERIF_HARNESS_COMMON_H
#include <cstdint>
#include <cstdio>
#include <cstdlib>
#include <cstring>
#include <iostream>
#include <map>
#include <sstream>
#include <string>
#include <vector>
#include <stdexcept>
#include <symengine/symengine_exception.h>

struct Rng {
    uint64_t s;
    // the seed is scrambled first: with s = seed * increment consecutive seeds would be the same
    // stream shifted by one draw
    explicit Rng(uint64_t seed) : s(seed ^ 0x5DEECE66DULL)
    {
        uint64_t a = next(), b = next();
        s = a ^ (b << 1) ^ (seed * 0xD1342543DE82EF95ULL);
    }
    uint64_t next()
    {
        uint64_t z = (s += 0x9E3779B97F4A7C15ULL);
        z = (z ^ (z >> 30)) * 0xBF58476D1CE4E5B9ULL;
        z = (z ^ (z >> 27)) * 0x94D049BB133111EBULL;
        return z ^ (z >> 31);
    }
    // uniform in [0,n)
    uint64_t below(uint64_t n)
    {
        return n ? next() % n : 0;
    }
    int64_t range(int64_t lo, int64_t hi)
    {
        return lo + (int64_t)below((uint64_t)(hi - lo + 1));
    }
    bool coin(unsigned num = 1, unsigned den = 2)
    {
        return below(den) < num;
    }
    template <class T>
    const T &pick(const std::vector<T> &v)
    {
        return v[below(v.size())];
    }
};

static std::map<std::string, long> g_stats;
inline void stat(const std::string &k, long n = 1)
{
    g_stats[k] += n;
}
inline void emit(const std::string &op, const std::string &tag = "gen")
{
    std::cout << "OP\t" << op << "\t" << tag << "\n";
}

inline std::vector<std::string> split(const std::string &s, char sep = ' ')
{
    std::vector<std::string> out;
    std::string cur;
    for (char c : s) {
        if (c == sep) {
            out.push_back(cur);
            cur.clear();
        } else
            cur.push_back(c);
    }
    out.push_back(cur);
    return out;
}
inline std::string join(const std::vector<std::string> &v, const std::string &sep)
{
    std::string o;
    for (size_t i = 0; i < v.size(); i++) {
        if (i)
            o += sep;
        o += v[i];
    }
    return o;
}
template <class T>
inline std::string tostr(const T &x)
{
    std::ostringstream ss;
    ss << x;
    return ss.str();
}

void hx_gen(Rng &rng, const std::string &tier);
std::string hx_run(const std::string &op, std::string &oracle);

// Map any exception to the small error enum shared with the Lean models.
inline std::string exc_name(const std::exception &e)
{
    if (dynamic_cast<const SymEngine::VerifAssertError *>(&e))
        return std::string("E:Assert");
    if (auto se = dynamic_cast<const SymEngine::SymEngineException *>(&e)) {
        switch (const_cast<SymEngine::SymEngineException *>(se)->error_code()) {
            case SYMENGINE_NOT_IMPLEMENTED:
                return "E:NotImplemented";
            case SYMENGINE_DOMAIN_ERROR:
                return "E:Domain";
            case SYMENGINE_PARSE_ERROR:
                return "E:Parse";
            case SYMENGINE_DIV_BY_ZERO:
                return "E:DivByZero";
            case SYMENGINE_SERIALIZATION_ERROR:
                return "E:Serialization";
            default:
                return "E:Runtime";
        }
    }
    if (dynamic_cast<const std::bad_alloc *>(&e))
        return "E:BadAlloc";
    return "E:Other";
}

int main(int argc, char **argv)
{
    std::ios::sync_with_stdio(false);
    if (argc >= 2 && std::string(argv[1]) == "gen") {
        uint64_t seed = argc > 2 ? strtoull(argv[2], nullptr, 10) : 1;
        std::string tier = argc > 3 ? argv[3] : "quick";
        Rng rng(seed);
        hx_gen(rng, tier);
        return 0;
    }
    if (argc >= 2 && std::string(argv[1]) == "run") {
        std::string line;
        while (std::getline(std::cin, line)) {
            std::string oracle = "ok", out;
            try {
                out = hx_run(line, oracle);
            } catch (const SymEngine::VerifAssertError &e) {
                out = "E:Assert";
                oracle = std::string("FAIL:assert:") + e.what();
            } catch (const std::exception &e) {
                out = exc_name(e);
            }
            for (auto &c : out)
                if (c == '\t' || c == '\n')
                    c = ' ';
            for (auto &c : oracle)
                if (c == '\t' || c == '\n')
                    c = ' ';
            std::cout << "R\t" << out << "\t" << oracle << std::endl;
        }
        for (auto &kv : g_stats)
            std::cout << "S\t" << kv.first << "\t" << kv.second << "\n";
        return 0;
    }
    std::cerr << "usage: hx gen <seed> <tier> | hx run < ops\n";
    return 2;
}
#endif
