// C01: equal expressions always have equal hashes.
//
// Correspondence ops (operands are canonical dumps, harness/sexp.h; rebuilt structurally):
//   tcodes              the TypeID table  Name=code,...        (ties Gen/TypeCodes.lean to type_code_name)
//   hash <e>            16 hex digits of e->hash()
//   eq <a> <b>          eq(*a, *b) as 0/1
//   pair <a> <b>        "<eq> <hash a> <hash b>"
// Oracle-only op (the Lean driver answers SKIP; the objects are built through the public API along two
// different construction paths, from the recipe (kind, seed)):
//   opair <kind> <seed>
//   ouniv <seed> <n> <mode>   all pairs of a universe of n API-built expressions (modes as in harness/c02.cpp)
// Oracle (every op that has two operands): eq(a,b) => a->hash() == b->hash(), and eq is symmetric.
#include "c01_gen.h"
#include <symengine/visitor.h>
#include <symengine/subs.h>

using namespace SymEngine;
using xg::B;

static bool is_neg_zero_dbl(const Basic &b)
{
    if (is_a<RealDouble>(b)) {
        double d = down_cast<const RealDouble &>(b).i;
        return d == 0.0 && std::signbit(d);
    }
    if (is_a<ComplexDouble>(b)) {
        auto z = down_cast<const ComplexDouble &>(b).i;
        return (z.real() == 0.0 && std::signbit(z.real())) || (z.imag() == 0.0 && std::signbit(z.imag()));
    }
    return false;
}
static bool is_mpoly(const Basic &b)
{
    return is_a<MIntPoly>(b) || is_a<MExprPoly>(b);
}

static std::string short_dump(const Basic &b)
{
    std::string s;
    try {
        s = vsexp::dump(b);
    } catch (...) {
        s = "<undumpable>";
    }
    if (s.size() > 300)
        s = s.substr(0, 300) + "...";
    return s;
}

// the property on one pair of real objects
static void check_pair(const Basic &a, const Basic &b, std::string &oracle)
{
    bool e1 = eq(a, b), e2 = eq(b, a);
    stat("oracle_pairs");
    if (e1)
        stat("oracle_pairs_eq");
    if (oracle != "ok")
        return;
    if (e1 != e2) {
        oracle = "FAIL:eq-asym:eq(a,b)=" + std::to_string(e1) + " eq(b,a)=" + std::to_string(e2) + " a=" + short_dump(a)
                 + " b=" + short_dump(b);
        return;
    }
    if (e1 && a.hash() != b.hash()) {
        std::string key = "hash";
        if (xg::any_node(a, is_neg_zero_dbl) || xg::any_node(b, is_neg_zero_dbl))
            key = "hash-signed-zero";
        else if (xg::any_node(a, is_mpoly) || xg::any_node(b, is_mpoly))
            key = "hash-mpoly";
        oracle = "FAIL:" + key + ":eq(a,b) but hash " + vsexp::hex64(a.hash()) + " != " + vsexp::hex64(b.hash())
                 + " a=" + short_dump(a) + " b=" + short_dump(b);
    }
}

// ---------------------------------------------------------------- construction-path pairs
static const int N_KINDS = 15;
static const char *kind_name(int k)
{
    static const char *n[] = {"comm-add", "comm-mul", "assoc-add", "assoc-mul", "pow-vs-mul", "sub-div",
                              "signed-zero", "set-perm", "parse-str", "rebuild", "expand", "num-paths",
                              "subs-roundtrip", "exotic", "any-twice"};
    return n[k];
}

static std::pair<B, B> make_pair_raw(int kind, uint64_t seed)
{
    Rng r(seed);
    xg::Gen g(r, true, 40);
    int depth = 1 + (int)r.below(3);
    switch (kind) {
        case 0: {
            B x = g.expr(depth), y = g.expr(depth);
            return {add(x, y), add(y, x)};
        }
        case 1: {
            B x = g.expr(depth), y = g.expr(depth);
            return {mul(x, y), mul(y, x)};
        }
        case 2: {
            B p = g.expr(depth), q = g.expr(depth), s = g.expr(depth);
            B v[3] = {add(add(p, q), s), add(p, add(q, s)), add({s, p, q})};
            unsigned i = r.below(3);
            return {v[i], v[(i + 1 + r.below(2)) % 3]};
        }
        case 3: {
            B p = g.expr(depth), q = g.expr(depth), s = g.expr(depth);
            B v[3] = {mul(mul(p, q), s), mul(p, mul(q, s)), mul({s, p, q})};
            unsigned i = r.below(3);
            return {v[i], v[(i + 1 + r.below(2)) % 3]};
        }
        case 4: {
            B x = g.expr(depth);
            switch (r.below(4)) {
                case 0:
                    return {mul(x, x), pow(x, integer(2))};
                case 1:
                    return {mul({x, x, x}), pow(x, integer(3))};
                case 2:
                    return {add(x, x), mul(integer(2), x)};
                default:
                    return {mul(x, pow(x, integer(-1))), one};
            }
        }
        case 5: {
            B p = g.expr(depth), q = g.expr(depth);
            if (r.coin())
                return {sub(p, q), r.coin() ? add(p, neg(q)) : add(p, mul(minus_one, q))};
            if (is_a_Number(*q))
                q = g.sym();
            return {div(p, q), mul(p, pow(q, minus_one))};
        }
        case 6: {
            // the same expression, signs of the double zeros flipped
            B e;
            switch (r.below(6)) {
                case 0:
                    e = real_double(r.coin() ? 0.0 : -0.0);
                    break;
                case 1:
                    e = complex_double(std::complex<double>(r.coin() ? 0.0 : -0.0, g.dbl()));
                    break;
                case 2:
                    e = function_symbol("f", {B(real_double(0.0)), g.expr(1)});
                    break;
                case 3:
                    e = function_symbol("g", B(complex_double(std::complex<double>(1.0, -0.0))));
                    break;
                case 4: {
                    B x = g.sym();
                    return {finiteset({B(real_double(0.0)), x}), finiteset({B(real_double(-0.0)), x})};
                }
                default:
                    e = function_symbol("f", function_symbol("g", B(real_double(-0.0))));
            }
            B f = xg::flip_zero_signs(e);
            if (r.coin(1, 3)) {
                B y = g.sym();
                return {add(e, y), add(f, y)};
            }
            return {e, f};
        }
        case 7: {
            unsigned n = 2 + r.below(4);
            if (r.coin()) {
                vec_basic v;
                for (unsigned i = 0; i < n; i++)
                    v.push_back(g.expr(depth - 1));
                set_basic s1, s2;
                for (unsigned i = 0; i < n; i++)
                    s1.insert(v[i]);
                for (unsigned i = n; i-- > 0;)
                    s2.insert(v[i]);
                return {finiteset(s1), finiteset(s2)};
            }
            vec_boolean v;
            for (unsigned i = 0; i < n; i++)
                v.push_back(g.boolean(1));
            set_boolean s1, s2;
            for (unsigned i = 0; i < n; i++)
                s1.insert(v[i]);
            for (unsigned i = n; i-- > 0;)
                s2.insert(v[i]);
            if (r.coin())
                return {logical_and(s1), logical_and(s2)};
            return {logical_or(s1), logical_or(s2)};
        }
        case 8: {
            B e = g.expr(depth, true);
            return {e, parse(e->__str__())};
        }
        case 9: {
            Rng r1(seed * 31 + 7), r2(seed * 31 + 7);
            xg::Gen g1(r1, false, 0), g2(r2, false, 0);
            B e1 = g1.any(depth), e2 = g2.any(depth);
            if (r.coin() && xg::dumpable(*e1))
                e2 = vsexp::parse(vsexp::dump(*e1));
            return {e1, e2};
        }
        case 10: {
            B a = g.expr(1, true), b = g.expr(1, true), c = g.expr(1, true);
            return {expand(mul(a, add(b, c))), expand(add(mul(a, b), mul(a, c)))};
        }
        case 11: {
            switch (r.below(6)) {
                case 0: {
                    long k = (long)r.range(-50, 50);
                    return {Rational::from_two_ints(2 * k, 2), integer(k)};
                }
                case 1: {
                    RCP<const Number> q = g.rat(r.coin());
                    return {Complex::from_two_nums(*q, *zero), q};
                }
                case 2: {
                    integer_class v = g.big_int();
                    std::ostringstream ss;
                    ss << v;
                    return {integer(v), integer(integer_class(ss.str().c_str()))};
                }
                case 3: {
                    integer_class n = g.big_int(), d = g.big_int(), k = g.big_int();
                    if (d == 0)
                        d = 3;
                    if (k == 0)
                        k = 5;
                    rational_class q1(n, d), q2(n * k, d * k);
                    canonicalize(q1);
                    canonicalize(q2);
                    return {Rational::from_mpq(q1), Rational::from_mpq(q2)};
                }
                case 4: {
                    RCP<const Number> a = g.number(false, true), b = g.number(false, true);
                    return {a->add(*b), b->add(*a)};
                }
                default: {
                    RCP<const Number> a = g.number(false, true), b = g.number(false, true);
                    return {a->mul(*b), b->mul(*a)};
                }
            }
        }
        case 12: {
            B e = g.expr(depth, true);
            RCP<const Symbol> x = g.sym(), t = symbol("fresh_q");
            map_basic_basic m1, m2;
            m1[x] = t;
            m2[t] = x;
            return {e, e->subs(m1)->subs(m2)};
        }
        case 13: {
            if (r.coin(1, 3)) {
                // a constant multivariate polynomial over two different variable sets
                integer_class c((long)r.range(1, 9));
                umap_uvec_mpz d1, d2;
                d1[{0}] = c;
                d2[{0}] = c;
                return {MIntPoly::from_dict({symbol("x")}, std::move(d1)), MIntPoly::from_dict({symbol("y")}, std::move(d2))};
            }
            Rng r1(seed * 17 + 3), r2(seed * 17 + 3);
            xg::Gen g1(r1, true, 0), g2(r2, true, 0);
            return {g1.exotic_raw(1), g2.exotic_raw(1)};
        }
        default: {
            // unrelated expressions from a narrow space (mostly unequal, sometimes equal by accident)
            xg::Gen gs(r, true, 100);
            return {gs.any(1), gs.any(1)};
        }
    }
}

static bool make_pair(int kind, uint64_t seed, std::pair<B, B> &out)
{
    try {
        out = make_pair_raw(kind, seed);
        return true;
    } catch (const std::exception &) {
        return false;
    }
}

// ---------------------------------------------------------------- run
static std::vector<B> operands(const std::string &rest)
{
    std::vector<B> v;
    for (auto &n : vsexp::parse_all(rest))
        v.push_back(vsexp::build(n));
    return v;
}

std::string hx_run(const std::string &line, std::string &oracle)
{
    if (line == "tcodes") {
        std::string o;
        for (int i = 0; i < (int)TypeID_Count; i++) {
            if (i)
                o += ",";
            o += type_code_name((TypeID)i) + "=" + std::to_string(i);
        }
        return o;
    }
    size_t sp = line.find(' ');
    if (sp == std::string::npos)
        return "bad-op";
    std::string op = line.substr(0, sp), rest = line.substr(sp + 1);
    if (op == "opair") {
        auto w = split(rest, ' ');
        if (w.size() != 2)
            return "bad-op";
        std::pair<B, B> p;
        if (!make_pair(std::stoi(w[0]), strtoull(w[1].c_str(), nullptr, 10), p))
            return "no-pair";
        check_pair(*p.first, *p.second, oracle);
        bool e = eq(*p.first, *p.second);
        stat(std::string("opair_") + kind_name(std::stoi(w[0])) + (e ? "_eq" : "_ne"));
        return std::string("eq=") + (e ? "1" : "0") + " samehash=" + (p.first->hash() == p.second->hash() ? "1" : "0");
    }
    if (op == "ouniv") {
        // all pairs of a universe built through the API: eq => equal hash
        auto w = split(rest, ' ');
        if (w.size() != 3)
            return "bad-op";
        std::vector<B> u = xg::make_universe(strtoull(w[0].c_str(), nullptr, 10), (unsigned)std::stoul(w[1]), std::stoi(w[2]));
        unsigned long eqs = 0;
        std::string plain = "ok", known = "ok";
        for (size_t i = 0; i < u.size(); i++)
            for (size_t j = i + 1; j < u.size(); j++) {
                std::string o = "ok";
                check_pair(*u[i], *u[j], o);
                if (eq(*u[i], *u[j]))
                    eqs++;
                if (o != "ok") {
                    // a failure that is not one of the known defects is reported first
                    if (o.compare(0, 10, "FAIL:hash:") == 0 || o.compare(0, 12, "FAIL:eq-asym") == 0) {
                        if (plain == "ok")
                            plain = o;
                    } else if (known == "ok")
                        known = o;
                }
            }
        if (oracle == "ok")
            oracle = plain != "ok" ? plain : known;
        return "n=" + std::to_string(u.size()) + " eqpairs=" + std::to_string(eqs);
    }
    std::vector<B> v = operands(rest);
    if (op == "hash") {
        if (v.size() != 1)
            return "bad-op";
        // a second, independently rebuilt object must agree
        B again = vsexp::parse(vsexp::dump(*v[0]));
        check_pair(*v[0], *again, oracle);
        return vsexp::hex64(v[0]->hash());
    }
    if (op == "eq" || op == "pair") {
        if (v.size() != 2)
            return "bad-op";
        check_pair(*v[0], *v[1], oracle);
        bool e = eq(*v[0], *v[1]);
        if (op == "eq")
            return e ? "1" : "0";
        return std::string(e ? "1" : "0") + " " + vsexp::hex64(v[0]->hash()) + " " + vsexp::hex64(v[1]->hash());
    }
    return "bad-op";
}

// ---------------------------------------------------------------- gen
// correspondence ops need operands inside the modelled fragment that the wire format rebuilds faithfully
// (a few library results, e.g. a Union that still contains EmptySet, are re-simplified by the constructors
// vsexp::parse has to use; those stay oracle-only)
static bool corr_ok(const Basic &b)
{
    try {
        if (!(xg::modelled(b) && xg::dumpable(b) && xg::nan_only_top(b)))
            return false;
        std::string d = vsexp::dump(b);
        B again = vsexp::parse(d);
        return vsexp::dump(*again) == d && again->hash() == b.hash();
    } catch (const std::exception &) {
        return false;
    }
}

static std::string class_tag(const Basic &b)
{
    if (is_a_Number(b))
        return "num-" + type_code_name(b.get_type_code());
    if (is_a_Boolean(b))
        return "bool";
    if (is_a_Set(b))
        return "set";
    switch (b.get_type_code()) {
        case SYMENGINE_ADD:
        case SYMENGINE_MUL:
        case SYMENGINE_POW:
        case SYMENGINE_SYMBOL:
        case SYMENGINE_CONSTANT:
        case SYMENGINE_FUNCTIONSYMBOL:
            return type_code_name(b.get_type_code());
        default:
            return "function";
    }
}

void hx_gen(Rng &r0, const std::string &tier)
{
    // common.h seeds SplitMix64 with seed*gamma, so consecutive seeds are the same stream shifted by one
    // step; re-seed from the first output to decorrelate the runs
    Rng r(r0.next() ^ 0x5bd1e995u);
    bool th = tier == "thorough";
    emit("tcodes", "typecodes");
    // fixed witnesses (D1) and boundary integers
    emit("pair (D 0000000000000000) (D 8000000000000000)", "pair-signed-zero");
    emit("pair (CD 8000000000000000 3ff0000000000000) (CD 0000000000000000 3ff0000000000000)", "pair-signed-zero");
    emit("pair (F f (D 0000000000000000)) (F f (D 8000000000000000))", "pair-signed-zero");
    for (const char *s : {"0", "-1", "9223372036854775807", "9223372036854775808", "-9223372036854775808",
                          "-9223372036854775809", "18446744073709551615", "18446744073709551616",
                          "-18446744073709551616", "36893488147419103232", "-36893488147419103231",
                          "1/9223372036854775808", "-18446744073709551617/18446744073709551616",
                          "(C 1/2 -9223372036854775809/5)", "(D 7ff8000000000000)", "(D 7ff0000000000000)", "(oo 1)",
                          "(oo -1)", "(oo 0)", "nan", "true", "false", "(EmptySet)", "(Reals)",
                          "(Interval 0 1 true false)", "(k pi)", "(s x)"})
        emit(std::string("hash ") + s, "hash-boundary");

    int npairs = th ? 6000 : 700;
    for (int i = 0; i < npairs; i++) {
        int kind = (int)r.below(N_KINDS);
        uint64_t seed = r.next() % 1000000007ULL;
        std::pair<B, B> p;
        if (!make_pair(kind, seed, p))
            continue;
        emit("opair " + std::to_string(kind) + " " + std::to_string(seed), std::string("opair-") + kind_name(kind));
        try {
            if (corr_ok(*p.first) && corr_ok(*p.second)) {
                std::string da = vsexp::dump(*p.first), db = vsexp::dump(*p.second);
                if (da.size() + db.size() < 6000)
                    emit("pair " + da + " " + db, std::string("pair-") + kind_name(kind));
            }
        } catch (const std::exception &) {
        }
    }
    for (int i = 0; i < (th ? 10 : 5); i++) {
        static const char *mn[] = {"clean", "nan", "signed-zero", "matexpr", "mpoly"};
        emit("ouniv " + std::to_string(r.next() % 1000000007ULL) + " " + std::to_string(th ? 1200 : 300) + " "
                 + std::to_string(i % 5),
             std::string("ouniv-") + mn[i % 5]);
    }
    // single hashes over every class, and eq over a small universe
    xg::Gen g(r, false, 30);
    int nh = th ? 5000 : 600;
    std::vector<B> univ;
    for (int i = 0; i < nh; i++) {
        B e = g.any(1 + (int)r.below(3));
        if (!corr_ok(*e))
            continue;
        std::string d = vsexp::dump(*e);
        if (d.size() > 4000)
            continue;
        emit("hash " + d, "hash-" + class_tag(*e));
        if (univ.size() < (th ? 400u : 120u) && d.size() < 400)
            univ.push_back(e);
    }
    int ne = th ? 4000 : 500;
    for (int i = 0; i < ne && univ.size() > 1; i++) {
        const B &a = r.pick(univ), &b = r.pick(univ);
        emit("eq " + vsexp::dump(*a) + " " + vsexp::dump(*b), "eq-universe");
    }
}
