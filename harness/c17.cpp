// C17: the parser implements conventional mathematical syntax.
//
// Op line:  parse <cx> <hex> <ast|->
//   cx   convert_xor argument of SymEngine::parse (1 = '^' is the power operator)
//   hex  the bytes of the string
//   ast  the syntax tree the string was printed from (S-expression) or '-' for strings without a tree
//        (i N) integer literal value | (fl TEXT) float literal | (s NAME) identifier | (n E) -E | (p E) +E |
//        (not E) ~E | (OP A B) with OP in + - * / ^ < > != <= >= == | & xor | (c NAME ARGS..) call |
//        (pw (E C)..) Piecewise
// Output: vsexp::dump(parse(string)) or the error token.
//
// Oracle (independent of the Lean model and of the library's own constructors wherever possible): the generator
// builds the *tree first*, prints it with minimal parentheses w.r.t. the conventional precedence table written down
// in this file (plus random redundant parentheses / whitespace / leading zeros / implicit multiplication), and
// hx_run re-reads the tree from the op line and
//   * evaluates it with plain GMP rationals at random rational values of the symbols and compares with the parsed
//     expression substituted at the same point (exact);
//   * trees with floats / functions / named constants: the same in double arithmetic with libm (tolerance);
//   * integer literals: the decimal value of the digit string (mpz_set_str base 10), leading zeros included;
//   * float literals: the bit pattern of glibc's correctly rounded strtod;
//   * calls name(x[,y..]) on symbols: structural equality with the conventional library function built through
//     the public API (table `conv_funcs` below, written from the SymPy names, not read from parser.cpp);
//   * relational / logical trees: truth value at the rational point.
#include "common.h"
#include "sexp.h"
#include <symengine/parser.h>
#include <symengine/eval_double.h>
#include <symengine/functions.h>
#include <symengine/logic.h>
#include <symengine/ntheory_funcs.h>
#include <cmath>
#include <functional>
#include <memory>

using namespace SymEngine;

// ------------------------------------------------------------------ syntax trees
struct Node;
typedef std::shared_ptr<Node> NP;
struct Node {
    // kinds: i fl s n p not bin c pw
    std::string kind;
    std::string text;    // i: digit string as printed (may have leading zeros); fl: literal; s: name; bin: op; c: fname
    std::vector<NP> kids; // pw: v0 c0 v1 c1 ...
    int form = 0; // bin '*': 1 = printed as implicit multiplication <number><identifier>;
                  //          2 = kids are [number, (^ identifier e)], printed <number><identifier> POW e
                  //              (the grammar's special rule  IMPLICIT_MUL POW expr)
};
static NP mk(const std::string &kind, const std::string &text = "", std::vector<NP> kids = {})
{
    NP n = std::make_shared<Node>();
    n->kind = kind;
    n->text = text;
    n->kids = std::move(kids);
    return n;
}

static std::string strip_zeros(const std::string &d)
{
    size_t i = d.find_first_not_of('0');
    return i == std::string::npos ? "0" : d.substr(i);
}

static std::string ast_sexp(const NP &n)
{
    if (n->kind == "i")
        return "(i " + strip_zeros(n->text) + ")";
    if (n->kind == "fl")
        return "(fl " + n->text + ")";
    if (n->kind == "s")
        return "(s " + n->text + ")";
    if (n->kind == "n" || n->kind == "p" || n->kind == "not")
        return "(" + n->kind + " " + ast_sexp(n->kids[0]) + ")";
    if (n->kind == "bin")
        return "(" + n->text + " " + ast_sexp(n->kids[0]) + " " + ast_sexp(n->kids[1]) + ")";
    if (n->kind == "c") {
        std::string o = "(c " + n->text;
        for (auto &k : n->kids)
            o += " " + ast_sexp(k);
        return o + ")";
    }
    std::string o = "(pw";
    for (size_t i = 0; i + 1 < n->kids.size(); i += 2)
        o += " (" + ast_sexp(n->kids[i]) + " " + ast_sexp(n->kids[i + 1]) + ")";
    return o + ")";
}

// minimal S-expression reader for the tree on the op line
struct SX {
    bool atom;
    std::string a;
    std::vector<SX> l;
};
static bool sx_parse(const std::string &s, size_t &i, SX &out)
{
    while (i < s.size() && s[i] == ' ')
        i++;
    if (i >= s.size())
        return false;
    if (s[i] == '(') {
        i++;
        out.atom = false;
        for (;;) {
            while (i < s.size() && s[i] == ' ')
                i++;
            if (i >= s.size())
                return false;
            if (s[i] == ')') {
                i++;
                return true;
            }
            SX k;
            if (!sx_parse(s, i, k))
                return false;
            out.l.push_back(k);
        }
    }
    out.atom = true;
    size_t j = i;
    while (j < s.size() && s[j] != ' ' && s[j] != '(' && s[j] != ')')
        j++;
    out.a = s.substr(i, j - i);
    i = j;
    return true;
}
static NP ast_of(const SX &x)
{
    if (x.atom || x.l.empty() || !x.l[0].atom)
        return nullptr;
    const std::string &h = x.l[0].a;
    if ((h == "i" || h == "fl" || h == "s") && x.l.size() == 2 && x.l[1].atom)
        return mk(h, x.l[1].a);
    if ((h == "n" || h == "p" || h == "not") && x.l.size() == 2) {
        NP k = ast_of(x.l[1]);
        return k ? mk(h, "", {k}) : nullptr;
    }
    if (h == "c" && x.l.size() >= 2 && x.l[1].atom) {
        std::vector<NP> ks;
        for (size_t i = 2; i < x.l.size(); i++) {
            NP k = ast_of(x.l[i]);
            if (!k)
                return nullptr;
            ks.push_back(k);
        }
        return mk("c", x.l[1].a, ks);
    }
    if (h == "pw") {
        std::vector<NP> ks;
        for (size_t i = 1; i < x.l.size(); i++) {
            if (x.l[i].atom || x.l[i].l.size() != 2)
                return nullptr;
            NP a = ast_of(x.l[i].l[0]), b = ast_of(x.l[i].l[1]);
            if (!a || !b)
                return nullptr;
            ks.push_back(a);
            ks.push_back(b);
        }
        return mk("pw", "", ks);
    }
    if (x.l.size() == 3) {
        NP a = ast_of(x.l[1]), b = ast_of(x.l[2]);
        return (a && b) ? mk("bin", h, {a, b}) : nullptr;
    }
    return nullptr;
}

// ------------------------------------------------------------------ the conventional precedence table (printer)
// or < xor < and < == < > < < < != < <= < >= < + - < * / < unary minus < unary plus < ** < ~
// (the relative order of the six relational operators is symengine's own choice; everything the property text
// names - + - * / ** ^ and the unary signs - is the usual one).  lbp/rbp as in precedence climbing.
static int level_of(const std::string &op)
{
    static const std::map<std::string, int> L = {{"|", 1}, {"xor", 2}, {"&", 3}, {"==", 4}, {">", 5}, {"<", 6},
                                                 {"!=", 7}, {"<=", 8}, {">=", 9}, {"+", 10}, {"-", 10}, {"*", 11},
                                                 {"/", 11}, {"n", 12}, {"p", 13}, {"^", 14}, {"not", 15}};
    return L.at(op);
}
static bool right_assoc(const std::string &op)
{
    return op == "^" || op == "n" || op == "p" || op == "not";
}
static int lbp(const std::string &op)
{
    return 2 * level_of(op);
}
static int rbp(const std::string &op)
{
    return right_assoc(op) ? 2 * level_of(op) - 1 : 2 * level_of(op);
}
static const int INF_BP = 1000;

struct Printer {
    Rng &r;
    int ws_pct, paren_pct; // percent chances of random whitespace / redundant parentheses
    bool cx;               // convert_xor: '^' may be used for power
    explicit Printer(Rng &rr, int ws, int par, bool cx_) : r(rr), ws_pct(ws), paren_pct(par), cx(cx_) {}
    std::string ws()
    {
        if ((int)r.below(100) >= ws_pct)
            return "";
        static const char *W[] = {" ", " ", " ", "  ", "\t", "\n", " \r", "\v"};
        return W[r.below(8)];
    }
    // binding powers of the *printed* form (no outer parentheses)
    int left_bp(const NP &n)
    {
        if (n->kind != "bin" || n->form != 0)
            return INF_BP; // atoms, prefix operators, calls, and the two implicit forms start with a leaf token
        int l = lbp(n->text);
        int ll = wrapL(n->text, n->kids[0]) ? INF_BP : left_bp(n->kids[0]);
        return std::min(l, ll);
    }
    int right_bp(const NP &n)
    {
        if (n->kind == "bin" && n->form == 1)
            return INF_BP;
        if (n->kind == "bin" && n->form == 2) {
            const NP &e = n->kids[1]->kids[1];
            return std::min(rbp("^"), wrapR("^", e) ? INF_BP : right_bp(e));
        }
        if (n->kind == "bin") {
            int rr = wrapR(n->text, n->kids[1]) ? INF_BP : right_bp(n->kids[1]);
            return std::min(rbp(n->text), rr);
        }
        if (n->kind == "n" || n->kind == "p" || n->kind == "not") {
            int rr = wrapU(n->kind, n->kids[0]) ? INF_BP : right_bp(n->kids[0]);
            return std::min(rbp(n->kind), rr);
        }
        return INF_BP;
    }
    bool wrapL(const std::string &op, const NP &l)
    {
        if (l->kind == "bin" && l->form == 1)
            return op == "^"; // "2x" directly followed by POW would be the special rule: (2x)**3
        return lbp(op) > right_bp(l);
    }
    bool wrapR(const std::string &op, const NP &rr)
    {
        return left_bp(rr) <= rbp(op);
    }
    bool wrapU(const std::string &u, const NP &x)
    {
        return left_bp(x) <= rbp(u);
    }
    std::string paren(const std::string &s)
    {
        return "(" + ws() + s + ws() + ")";
    }
    std::string maybe(const std::string &s, bool need)
    {
        std::string o = need ? paren(s) : s;
        while ((int)r.below(100) < paren_pct)
            o = paren(o);
        return o;
    }
    std::string opstr(const std::string &op)
    {
        if (op == "^") {
            unsigned k = r.below(cx ? 3 : 2);
            return k == 0 ? "**" : (k == 1 ? "@" : "^");
        }
        if (op == "xor")
            return "^"; // only generated with cx == false
        return op;
    }
    std::string print(const NP &n)
    {
        if (n->kind == "i" || n->kind == "fl" || n->kind == "s")
            return n->text;
        if (n->kind == "n" || n->kind == "p" || n->kind == "not") {
            std::string o = n->kind == "n" ? "-" : (n->kind == "p" ? "+" : "~");
            return o + ws() + maybe(print(n->kids[0]), wrapU(n->kind, n->kids[0]));
        }
        if (n->kind == "bin") {
            if (n->form == 1)
                return n->kids[0]->text + n->kids[1]->text;
            if (n->form == 2) {
                const NP &pw = n->kids[1];
                return n->kids[0]->text + pw->kids[0]->text + ws() + opstr("^") + ws()
                       + maybe(print(pw->kids[1]), wrapR("^", pw->kids[1]));
            }
            std::string a = maybe(print(n->kids[0]), wrapL(n->text, n->kids[0]));
            std::string b = maybe(print(n->kids[1]), wrapR(n->text, n->kids[1]));
            return a + ws() + opstr(n->text) + ws() + b;
        }
        if (n->kind == "c") {
            std::string o = n->text + ws() + "(" + ws();
            for (size_t i = 0; i < n->kids.size(); i++) {
                if (i)
                    o += ws() + "," + ws();
                o += maybe(print(n->kids[i]), false);
            }
            return o + ws() + ")";
        }
        std::string o = "Piecewise" + ws() + "(" + ws();
        for (size_t i = 0; i + 1 < n->kids.size(); i += 2) {
            if (i)
                o += ws() + "," + ws();
            o += "(" + ws() + maybe(print(n->kids[i]), false) + ws() + "," + ws() + maybe(print(n->kids[i + 1]), false)
                 + ws() + ")";
        }
        return o + ws() + ")";
    }
    std::string top(const NP &n)
    {
        return ws() + maybe(print(n), false) + ws();
    }
};

// ------------------------------------------------------------------ independent evaluation of a tree
static const char *SYMS[] = {"x", "y", "z", "t", "a1", "b_2", "Zq", "_u"};
static const int NSYMS = 8;

struct Point {
    std::map<std::string, rational_class> q;
};
static Point point_for(uint64_t seed)
{
    Rng r(seed);
    Point p;
    for (int i = 0; i < NSYMS; i++) {
        long n = r.range(1, 40), d = r.range(1, 9);
        if (r.coin(1, 3))
            n = -n;
        rational_class v(n, d);
        canonicalize(v);
        p.q[SYMS[i]] = v;
    }
    return p;
}

struct XVal { // exact
    int st;   // 0 ok, 1 undefined (division by zero / too large), 2 not in the exact fragment
    rational_class v;
    bool isbool = false, b = false;
};
static bool int_value(const NP &n, long &out)
{ // small integer constants for exponents
    XVal dummy;
    if (n->kind == "i") {
        if (n->text.size() > 4)
            return false;
        out = std::stol(n->text);
        return true;
    }
    if (n->kind == "n" || n->kind == "p") {
        long v;
        if (!int_value(n->kids[0], v))
            return false;
        out = n->kind == "n" ? -v : v;
        return true;
    }
    if (n->kind == "bin") {
        long a, b;
        if (!int_value(n->kids[0], a) || !int_value(n->kids[1], b))
            return false;
        if (n->text == "+")
            out = a + b;
        else if (n->text == "-")
            out = a - b;
        else if (n->text == "*")
            out = a * b;
        else if (n->text == "^") {
            if (b < 0 || b > 8 || std::labs(a) > 16)
                return false;
            out = 1;
            for (long i = 0; i < b; i++)
                out *= a;
        } else
            return false;
        return std::labs(out) < 100000;
    }
    return false;
}
static XVal xeval(const NP &n, const Point &p)
{
    XVal r;
    r.st = 0;
    if (n->kind == "i") {
        integer_class z;
        mpz_set_str(get_mpz_t(z), n->text.c_str(), 10);
        r.v = rational_class(z);
        return r;
    }
    if (n->kind == "s") {
        if (n->text == "True" || n->text == "False") {
            r.isbool = true;
            r.b = n->text == "True";
            return r;
        }
        auto it = p.q.find(n->text);
        if (it == p.q.end()) {
            r.st = 2;
            return r;
        }
        r.v = it->second;
        return r;
    }
    if (n->kind == "n" || n->kind == "p") {
        r = xeval(n->kids[0], p);
        if (r.st || r.isbool) {
            if (!r.st)
                r.st = 2;
            return r;
        }
        if (n->kind == "n")
            r.v = -r.v;
        return r;
    }
    if (n->kind == "not") {
        r = xeval(n->kids[0], p);
        if (r.st)
            return r;
        if (!r.isbool) {
            r.st = 2;
            return r;
        }
        r.b = !r.b;
        return r;
    }
    if (n->kind == "bin") {
        const std::string &op = n->text;
        XVal a = xeval(n->kids[0], p);
        if (a.st)
            return a;
        if (op == "^") {
            long e;
            if (a.isbool || !int_value(n->kids[1], e)) {
                r.st = 2;
                return r;
            }
            if (std::labs(e) > 64) {
                r.st = 1;
                return r;
            }
            if (e < 0 && a.v == 0) {
                r.st = 1;
                return r;
            }
            rational_class base = e < 0 ? rational_class(1) / a.v : a.v;
            rational_class acc(1);
            for (long i = 0; i < std::labs(e); i++)
                acc *= base;
            r.v = acc;
            return r;
        }
        XVal b = xeval(n->kids[1], p);
        if (b.st)
            return b;
        if (op == "|" || op == "&" || op == "xor") {
            if (!a.isbool || !b.isbool) {
                r.st = 2;
                return r;
            }
            r.isbool = true;
            r.b = op == "|" ? (a.b || b.b) : (op == "&" ? (a.b && b.b) : (a.b != b.b));
            return r;
        }
        if (a.isbool || b.isbool) {
            r.st = 2;
            return r;
        }
        if (op == "+")
            r.v = a.v + b.v;
        else if (op == "-")
            r.v = a.v - b.v;
        else if (op == "*")
            r.v = a.v * b.v;
        else if (op == "/") {
            if (b.v == 0) {
                r.st = 1;
                return r;
            }
            r.v = a.v / b.v;
        } else {
            r.isbool = true;
            int c = a.v < b.v ? -1 : (a.v == b.v ? 0 : 1);
            r.b = op == "<" ? c < 0
                            : op == ">" ? c > 0 : op == "<=" ? c <= 0 : op == ">=" ? c >= 0 : op == "==" ? c == 0 : c != 0;
        }
        return r;
    }
    r.st = 2; // floats, calls, Piecewise
    return r;
}

// double evaluation (floats, total elementary functions, pi / E)
struct DVal {
    int st; // 0 ok, 1 undefined, 2 unsupported
    double v, mag;
};
static const std::map<std::string, std::function<double(double)>> &dfuncs()
{
    static const std::map<std::string, std::function<double(double)>> F = {
        {"sin", [](double x) { return std::sin(x); }},       {"cos", [](double x) { return std::cos(x); }},
        {"exp", [](double x) { return std::exp(x); }},       {"tanh", [](double x) { return std::tanh(x); }},
        {"sinh", [](double x) { return std::sinh(x); }},     {"cosh", [](double x) { return std::cosh(x); }},
        {"atan", [](double x) { return std::atan(x); }},     {"arctan", [](double x) { return std::atan(x); }},
        {"asinh", [](double x) { return std::asinh(x); }},   {"arcsinh", [](double x) { return std::asinh(x); }},
        {"abs", [](double x) { return std::fabs(x); }},      {"erf", [](double x) { return std::erf(x); }},
        {"erfc", [](double x) { return std::erfc(x); }},     {"floor", [](double x) { return std::floor(x); }},
        {"ceiling", [](double x) { return std::ceil(x); }},
    };
    return F;
}
static DVal deval(const NP &n, const Point &p)
{
    DVal r{0, 0.0, 0.0};
    auto fin = [&](double v, double mag) {
        r.v = v;
        r.mag = std::max(mag, std::fabs(v));
        if (!std::isfinite(v) || r.mag > 1e60)
            r.st = 1;
        return r;
    };
    if (n->kind == "i" || n->kind == "fl")
        return fin(std::strtod(n->text.c_str(), nullptr), 0);
    if (n->kind == "s") {
        if (n->text == "pi")
            return fin(M_PI, 0);
        if (n->text == "E" || n->text == "e")
            return fin(M_E, 0);
        auto it = p.q.find(n->text);
        if (it == p.q.end()) {
            r.st = 2;
            return r;
        }
        return fin(mp_get_d(it->second), 0);
    }
    if (n->kind == "n" || n->kind == "p") {
        DVal a = deval(n->kids[0], p);
        if (a.st)
            return a;
        return fin(n->kind == "n" ? -a.v : a.v, a.mag);
    }
    if (n->kind == "bin") {
        const std::string &op = n->text;
        DVal a = deval(n->kids[0], p);
        if (a.st)
            return a;
        DVal b = deval(n->kids[1], p);
        if (b.st)
            return b;
        double m = std::max(a.mag, b.mag);
        if (op == "+")
            return fin(a.v + b.v, m);
        if (op == "-")
            return fin(a.v - b.v, m);
        if (op == "*")
            return fin(a.v * b.v, m);
        if (op == "/") {
            if (std::fabs(b.v) < 1e-6) {
                r.st = 1;
                return r;
            }
            return fin(a.v / b.v, m);
        }
        if (op == "^") {
            long e;
            if (int_value(n->kids[1], e)) {
                if (e < 0 && std::fabs(a.v) < 1e-6) {
                    r.st = 1;
                    return r;
                }
                return fin(std::pow(a.v, (double)e), m);
            }
            if (a.v <= 1e-3) { // principal branch needed: not judged
                r.st = 1;
                return r;
            }
            return fin(std::pow(a.v, b.v), m);
        }
        r.st = 2;
        return r;
    }
    if (n->kind == "c" && n->kids.size() == 1) {
        auto it = dfuncs().find(n->text);
        if (it == dfuncs().end()) {
            r.st = 2;
            return r;
        }
        DVal a = deval(n->kids[0], p);
        if (a.st)
            return a;
        if ((n->text == "floor" || n->text == "ceiling") && std::fabs(a.v - std::round(a.v)) < 1e-6) {
            r.st = 1; // rounding of the argument may flip the result
            return r;
        }
        if (std::fabs(a.v) > 300) {
            r.st = 1;
            return r;
        }
        return fin(it->second(a.v), a.mag);
    }
    r.st = 2;
    return r;
}

// ------------------------------------------------------------------ conventional function names
typedef RCP<const Basic> B;
typedef RCP<const Basic> (*f1)(const RCP<const Basic> &);
typedef RCP<const Basic> (*f2)(const RCP<const Basic> &, const RCP<const Basic> &);
typedef std::function<B(const B &)> F1;
typedef std::function<B(const B &, const B &)> F2;
static const std::map<std::string, F1> &conv1()
{
    static std::map<std::string, F1> F;
    if (F.empty()) {
#define C1(name, fn) F[name] = F1((f1)SymEngine::fn)
        C1("sin", sin); C1("cos", cos); C1("tan", tan); C1("cot", cot); C1("csc", csc); C1("sec", sec);
        C1("asin", asin); C1("arcsin", asin); C1("acos", acos); C1("arccos", acos); C1("atan", atan);
        C1("arctan", atan); C1("asec", asec); C1("arcsec", asec); C1("acsc", acsc); C1("arccsc", acsc);
        C1("acot", acot); C1("arccot", acot);
        C1("sinh", sinh); C1("cosh", cosh); C1("tanh", tanh); C1("coth", coth); C1("sech", sech); C1("csch", csch);
        C1("asinh", asinh); C1("arcsinh", asinh); C1("acosh", acosh); C1("arccosh", acosh); C1("atanh", atanh);
        C1("arctanh", atanh); C1("asech", asech); C1("arcsech", asech); C1("acoth", acoth); C1("arccoth", acoth);
        C1("acsch", acsch); C1("arccsch", acsch);
        C1("gamma", gamma); C1("sqrt", sqrt); C1("abs", abs); C1("sign", sign); C1("exp", exp); C1("erf", erf);
        C1("erfc", erfc); C1("loggamma", loggamma); C1("lambertw", lambertw); C1("dirichlet_eta", dirichlet_eta);
        C1("floor", floor); C1("ceiling", ceiling); C1("ln", log); C1("log", log); C1("zeta", zeta);
        C1("primepi", primepi); C1("primorial", primorial);
#undef C1
        F["Eq"] = [](const B &a) { return B(Eq(a)); };
        F["Equality"] = [](const B &a) { return B(Eq(a)); };
    }
    return F;
}
static const std::map<std::string, F2> &conv2()
{
    static std::map<std::string, F2> F;
    if (F.empty()) {
#define C2(name, fn) F[name] = F2((f2)SymEngine::fn)
        C2("pow", pow); C2("beta", beta); C2("log", log); C2("zeta", zeta); C2("lowergamma", lowergamma);
        C2("uppergamma", uppergamma); C2("polygamma", polygamma); C2("kronecker_delta", kronecker_delta);
        C2("atan2", atan2);
#undef C2
        F["Eq"] = F["Equality"] = [](const B &a, const B &b) { return B(Eq(a, b)); };
        F["Ne"] = F["Unequality"] = [](const B &a, const B &b) { return B(Ne(a, b)); };
        F["Ge"] = F["GreaterThan"] = [](const B &a, const B &b) { return B(Ge(a, b)); };
        F["Gt"] = F["StrictGreaterThan"] = [](const B &a, const B &b) { return B(Gt(a, b)); };
        F["Le"] = F["LessThan"] = [](const B &a, const B &b) { return B(Le(a, b)); };
        F["Lt"] = F["StrictLessThan"] = [](const B &a, const B &b) { return B(Lt(a, b)); };
        F["max"] = [](const B &a, const B &b) { return max({a, b}); };
        F["min"] = [](const B &a, const B &b) { return min({a, b}); };
    }
    return F;
}
static const std::map<std::string, B> &conv_consts()
{
    static const std::map<std::string, B> C = {{"e", E}, {"E", E}, {"EulerGamma", EulerGamma}, {"Catalan", Catalan},
                                               {"GoldenRatio", GoldenRatio}, {"pi", pi}, {"I", I}, {"oo", Inf},
                                               {"inf", Inf}, {"zoo", ComplexInf}, {"nan", Nan}, {"True", boolTrue},
                                               {"False", boolFalse}};
    return C;
}

static bool plain_symbol_args(const NP &n)
{
    for (auto &k : n->kids)
        if (k->kind != "s" || conv_consts().count(k->text))
            return false;
    return true;
}
static bool has_kind(const NP &n, const std::string &kind)
{
    if (n->kind == kind)
        return true;
    for (auto &k : n->kids)
        if (has_kind(k, kind))
            return true;
    return false;
}
static bool has_ident(const NP &n, const std::string &name)
{
    if (n->kind == "s" && n->text == name)
        return true;
    for (auto &k : n->kids)
        if (has_ident(k, name))
            return true;
    return false;
}

// ------------------------------------------------------------------ run
static std::string unhex(const std::string &h)
{
    std::string o;
    for (size_t i = 0; i + 1 < h.size(); i += 2)
        o.push_back((char)std::stoi(h.substr(i, 2), nullptr, 16));
    return o;
}
static std::string hex(const std::string &s)
{
    static const char *D = "0123456789abcdef";
    std::string o;
    for (unsigned char c : s) {
        o.push_back(D[c >> 4]);
        o.push_back(D[c & 15]);
    }
    return o;
}

static void fail(std::string &oracle, const std::string &key, const std::string &detail)
{
    if (oracle == "ok")
        oracle = "FAIL:" + key + ":" + detail;
}

std::string hx_run(const std::string &line, std::string &oracle)
{
    // parse <cx> <hex> <ast...>
    auto w = split(line, ' ');
    if (w.size() < 4 || w[0] != "parse")
        return "bad-op";
    bool cx = w[1] == "1";
    std::string src = unhex(w[2]);
    std::string asttxt = line.substr(w[0].size() + w[1].size() + w[2].size() + 3);
    NP ast;
    if (asttxt != "-") {
        SX sx;
        size_t i = 0;
        if (!sx_parse(asttxt, i, sx))
            return "bad-ast";
        ast = ast_of(sx);
        if (!ast)
            return "bad-ast";
    }
    RCP<const Basic> res;
    try {
        res = SymEngine::parse(src, cx);
    } catch (const VerifAssertError &) {
        // a canonical-form assertion inside the smart constructors (e.g. 121*0**a1): property C03, not syntax
        stat("constructor_assertions_left_to_C03");
        return "E:Assert";
    } catch (const std::exception &e) {
        std::string en = exc_name(e);
        stat("exceptions_" + en);
        if (ast && en == "E:Parse" && !has_kind(ast, "not") && !has_kind(ast, "pw")) {
            bool logic = false;
            std::function<void(const NP &)> walk = [&](const NP &n) {
                if (n->kind == "bin" && (n->text == "|" || n->text == "&" || n->text == "xor"))
                    logic = true;
                if (n->kind == "c")
                    logic = true; // Boolean functions on non-Boolean arguments legitimately throw ParseError
                for (auto &k : n->kids)
                    walk(k);
            };
            walk(ast);
            if (!logic)
                fail(oracle, "reject", "a string printed from an arithmetic tree was rejected: " + std::string(e.what()));
        }
        return en;
    }
    std::string out = vsexp::dump(*res);
    if (!ast)
        return out;
    // ---- literal oracles
    if (ast->kind == "i") {
        integer_class z;
        mpz_set_str(get_mpz_t(z), ast->text.c_str(), 10);
        stat("oracle_int_literals");
        if (!is_a<Integer>(*res) || down_cast<const Integer &>(*res).as_integer_class() != z)
            fail(oracle, "int-literal",
                 "\"" + ast->text + "\" parsed as " + res->__str__() + ", decimal value " + vsexp::int_str(z));
        return out;
    }
    if (ast->kind == "fl") {
        double d = std::strtod(ast->text.c_str(), nullptr);
        stat("oracle_float_literals");
        if (!is_a<RealDouble>(*res) || vsexp::dbl_hex(down_cast<const RealDouble &>(*res).i) != vsexp::dbl_hex(d))
            fail(oracle, "float-literal",
                 "\"" + ast->text + "\" parsed as " + out + ", strtod gives (D " + vsexp::dbl_hex(d) + ")");
        return out;
    }
    if (ast->kind == "s") {
        auto it = conv_consts().find(ast->text);
        B want = it == conv_consts().end() ? B(symbol(ast->text)) : it->second;
        stat("oracle_identifiers");
        if (!eq(*res, *want))
            fail(oracle, "identifier", ast->text + " parsed as " + res->__str__());
        return out;
    }
    if (ast->kind == "c" && plain_symbol_args(ast) && ast->kids.size() >= 1) {
        vec_basic args;
        for (auto &k : ast->kids)
            args.push_back(symbol(k->text));
        B want;
        if (args.size() == 1 && conv1().count(ast->text))
            want = conv1().at(ast->text)(args[0]);
        else if (args.size() == 2 && conv2().count(ast->text))
            want = conv2().at(ast->text)(args[0], args[1]);
        else if (ast->text == "max")
            want = max(args);
        else if (ast->text == "min")
            want = min(args);
        else if (ast->text == "levi_civita")
            want = levi_civita(args);
        else if (!conv1().count(ast->text) && !conv2().count(ast->text))
            want = function_symbol(ast->text, args);
        if (!want.is_null()) {
            stat("oracle_calls");
            if (!eq(*res, *want))
                fail(oracle, "function-name", ast->text + "/" + std::to_string(args.size()) + " parsed as "
                                                  + res->__str__() + ", conventional meaning " + want->__str__());
            return out;
        }
    }
    // ---- value oracles at three rational points
    uint64_t h = 1469598103934665603ULL;
    for (unsigned char c : w[2])
        h = (h ^ c) * 1099511628211ULL;
    bool judged = false;
    for (int k = 0; k < 3; k++) {
        Point p = point_for(h + k);
        map_basic_basic m;
        for (auto &kv : p.q)
            m[symbol(kv.first)] = Rational::from_mpq(kv.second);
        XVal xv = xeval(ast, p);
        if (xv.st == 1) {
            stat("oracle_points_undefined");
            continue;
        }
        if (xv.st == 0) {
            B got;
            try {
                got = res->subs(m);
            } catch (const std::exception &) {
                stat("oracle_points_subs_threw");
                continue;
            }
            judged = true;
            if (xv.isbool) {
                stat("oracle_points_bool");
                if (!is_a<BooleanAtom>(*got) || down_cast<const BooleanAtom &>(*got).get_val() != xv.b)
                    fail(oracle, "truth-value",
                         "tree is " + std::string(xv.b ? "true" : "false") + " at the test point, parsed expression gives "
                             + got->__str__());
            } else {
                stat("oracle_points_exact");
                B want = Rational::from_mpq(xv.v);
                if (!eq(*got, *want))
                    fail(oracle, "value", "tree evaluates to " + want->__str__() + " at the test point, parsed expression "
                                              + res->__str__() + " to " + got->__str__());
            }
            continue;
        }
        DVal dv = deval(ast, p);
        if (dv.st == 1) {
            stat("oracle_points_undefined");
            continue;
        }
        if (dv.st == 2)
            break;
        double got;
        try {
            got = eval_double(*res->subs(m));
        } catch (const std::exception &) {
            stat("oracle_points_eval_threw");
            continue;
        }
        judged = true;
        stat("oracle_points_double");
        double tol = 1e-9 * (1.0 + dv.mag);
        if (!(std::fabs(got - dv.v) <= tol))
            fail(oracle, "value-double", "tree evaluates to " + tostr(dv.v) + ", parsed expression " + res->__str__()
                                             + " to " + tostr(got));
    }
    stat(judged ? "ops_judged_by_value_oracle" : "ops_without_value_oracle");
    return out;
}

// ------------------------------------------------------------------ generation
struct Gen {
    Rng &r;
    bool leading_zeros = true;
    explicit Gen(Rng &rr) : r(rr) {}
    std::string digits(int maxlen)
    {
        int n = 1 + (int)r.below(maxlen);
        std::string d;
        for (int i = 0; i < n; i++)
            d.push_back('0' + (i == 0 && n > 1 ? 1 + r.below(9) : r.below(10)));
        return d;
    }
    NP int_lit(bool small = false)
    {
        std::string d = small ? std::to_string(r.below(10)) : digits(r.coin(1, 12) ? 30 : 3);
        if (leading_zeros && r.coin(1, 8))
            d = std::string(1 + r.below(3), '0') + d;
        return mk("i", d);
    }
    std::string float_text()
    {
        std::string ip = r.coin(1, 6) ? "" : digits(r.coin(1, 10) ? 20 : 3);
        if (leading_zeros && !ip.empty() && r.coin(1, 8))
            ip = "0" + ip;
        std::string fp = r.coin(1, 6) ? "" : digits(r.coin(1, 10) ? 20 : 4);
        std::string t;
        unsigned k = r.below(10);
        bool dot = true;
        if (ip.empty() && fp.empty())
            ip = "7";
        if (k < 2 && !ip.empty()) { // exponent only: 12e5
            t = ip;
            dot = false;
        } else if (fp.empty())
            t = ip + "."; // "5."  (no exponent allowed after this form)
        else
            t = ip + "." + fp;
        bool can_exp = !(dot && fp.empty());
        if (can_exp && (!dot || r.coin(1, 2))) {
            t += r.coin() ? "e" : "E";
            unsigned s = r.below(3);
            if (s == 1)
                t += "+";
            if (s == 2)
                t += "-";
            unsigned kind = r.below(20);
            if (kind == 0)
                t += std::to_string(290 + r.below(40)); // around the overflow / underflow thresholds
            else if (kind == 1)
                t += "0" + std::to_string(r.below(30));
            else
                t += std::to_string(r.below(25));
        }
        return t;
    }
    NP ident()
    {
        return mk("s", SYMS[r.below(NSYMS)]);
    }
    NP exponent(bool exact)
    {
        unsigned k = r.below(100);
        if (k < 55)
            return mk("i", std::to_string(r.below(5)));
        if (k < 75)
            return mk("n", "", {mk("i", std::to_string(1 + r.below(3)))});
        if (k < 85)
            return mk("bin", "^", {mk("i", std::to_string(2 + r.below(2))), mk("i", std::to_string(r.below(3)))});
        if (k < 92 || exact)
            return mk("bin", r.coin() ? "+" : "*", {mk("i", std::to_string(r.below(3))), mk("i", std::to_string(1 + r.below(2)))});
        return ident();
    }
    // arithmetic tree; exact = only ints, symbols, + - * / ** with constant integer exponents, unary signs
    NP arith(int depth, bool exact)
    {
        unsigned k = r.below(100);
        if (depth <= 0 || k < 18) {
            unsigned a = r.below(100);
            if (a < 45)
                return ident();
            if (a < 80 || exact)
                return int_lit();
            if (a < 92)
                return mk("fl", float_text());
            static const char *C[] = {"pi", "E", "e"};
            return mk("s", C[r.below(3)]);
        }
        if (k < 30)
            return mk("n", "", {arith(depth - 1, exact)});
        if (k < 34)
            return mk("p", "", {arith(depth - 1, exact)});
        if (k < 42) { // implicit multiplication  <number><identifier>
            NP num = (exact || r.coin(2, 3)) ? int_lit() : mk("fl", float_text());
            NP id = ident();
            if (r.coin(1, 3)) { // 2x**3  =  2*(x**3)
                NP m = mk("bin", "*", {num, mk("bin", "^", {id, exponent(exact)})});
                m->form = 2;
                return m;
            }
            NP n = mk("bin", "*", {num, id});
            n->form = 1;
            return n;
        }
        if (k < 54 && !exact) {
            static const char *F[] = {"sin", "cos", "exp", "tanh", "sinh", "cosh", "atan", "arctan", "asinh", "arcsinh",
                                      "abs", "erf", "erfc", "floor", "ceiling", "f", "g"};
            std::string f = F[r.below(17)];
            if (f == "f" || f == "g") {
                std::vector<NP> a;
                int na = 1 + (int)r.below(3);
                for (int i = 0; i < na; i++)
                    a.push_back(ident());
                return mk("c", f, a);
            }
            return mk("c", f, {arith(depth - 2, exact)});
        }
        if (k < 70) {
            NP b = arith(depth - 1, exact);
            return mk("bin", "^", {b, exponent(exact)});
        }
        static const char *O[] = {"+", "-", "*", "/"};
        std::string op = O[r.below(4)];
        return mk("bin", op, {arith(depth - 1, exact), arith(depth - 1, exact)});
    }
    NP rel(int depth)
    {
        static const char *O[] = {"<", ">", "<=", ">=", "==", "!="};
        return mk("bin", O[r.below(6)], {arith(depth, true), arith(depth, true)});
    }
    NP logic(int depth, bool cx)
    {
        unsigned k = r.below(100);
        if (depth <= 0 || k < 30)
            return r.coin(1, 8) ? mk("s", r.coin() ? "True" : "False") : rel(1);
        if (k < 45)
            return mk("not", "", {logic(depth - 1, cx)});
        static const char *O[] = {"|", "&", "xor"};
        std::string op = O[r.below(cx ? 2 : 3)];
        return mk("bin", op, {logic(depth - 1, cx), logic(depth - 1, cx)});
    }
};

static void emit_tree(Printer &pr, const NP &t, bool cx, const std::string &tag)
{
    emit(std::string("parse ") + (cx ? "1 " : "0 ") + hex(pr.top(t)) + " " + ast_sexp(t), tag);
}

void hx_gen(Rng &r, const std::string &tier)
{
    bool th = tier == "thorough";
    Gen g(r);
    // --- numeric literals
    {
        Printer pr(r, 0, 0, true);
        const char *fixed[] = {"0", "00", "7", "010", "08", "09", "0010", "0777", "00000000000000000000012",
                               "9223372036854775807", "9223372036854775808", "09223372036854775808",
                               "0777777777777777777777777", "123456789012345678901234567890"};
        for (auto f : fixed)
            emit_tree(pr, mk("i", f), true, "literal-int");
        const char *ff[] = {"0.5", ".5", "5.", "1e5", "1E5", "1e+5", "1e-5", "1.5e3", "00.5", "007.5", "0e0", "1e400",
                            "1e-400", "4.9e-324", "2.4703282292062327e-324", "2.4703282292062328e-324",
                            "1.7976931348623157e308", "1.7976931348623158e308", "1.7976931348623159e308",
                            "0.1", "0.30000000000000004", "9007199254740993.0", "9007199254740992.5",
                            "123456789012345678901234567890.5", "0.1234567890123456789", "08.0", "09e0",
                            "2.2250738585072011e-308", "2.2250738585072014e-308", "1e23", "8.5e-0"};
        for (auto f : ff)
            emit_tree(pr, mk("fl", f), true, "literal-float");
        // the tokenizer reads "1." + identifier "e5", parse_implicit_mul's fast_float reads 1.e5 = 100000.0 (times one)
        for (auto f : {"1.e5", "1.e5x", "1e", "2e", "1e+", "1_0", "0x10", "5.x", "1e5e", "2pi", "3I", "1.5e3x", "1E", "2E5x"})
            emit(std::string("parse 1 ") + hex(f) + " -", "literal-implicit-mul");
        int n = th ? 3000 : 250;
        for (int i = 0; i < n; i++) {
            emit_tree(pr, g.int_lit(), true, "literal-int");
            emit_tree(pr, mk("fl", g.float_text()), true, "literal-float");
        }
    }
    // --- identifiers and calls
    {
        Printer pr(r, 20, 5, true);
        for (auto &kv : conv_consts())
            emit_tree(pr, mk("s", kv.first), true, "identifier");
        for (int i = 0; i < NSYMS; i++)
            emit_tree(pr, mk("s", SYMS[i]), true, "identifier");
        for (auto &kv : conv1())
            emit_tree(pr, mk("c", kv.first, {mk("s", "x")}), true, "call-1");
        for (auto &kv : conv2()) {
            emit_tree(pr, mk("c", kv.first, {mk("s", "x"), mk("s", "y")}), true, "call-2");
            emit_tree(pr, mk("c", kv.first, {mk("s", "y"), mk("s", "x")}), true, "call-2");
        }
        for (auto f : {"max", "min", "levi_civita", "f", "sin", "Lt", "Eq"})
            emit_tree(pr, mk("c", f, {mk("s", "x"), mk("s", "y"), mk("s", "z")}), true, "call-3");
        for (auto f : {"And", "Or", "Not", "Xor", "Xnor", "Nand", "Nor"}) {
            emit_tree(pr, mk("c", f, {mk("s", "x")}), true, "call-boolean-on-symbol");
            emit_tree(pr, mk("c", f, {mk("bin", "<", {mk("s", "x"), mk("s", "y")})}), true, "call-boolean");
            emit_tree(pr, mk("c", f, {mk("bin", "<", {mk("s", "x"), mk("s", "y")}),
                                     mk("bin", "<", {mk("s", "y"), mk("s", "z")})}),
                      true, "call-boolean");
        }
    }
    // --- arithmetic trees
    int n_exact = th ? 20000 : 1500, n_gen = th ? 8000 : 600, n_logic = th ? 4000 : 300;
    for (int i = 0; i < n_exact; i++) {
        int style = r.below(4);
        Printer pr(r, style == 0 ? 0 : 25, style == 3 ? 15 : (style == 2 ? 4 : 0), true);
        NP t = g.arith(1 + (int)r.below(5), true);
        emit_tree(pr, t, true, style == 0 ? "arith-exact-tight" : (style == 3 ? "arith-exact-parens" : "arith-exact"));
    }
    for (int i = 0; i < n_gen; i++) {
        Printer pr(r, 25, 4, true);
        emit_tree(pr, g.arith(1 + (int)r.below(4), false), true, "arith-funcs-floats");
    }
    for (int i = 0; i < n_logic; i++) {
        bool cx = r.coin();
        Printer pr(r, 25, 4, cx);
        emit_tree(pr, g.logic(1 + (int)r.below(3), cx), cx, cx ? "logic" : "logic-xor");
    }
    for (int i = 0; i < (th ? 400 : 40); i++) {
        Printer pr(r, 25, 4, true);
        std::vector<NP> ks;
        int np = 1 + (int)r.below(3);
        for (int j = 0; j < np; j++) {
            ks.push_back(g.arith(2, true));
            ks.push_back(g.logic(1, true));
        }
        emit_tree(pr, mk("pw", "", ks), true, "piecewise");
    }
    // --- strings without a tree: single-character mutations of valid strings (mostly syntax errors)
    for (int i = 0; i < (th ? 6000 : 500); i++) {
        Printer pr(r, 20, 4, true);
        std::string s = pr.top(g.arith(1 + (int)r.below(3), r.coin()));
        // no '*', '^', '@': turning "7*123456789" into a power is an evaluation blow-up, not a syntax question
        static const std::string alphabet = "+-/()<>=!~&|,. \t0123456789eExy_$#;'\"[]{}?:\\%";
        int edits = 1 + (int)r.below(2);
        for (int e = 0; e < edits && !s.empty(); e++) {
            size_t pos = r.below(s.size());
            unsigned k = r.below(3);
            char c = alphabet[r.below(alphabet.size())];
            if (c == '~' || c == '&' || c == '|')
                c = '$'; // logical operators on non-Boolean operands: C18's business (known crash D17)
            if (k == 0)
                s.erase(pos, 1);
            else if (k == 1)
                s.insert(pos, 1, c);
            else
                s[pos] = c;
        }
        emit(std::string("parse 1 ") + hex(s) + " -", "mutated");
    }
}
