// C41: thread-safe build — shared expressions are race-free (partial: protocol proved, the rest explored).
//
// Op line:  C <threads> <seed> <shared> <ops>
//   <shared> expressions are built by the main thread from <seed>; every thread gets a program of <ops>
//   operations over them (hash, eq/compare, print, diff, subs, expand, add/mul of two shared expressions,
//   RCP copy/drop, membership in an unordered container) derived from (<seed>, thread id).
//   1. sequential run: the programs are executed one after the other on a first, fresh copy of the shared
//      expressions -> one digest per thread (the oracle);
//   2. concurrent run: a second fresh copy (hash caches cold), <threads> std::threads released together,
//      seeded yields between operations -> one digest per thread.
//   Output `same` iff every digest is equal; afterwards every shared root must have use_count() == 1 again.
// Built in the `threadsafe` configuration (WITH_SYMENGINE_THREAD_SAFE) and, for the thorough tier, with
// ThreadSanitizer (`tsan`): any report aborts the process, which the framework records as FAIL:crash.
#include "common.h"
#include <atomic>
#include <thread>
#include <unordered_set>
#include <symengine/basic.h>
#include <symengine/add.h>
#include <symengine/mul.h>
#include <symengine/pow.h>
#include <symengine/integer.h>
#include <symengine/rational.h>
#include <symengine/symbol.h>
#include <symengine/constants.h>
#include <symengine/functions.h>
#include <symengine/visitor.h>
#include <symengine/printers.h>

using namespace SymEngine;
typedef RCP<const Basic> B;

#ifndef WITH_SYMENGINE_THREAD_SAFE
#error "harness/c41.cpp must be built against a WITH_SYMENGINE_THREAD_SAFE configuration"
#endif

static B rexpr(Rng &r, const std::vector<B> &syms, int depth)
{
    if (depth <= 0 || r.coin(1, 6)) {
        switch (r.below(4)) {
            case 0:
                return integer(r.range(-5, 9));
            case 1:
                return Rational::from_two_ints(*integer(r.range(-7, 7)), *integer(r.range(1, 6)));
            default:
                return r.pick(syms);
        }
    }
    switch (r.below(9)) {
        case 0:
        case 1:
            return add(rexpr(r, syms, depth - 1), rexpr(r, syms, depth - 1));
        case 2:
        case 3:
            return mul(rexpr(r, syms, depth - 1), rexpr(r, syms, depth - 1));
        case 4:
            return pow(add(rexpr(r, syms, depth - 1), r.pick(syms)), integer(r.range(2, 3)));
        case 5:
            return sin(rexpr(r, syms, depth - 1));
        case 6:
            return cos(rexpr(r, syms, depth - 1));
        case 7:
            return exp(rexpr(r, syms, depth - 1));
        default:
            return sub(rexpr(r, syms, depth - 1), rexpr(r, syms, depth - 1));
    }
}

struct Shared {
    RCP<const Symbol> x, y;
    std::vector<B> e;
};
static Shared build_shared(uint64_t seed, int k)
{
    Shared s;
    s.x = symbol("x");
    s.y = symbol("y");
    std::vector<B> syms = {s.x, s.y, symbol("z")};
    Rng r(seed * 7919 + 13);
    for (int i = 0; i < k; i++)
        s.e.push_back(rexpr(r, syms, 3));
    // two structurally equal but distinct objects, so that eq() walks shared structure
    if (k >= 2) {
        Rng r2(seed * 7919 + 13);
        s.e[k - 1] = rexpr(r2, syms, 3);
    }
    return s;
}

static void mixin(std::string &d, const std::string &s)
{
    // rolling digest (order sensitive) + a short readable tail
    uint64_t h = 1469598103934665603ULL;
    for (char c : d)
        h = (h ^ (unsigned char)c) * 1099511628211ULL;
    for (char c : s)
        h = (h ^ (unsigned char)c) * 1099511628211ULL;
    char buf[32];
    snprintf(buf, sizeof buf, "%016llx", (unsigned long long)h);
    d = buf;
}

// one thread's program; `perturb` inserts seeded yields (concurrent run only)
static std::string run_program(const Shared &s, uint64_t seed, int tid, int ops, bool perturb, long *opcount)
{
    Rng r(seed * 1000003ULL + (uint64_t)tid * 7817 + 5);
    Rng yr(seed * 31 + (uint64_t)tid);
    std::string d;
    std::vector<B> mine; // thread-private handles to shared objects
    int k = (int)s.e.size();
    for (int i = 0; i < ops; i++) {
        if (perturb && yr.coin(1, 3))
            std::this_thread::yield();
        const B &a = s.e[r.below(k)];
        const B &b = s.e[r.below(k)];
        std::string out;
        try {
            switch (r.below(12)) {
                case 0:
                case 1: {
                    char buf[32];
                    snprintf(buf, sizeof buf, "h%016llx", (unsigned long long)a->hash());
                    out = buf;
                    break;
                }
                case 2:
                    out = std::string("e") + (eq(*a, *b) ? "1" : "0") + "c" + std::to_string(a->__cmp__(*b));
                    break;
                case 3:
                    out = "s" + a->__str__();
                    break;
                case 4:
                    out = "d" + a->diff(s.x)->__str__();
                    break;
                case 5: {
                    map_basic_basic m;
                    m[s.x] = add(s.y, integer(1));
                    out = "u" + a->subs(m)->__str__();
                    break;
                }
                case 6:
                    out = "x" + expand(a)->__str__();
                    break;
                case 7:
                    out = "a" + add(a, b)->__str__();
                    break;
                case 8:
                    out = "m" + mul(a, b)->__str__();
                    break;
                case 9:
                    mine.push_back(a); // RCP copy of a shared object
                    out = "k";
                    break;
                case 10:
                    if (!mine.empty()) {
                        mine.pop_back(); // RCP release
                        out = "r";
                    } else
                        out = "r0";
                    break;
                default: {
                    // hash-keyed container over shared expressions: hash() and eq() through std functors
                    std::unordered_set<B, RCPBasicHash, RCPBasicKeyEq> us;
                    us.insert(a);
                    us.insert(b);
                    us.insert(s.e[k - 1]);
                    out = "n" + std::to_string(us.size()) + (has_symbol(*a, *s.x) ? "y" : "n");
                    break;
                }
            }
        } catch (const std::exception &e) {
            out = std::string("E") + exc_name(e);
        }
        mixin(d, out);
        (*opcount)++;
    }
    return d;
}

std::string hx_run(const std::string &line, std::string &oracle)
{
    auto w = split(line, ' ');
    if (w.size() != 5 || w[0] != "C")
        return "bad-op";
    int n = atoi(w[1].c_str()), k = atoi(w[3].c_str()), ops = atoi(w[4].c_str());
    uint64_t seed = strtoull(w[2].c_str(), nullptr, 10);
    if (n < 1 || n > 64 || k < 1)
        return "bad-op";
    std::vector<std::string> seqd(n), cond(n);
    long seqops = 0;
    {
        Shared s = build_shared(seed, k);
        for (int t = 0; t < n; t++)
            seqd[t] = run_program(s, seed, t, ops, false, &seqops);
    }
    std::vector<long> cnts(n, 0);
    std::string countfail;
    {
        Shared s = build_shared(seed, k);
        std::atomic<int> ready(0);
        std::atomic<bool> go(false);
        std::vector<std::thread> th;
        for (int t = 0; t < n; t++)
            th.emplace_back([&, t]() {
                ready++;
                while (!go.load())
                    std::this_thread::yield();
                cond[t] = run_program(s, seed, t, ops, true, &cnts[t]);
            });
        while (ready.load() < n)
            std::this_thread::yield();
        go.store(true);
        for (auto &t : th)
            t.join();
        // every thread-private handle is gone: the counters must be what a fresh, untouched build has
        // (construction is deterministic, so sharing between the roots is identical)
        Shared f = build_shared(seed, k);
        for (int i = 0; i < k; i++)
            if (s.e[i]->use_count() != f.e[i]->use_count() && countfail.empty())
                countfail = "FAIL:count:shared expression " + std::to_string(i) + " has use_count "
                            + std::to_string(s.e[i]->use_count()) + " after all threads finished, a fresh build has "
                            + std::to_string(f.e[i]->use_count());
    }
    stat("thread_ops", seqops);
    stat("threads_run", n);
    std::string out = "same";
    for (int t = 0; t < n; t++)
        if (seqd[t] != cond[t]) {
            out = "diff:t" + std::to_string(t);
            if (oracle == "ok")
                oracle = "FAIL:diverge:thread " + std::to_string(t) + " digest " + cond[t] + " sequential digest "
                         + seqd[t];
            break;
        }
    if (!countfail.empty() && oracle == "ok")
        oracle = countfail;
    return out;
}

void hx_gen(Rng &r, const std::string &tier)
{
    bool th = tier == "thorough";
    // maximal contention on a cold cache: many threads, one shared expression, short programs
    for (int i = 0; i < (th ? 40 : 12); i++)
        emit("C 8 " + std::to_string(r.below(1000000)) + " 1 " + std::to_string(6 + r.below(10)), "cold-one-shared");
    for (int i = 0; i < (th ? 150 : 40); i++) {
        int n = r.coin(2, 3) ? 8 : (int)(2 + r.below(15));
        int k = 2 + (int)r.below(6);
        int ops = 20 + (int)r.below(th ? 180 : 60);
        emit("C " + std::to_string(n) + " " + std::to_string(r.below(1000000)) + " " + std::to_string(k) + " "
                 + std::to_string(ops),
             n == 8 ? "threads-8" : "threads-other");
    }
}
