// C34: property queries under assumptions are sound.
//
//   q <query> (A <statement>...) <expr>      ->  T | F | I | E:Runtime
//   poly (V <symbol>...) <expr>               ->  T | F           (is_polynomial)
//
// Statements and expressions are canonical dumps (sexp.h).  The assumptions object is the real
// `Assumptions` class built from the parsed statements.
//
// Oracle (independent of the Lean model and of the Assumptions class): candidate values are chosen per
// symbol from a pool of rationals / Gaussian rationals; an assignment is admitted when every statement,
// after substituting the values, is evaluated to `true` by the library's relational / set code.  The
// expression is evaluated exactly at every admitted assignment (subs + expand; eval_complex_double with
// margins when the result is not a Number) and the queried predicate is tested on the value.  A definite
// answer contradicted by an assignment is FAIL:<query>:...; a definite answer at a point where the
// expression has no finite value (zoo/oo after substitution) is reported under the key undef_<query>.
#include "common.h"
#include "sexp.h"
#include "exprgen.h"
#include <symengine/test_visitors.h>
#include <symengine/assumptions.h>
#include <symengine/visitor.h>
#include <symengine/eval_double.h>
#include <symengine/sets.h>
#include <complex>
#include <cmath>

using namespace SymEngine;

static const char *tri_str(tribool t)
{
    return is_true(t) ? "T" : is_false(t) ? "F" : "I";
}

static const std::vector<std::string> QUERIES
    = {"zero",    "nonzero",  "positive",   "negative", "nonnegative", "nonpositive",   "integer", "real",
       "complex", "rational", "irrational", "finite",   "infinite",    "algebraic",     "transcendental",
       "even",    "odd"};

static tribool run_query(const std::string &q, const Basic &e, const Assumptions *a)
{
    if (q == "zero")
        return is_zero(e, a);
    if (q == "nonzero")
        return is_nonzero(e, a);
    if (q == "positive")
        return is_positive(e, a);
    if (q == "negative")
        return is_negative(e, a);
    if (q == "nonnegative")
        return is_nonnegative(e, a);
    if (q == "nonpositive")
        return is_nonpositive(e, a);
    if (q == "integer")
        return is_integer(e, a);
    if (q == "real")
        return is_real(e, a);
    if (q == "complex")
        return is_complex(e, a);
    if (q == "rational")
        return is_rational(e);
    if (q == "irrational")
        return is_irrational(e);
    if (q == "finite")
        return is_finite(e, a);
    if (q == "infinite")
        return is_infinite(e, a);
    if (q == "algebraic")
        return is_algebraic(e, a);
    if (q == "transcendental")
        return is_transcendental(e, a);
    if (q == "even")
        return is_even(e, a);
    if (q == "odd")
        return is_odd(e, a);
    throw std::runtime_error("unknown query " + q);
}

// ------------------------------------------------------------------ oracle
enum Truth { YES, NO, UNKNOWN };

struct Val {
    enum Kind { EXACT_Q, EXACT_C, UNDEF, NANV, APPROX } kind;
    rational_class q;          // EXACT_Q
    std::complex<double> z;    // APPROX
    bool from_cd = false;      // APPROX: the substituted expression is itself a ComplexDouble number
};

// does the queried expression contain floating point leaves?  (set per op by run_oracle)
static bool g_inexact_input = false;

static bool eval_at(const RCP<const Basic> &e, const map_basic_basic &m, Val &v)
{
    RCP<const Basic> r;
    try {
        r = expand(e->subs(m));
    } catch (const std::exception &) {
        return false;
    }
    if (is_a<Integer>(*r)) {
        v.kind = Val::EXACT_Q;
        v.q = rational_class(down_cast<const Integer &>(*r).as_integer_class());
        return true;
    }
    if (is_a<Rational>(*r)) {
        v.kind = Val::EXACT_Q;
        v.q = down_cast<const Rational &>(*r).as_rational_class();
        return true;
    }
    if (is_a<Complex>(*r)) {
        v.kind = Val::EXACT_C;
        return true;
    }
    if (is_a<Infty>(*r)) {
        v.kind = Val::UNDEF;
        return true;
    }
    if (is_a<NaN>(*r)) {
        v.kind = Val::NANV;
        return true;
    }
    // anything else: numeric evaluation; refuse when an infinity / nan hides inside
    try {
        std::complex<double> z = eval_complex_double(*r);
        v.from_cd = is_a<ComplexDouble>(*r);
        if (std::isnan(z.real()) || std::isnan(z.imag()) || std::isinf(z.real()) || std::isinf(z.imag()))
            return false;
        if (std::abs(z) > 1e12)
            return false;
        v.kind = Val::APPROX;
        v.z = z;
        return true;
    } catch (const std::exception &) {
        return false;
    }
}

static const double EPS = 1e-7;

static Truth truth_of(const std::string &q, const Val &v)
{
    if (v.kind == Val::NANV)
        return UNKNOWN;
    if (v.kind == Val::UNDEF) {
        // zoo / oo / -oo: not a (finite) complex number
        if (q == "infinite")
            return YES;
        if (q == "nonzero" || q == "positive" || q == "negative" || q == "nonnegative" || q == "nonpositive")
            return UNKNOWN; // signed infinities are outside the property's value domain
        if (q == "transcendental" || q == "irrational")
            return NO;
        return NO;
    }
    bool exq = v.kind == Val::EXACT_Q, exc = v.kind == Val::EXACT_C, ap = v.kind == Val::APPROX;
    // a ComplexDouble value with an imaginary part that is not exactly zero is a non-real number for the library
    // (sign predicates false), however small that part is; with floating point leaves in the input a tiny non-zero
    // imaginary part of an evaluated expression decides nothing
    bool cd_nonreal = ap && v.from_cd && v.z.imag() != 0.0;
    bool ap_nonreal = ap && (std::fabs(v.z.imag()) > EPS || cd_nonreal);
    bool ap_real = ap && !cd_nonreal
                   && (v.z.imag() == 0.0 || (!g_inexact_input && std::fabs(v.z.imag()) < 1e-12));
    double re = ap ? v.z.real() : 0.0;
    int sgn = exq ? (v.q > 0 ? 1 : (v.q < 0 ? -1 : 0)) : 0;
    if (q == "zero" || q == "nonzero") {
        Truth z = UNKNOWN;
        if (exq)
            z = sgn == 0 ? YES : NO;
        else if (exc)
            z = NO;
        else if (std::abs(v.z) > EPS)
            z = NO;
        if (q == "zero")
            return z;
        return z == YES ? NO : z == NO ? YES : UNKNOWN;
    }
    if (q == "positive" || q == "negative" || q == "nonnegative" || q == "nonpositive") {
        if (exc || ap_nonreal)
            return NO;
        int s; // sign known?
        if (exq)
            s = sgn;
        else if (ap_real && re > EPS)
            s = 1;
        else if (ap_real && re < -EPS)
            s = -1;
        else
            return UNKNOWN;
        if (q == "positive")
            return s > 0 ? YES : NO;
        if (q == "negative")
            return s < 0 ? YES : NO;
        if (q == "nonnegative")
            return s >= 0 ? YES : NO;
        return s <= 0 ? YES : NO;
    }
    if (q == "real") {
        if (exq)
            return YES;
        if (exc || ap_nonreal)
            return NO;
        return UNKNOWN;
    }
    if (q == "complex" || q == "finite")
        return YES;
    if (q == "infinite")
        return NO;
    if (q == "integer" || q == "even" || q == "odd") {
        if (exc || ap_nonreal)
            return NO;
        if (exq) {
            if (get_den(v.q) != 1)
                return NO;
            if (q == "integer")
                return YES;
            bool even = (get_num(v.q) % 2 == 0);
            return (q == "even") == even ? YES : NO;
        }
        if (ap_real && std::fabs(re - std::round(re)) > 1e-5)
            return NO;
        return UNKNOWN;
    }
    if (q == "rational")
        return exq ? YES : (exc || ap_nonreal) ? NO : UNKNOWN;
    if (q == "irrational")
        return (exq || exc || ap_nonreal) ? NO : UNKNOWN;
    if (q == "algebraic")
        return (exq || exc) ? YES : UNKNOWN;
    if (q == "transcendental")
        return (exq || exc) ? NO : UNKNOWN;
    return UNKNOWN;
}

static std::vector<RCP<const Number>> value_pool(bool allow_complex)
{
    static const int nums[][2] = {{0, 1},  {1, 1},  {-1, 1}, {2, 1},  {-2, 1}, {3, 1},  {-3, 1}, {1, 2}, {-1, 2},
                                  {3, 2},  {-3, 2}, {1, 3},  {-2, 3}, {5, 1},  {-5, 1}, {7, 2},  {-7, 2}, {4, 1},
                                  {-4, 1}, {6, 1},  {5, 2},  {-5, 2}, {1, 4},  {-1, 4}, {10, 1}, {-10, 1}};
    std::vector<RCP<const Number>> v;
    for (auto &p : nums)
        v.push_back(Rational::from_two_ints(*integer(p[0]), *integer(p[1])));
    if (allow_complex) {
        v.push_back(Complex::from_two_nums(*integer(0), *integer(1)));
        v.push_back(Complex::from_two_nums(*integer(1), *integer(1)));
        v.push_back(Complex::from_two_nums(*integer(-2), *integer(-1)));
        v.push_back(Complex::from_two_nums(*integer(0), *integer(-2)));
        v.push_back(Complex::from_mpq(rational_class(1, 2), rational_class(3, 2)));
    }
    return v;
}

// does the value satisfy every statement that mentions only this symbol?
static bool admits(const vec_basic &stmts, const RCP<const Basic> &sym, const RCP<const Number> &val)
{
    map_basic_basic m;
    m[sym] = val;
    for (auto &s : stmts) {
        set_basic fs = free_symbols(*s);
        if (fs.size() != 1 || !eq(**fs.begin(), *sym))
            continue;
        RCP<const Basic> r;
        try {
            r = s->subs(m);
        } catch (const std::exception &) {
            return false; // e.g. comparison of a complex value
        }
        if (!eq(*r, *boolTrue))
            return false;
    }
    return true;
}

static uint64_t fnv(const std::string &s)
{
    uint64_t h = 1469598103934665603ULL;
    for (unsigned char c : s) {
        h ^= c;
        h *= 1099511628211ULL;
    }
    return h;
}

static void run_oracle(const std::string &q, tribool ans, const RCP<const Basic> &e, const vec_basic &stmts,
                       const std::string &line, std::string &oracle)
{
    if (is_indeterminate(ans)) {
        stat("answer-indeterminate");
        return;
    }
    stat(is_true(ans) ? "answer-true" : "answer-false");
    {
        std::string ed = vsexp::dump(*e);
        g_inexact_input = ed.find("(D ") != std::string::npos || ed.find("(CD ") != std::string::npos;
    }
    if ((q == "rational" || q == "irrational") && is_a<Add>(*e)) {
        // a definite answer about a sum of two or more of the constants pi, E, GoldenRatio would settle an
        // open problem (e.g. the irrationality of pi + E): it cannot have been derived
        int nconst = 0;
        for (auto &a : e->get_args())
            if (is_a<Constant>(*a))
                nconst++;
        if (nconst >= 2) {
            oracle = "FAIL:open_problem:is_" + q + " answered " + tri_str(ans) + " for the sum " + e->__str__()
                     + " of irrational constants (irrational + irrational is not known to be irrational)";
            return;
        }
    }
    // symbols: of the expression and of the statements
    set_basic syms = free_symbols(*e);
    for (auto &s : stmts) {
        set_basic fs = free_symbols(*s);
        syms.insert(fs.begin(), fs.end());
    }
    std::vector<RCP<const Basic>> symv(syms.begin(), syms.end());
    std::sort(symv.begin(), symv.end(),
              [](const RCP<const Basic> &a, const RCP<const Basic> &b) { return a->__str__() < b->__str__(); });
    std::vector<std::vector<RCP<const Number>>> cands;
    for (auto &s : symv) {
        std::vector<RCP<const Number>> ok;
        for (auto &v : value_pool(true))
            if (admits(stmts, s, v))
                ok.push_back(v);
        if (ok.empty()) {
            stat("oracle-no-admissible-value");
            return;
        }
        cands.push_back(ok);
    }
    Rng r(fnv(line));
    // one symbol: every admissible pool value; several symbols: 24 assignments
    int ntry = symv.empty() ? 1 : symv.size() == 1 ? (int)cands[0].size() : 24, tested = 0;
    for (int t = 0; t < ntry; t++) {
        map_basic_basic m;
        std::string desc;
        for (size_t i = 0; i < symv.size(); i++) {
            // the first rounds walk through the pool in order (so that boundary values like 0 come first)
            const auto &c = cands[i];
            RCP<const Number> v = t < 3 ? c[(t * 7 + i) % c.size()] : c[r.below(c.size())];
            if (t == 0)
                v = c[0];
            if (symv.size() == 1)
                v = c[t];
            m[symv[i]] = v;
            desc += (i ? "," : "") + symv[i]->__str__() + "=" + v->__str__();
        }
        Val v;
        if (!eval_at(e, m, v)) {
            stat("oracle-point-not-evaluable");
            continue;
        }
        Truth tr = truth_of(q, v);
        if (tr == UNKNOWN) {
            stat("oracle-point-unknown");
            continue;
        }
        tested++;
        bool contradiction = (is_true(ans) && tr == NO) || (is_false(ans) && tr == YES);
        if (contradiction) {
            std::string key = (v.kind == Val::UNDEF ? "undef_" : "") + q;
            oracle = "FAIL:" + key + ":is_" + q + " answered " + tri_str(ans) + " but at " + desc + " the value is "
                     + (v.kind == Val::UNDEF ? std::string("infinite/undefined")
                                             : expand(e->subs(m))->__str__());
            return;
        }
    }
    stat(tested ? "oracle-checked-ops" : "oracle-no-testable-point");
    stat("oracle-points-tested", tested);
}

// an upper bound of the degree in x the expression has if it is a polynomial in x: max over sums, sum over
// products, n * bound for a non-negative integer power; anything else counts 0 (if such a part depends on x the
// expression is no polynomial and no derivative vanishes)
static long poly_degree_bound(const Basic &b, const Basic &x)
{
    if (eq(b, x))
        return 1;
    if (is_a<Add>(b)) {
        long m = 0;
        for (auto &a : b.get_args())
            m = std::max(m, poly_degree_bound(*a, x));
        return m;
    }
    if (is_a<Mul>(b)) {
        long m = 0;
        for (auto &a : b.get_args())
            m += poly_degree_bound(*a, x);
        return m;
    }
    if (is_a<Pow>(b)) {
        const Pow &p = down_cast<const Pow &>(b);
        if (is_a<Integer>(*p.get_exp()) && down_cast<const Integer &>(*p.get_exp()).is_positive()
            && mp_fits_slong_p(down_cast<const Integer &>(*p.get_exp()).as_integer_class())) {
            long n = down_cast<const Integer &>(*p.get_exp()).as_int();
            long d = poly_degree_bound(*p.get_base(), x);
            return (n > 1000 || d > 1000) ? 100000 : n * d;
        }
    }
    return 0;
}

// ------------------------------------------------------------------ run
std::string hx_run(const std::string &line, std::string &oracle)
{
    std::vector<vsexp::Node> nodes = vsexp::parse_all(line);
    if (nodes.size() == 4 && nodes[0].atom == "q") {
        std::string q = nodes[1].atom;
        vec_basic stmts;
        for (size_t k = 1; k < nodes[2].kids.size(); k++)
            stmts.push_back(vsexp::build(nodes[2].kids[k]));
        RCP<const Basic> e = vsexp::build(nodes[3]);
        set_basic sset(stmts.begin(), stmts.end());
        Assumptions a(sset);
        tribool ans = run_query(q, *e, &a);
        stat("query-" + q);
        if (!is_a_Boolean(*e) && !is_a_Set(*e))
            run_oracle(q, ans, e, stmts, line, oracle);
        return tri_str(ans);
    }
    if (nodes.size() == 3 && nodes[0].atom == "poly") {
        set_basic vars;
        for (size_t k = 1; k < nodes[1].kids.size(); k++)
            vars.insert(vsexp::build(nodes[1].kids[k]));
        RCP<const Basic> e = vsexp::build(nodes[2]);
        bool ans = is_polynomial(*e, vars);
        stat(ans ? "polynomial-true" : "polynomial-false");
        if (ans && line.size() < 500) {
            // oracle: a polynomial in x has a vanishing derivative of some order (degrees are small here)
            set_basic xs = vars.empty() ? free_symbols(*e) : vars;
            for (auto &x : xs) {
                if (!is_a<Symbol>(*x))
                    continue;
                RCP<const Basic> d = e;
                bool zero = false;
                long bound = poly_degree_bound(*e, *x);
                if (bound > 60) {
                    stat("polynomial-oracle-degree-too-large");
                    continue;
                }
                int order = (int)std::max(16L, bound + 1);
                try {
                    for (int i = 0; i < order && !zero; i++) {
                        d = expand(d->diff(rcp_static_cast<const Symbol>(x)));
                        zero = eq(*d, *integer(0));
                    }
                } catch (const std::exception &) {
                    zero = true; // not differentiable here: no verdict
                }
                if (!zero) {
                    oracle = "FAIL:polynomial:is_polynomial answered true but the derivative of order " + tostr(order)
                             + " (degree bound " + tostr(bound) + ") with respect to " + x->__str__() + " is not zero";
                    break;
                }
            }
            stat("polynomial-oracle-checked");
        }
        return ans ? "T" : "F";
    }
    throw std::runtime_error("bad op");
}

// ------------------------------------------------------------------ gen
static RCP<const Basic> S(int i)
{
    return vgen::sym(i);
}

// one random consistent-or-not fact set for symbol i
static void rand_facts(Rng &r, int i, vec_basic &out, bool allow_inconsistent)
{
    RCP<const Basic> x = S(i);
    switch (r.below(6)) {
        case 0:
            break;
        case 1:
            out.push_back(complexes()->contains(x));
            break;
        case 2:
            out.push_back(reals()->contains(x));
            break;
        case 3:
            out.push_back(rationals()->contains(x));
            break;
        default:
            out.push_back(integers()->contains(x));
            break;
    }
    RCP<const Number> z = integer(0);
    unsigned k = r.below(16);
    switch (k) {
        case 0:
        case 1:
            break;
        case 2:
        case 3:
            out.push_back(Gt(x, z));
            break;
        case 4:
        case 5:
            out.push_back(Lt(x, z));
            break;
        case 6:
            out.push_back(Ge(x, z));
            break;
        case 7:
            out.push_back(Le(x, z));
            break;
        case 8:
            out.push_back(Eq(x, z));
            break;
        case 9:
            out.push_back(Ne(x, z));
            break;
        case 10:
            out.push_back(Ge(x, z));
            out.push_back(Ne(x, z));
            break;
        case 11:
            out.push_back(Le(x, z));
            out.push_back(Ne(x, z));
            break;
        case 12: {
            // bounds by other numbers
            static const int b[][2] = {{2, 1}, {1, 2}, {-1, 1}, {-3, 2}, {5, 1}, {-1, 3}};
            auto &p = b[r.below(6)];
            RCP<const Number> c = Rational::from_two_ints(*integer(p[0]), *integer(p[1]));
            switch (r.below(6)) {
                case 0:
                    out.push_back(Gt(x, c));
                    break;
                case 1:
                    out.push_back(Ge(x, c));
                    break;
                case 2:
                    out.push_back(Lt(x, c));
                    break;
                case 3:
                    out.push_back(Le(x, c));
                    break;
                case 4:
                    out.push_back(Eq(x, c));
                    break;
                default:
                    out.push_back(Ne(x, c));
                    break;
            }
            break;
        }
        case 13:
            out.push_back(Ge(x, z));
            out.push_back(Le(x, z));
            break;
        case 14:
            if (allow_inconsistent) {
                out.push_back(Gt(x, z));
                out.push_back(r.coin() ? Lt(x, z) : Eq(x, z));
            } else
                out.push_back(Gt(x, z));
            break;
        default:
            out.push_back(Gt(x, integer(1)));
            break;
    }
}

static std::string dump_stmts(const vec_basic &v)
{
    std::vector<std::string> d;
    for (auto &s : v)
        d.push_back(vsexp::dump(*s));
    std::sort(d.begin(), d.end());
    d.erase(std::unique(d.begin(), d.end()), d.end());
    std::string o = "(A";
    for (auto &s : d)
        o += " " + s;
    return o + ")";
}

// expressions aimed at the combination rules (random trees alone are mostly indeterminate)
static RCP<const Basic> targeted(Rng &r, const vgen::Opts &o)
{
    auto leaf = [&]() -> RCP<const Basic> {
        unsigned k = r.below(10);
        if (k < 7)
            return S((int)r.below(3));
        if (k < 8)
            return r.coin() ? rcp_static_cast<const Basic>(pi) : rcp_static_cast<const Basic>(E);
        return vgen::rand_num(r, o);
    };
    auto coef = [&]() -> RCP<const Number> {
        if (r.coin(1, 4))
            return Rational::from_two_ints(*integer(r.range(-5, 5)), *integer(r.range(2, 4)));
        long c = r.range(-4, 4);
        return integer(c == 0 ? 2 : c);
    };
    switch (r.below(9)) {
        case 0: { // linear combination
            vec_basic v;
            int n = 1 + (int)r.below(3);
            for (int i = 0; i < n; i++)
                v.push_back(mul(coef(), leaf()));
            if (r.coin())
                v.push_back(coef());
            return add(v);
        }
        case 1: { // product of leaves with a coefficient
            vec_basic v;
            int n = 1 + (int)r.below(3);
            for (int i = 0; i < n; i++)
                v.push_back(leaf());
            if (r.coin())
                v.push_back(r.coin(1, 4) ? rcp_static_cast<const Basic>(Complex::from_two_nums(
                                *integer(r.range(-2, 2)), *integer(r.range(1, 2))))
                                         : rcp_static_cast<const Basic>(coef()));
            return mul(v);
        }
        case 2: { // power of a leaf
            RCP<const Basic> b = r.coin(1, 4) ? targeted(r, o) : leaf();
            switch (r.below(5)) {
                case 0:
                    return pow(b, integer(r.range(-3, 4)));
                case 1:
                    return pow(b, Rational::from_two_ints(*integer(r.range(-3, 3)), *integer(r.range(2, 3))));
                case 2:
                    return pow(b, leaf());
                case 3:
                    return pow(b, add(integer(1), leaf()));
                default:
                    return pow(mul(Complex::from_two_nums(*integer(0), *integer(1)), leaf()), leaf());
            }
        }
        case 3: { // products of powers
            vec_basic v;
            int n = 1 + (int)r.below(3);
            for (int i = 0; i < n; i++)
                v.push_back(pow(leaf(), r.coin() ? rcp_static_cast<const Basic>(integer(r.range(-2, 3))) : leaf()));
            if (r.coin())
                v.push_back(coef());
            return mul(v);
        }
        case 4: { // one-argument functions with rules
            RCP<const Basic> a = r.coin() ? leaf() : targeted(r, o);
            switch (r.below(12)) {
                case 0:
                    return abs(a);
                case 1:
                    return sign(a);
                case 2:
                    return conjugate(a);
                case 3:
                    return log(a);
                case 4:
                    return sin(a);
                case 5:
                    return cos(a);
                case 6:
                    return floor(a);
                case 7:
                    return ceiling(a);
                case 8:
                    return sinh(a);
                case 9:
                    return asin(a);
                case 10:
                    return lambertw(a);
                default:
                    return asec(a);
            }
        }
        case 5: { // sums of constants and numbers (rational / algebraic rules)
            vec_basic v;
            static const RCP<const Basic> ks[] = {pi, E, GoldenRatio, EulerGamma, Catalan};
            int n = 1 + (int)r.below(2);
            for (int i = 0; i < n; i++)
                v.push_back(r.coin(1, 3) ? mul(coef(), ks[r.below(5)]) : ks[r.below(5)]);
            if (r.coin())
                v.push_back(coef());
            if (r.coin(1, 4))
                v.push_back(leaf());
            return add(v);
        }
        case 6: { // sums of products
            vec_basic v;
            int n = 2 + (int)r.below(2);
            for (int i = 0; i < n; i++)
                v.push_back(mul(coef(), mul(leaf(), leaf())));
            return add(v);
        }
        case 7: // even / odd shapes
            return add(mul(integer(2 * r.range(-3, 3)), mul(leaf(), leaf())), integer(r.range(-2, 2)));
        default:
            return add(targeted(r, o), targeted(r, o));
    }
}

void hx_gen(Rng &rng, const std::string &tier)
{
    bool thorough = tier == "thorough";
    int n = thorough ? 30000 : 4000;
    vgen::Opts o;
    o.rationals = true;
    o.gaussian = true;
    o.constants = true;
    o.functions = true;
    o.fsymbols = false;
    o.radicals = true;
    o.symexp = true;
    o.negpow = true;
    o.nsyms = 3;
    for (int i = 0; i < n; i++) {
        vec_basic stmts;
        bool inconsistent_ok = rng.coin(1, 25);
        try {
            for (int s = 0; s < 3; s++)
                if (rng.coin(4, 5))
                    rand_facts(rng, s, stmts, inconsistent_ok);
        } catch (const std::exception &) {
            continue;
        }
        RCP<const Basic> e;
        std::string tag;
        unsigned k = rng.below(100);
        vgen::Opts oo = o;
        try {
            if (k < 55) {
                e = targeted(rng, o);
                tag = "targeted";
            } else if (k < 90) {
                oo.infs = rng.coin(1, 10);
                oo.floats = rng.coin(1, 10);
                e = vgen::rand_expr(rng, oo, 1 + (int)rng.below(4));
                tag = "random";
            } else if (k < 96) {
                e = vgen::rand_leaf(rng, o);
                tag = "leaf";
            } else {
                // Set / Relational / Boolean objects: the throwing paths
                switch (rng.below(4)) {
                    case 0:
                        e = interval(integer(0), integer(2));
                        break;
                    case 1:
                        e = Eq(S(0), integer(1));
                        break;
                    case 2:
                        e = boolTrue;
                        break;
                    default:
                        e = reals()->contains(S(1));
                        break;
                }
                tag = "trivial-logic";
            }
        } catch (const std::exception &) {
            continue;
        }
        if (tag != "trivial-logic" && rng.coin(1, 12)) {
            // is_polynomial with a random variable set (empty = all symbols)
            std::string vs = "(V";
            if (rng.coin(2, 3))
                for (int s = 0; s < 3; s++)
                    if (rng.coin())
                        vs += " " + vsexp::dump(*S(s));
            RCP<const Basic> pe = e;
            if (rng.coin()) {
                // polynomial-looking shapes: sums of products of integer powers, sometimes with a spoiler
                vec_basic terms;
                int nt = 1 + (int)rng.below(3);
                for (int t = 0; t < nt; t++) {
                    RCP<const Basic> m = integer(rng.range(1, 5));
                    int nf = 1 + (int)rng.below(3);
                    for (int f = 0; f < nf; f++) {
                        RCP<const Basic> b = S((int)rng.below(3));
                        if (rng.coin(1, 6))
                            b = add(b, S((int)rng.below(3)));
                        RCP<const Basic> ex = integer(rng.range(1, 3));
                        unsigned sp = rng.below(12);
                        if (sp == 0)
                            ex = integer(-1);
                        else if (sp == 1)
                            ex = Rational::from_two_ints(*integer(1), *integer(2));
                        else if (sp == 2)
                            ex = S((int)rng.below(3));
                        else if (sp == 3)
                            b = sin(b);
                        m = mul(m, pow(b, ex));
                    }
                    terms.push_back(m);
                }
                try {
                    pe = add(terms);
                } catch (const std::exception &) {
                    continue;
                }
            }
            emit("poly " + vs + ") " + vsexp::dump(*pe), "polynomial");
            continue;
        }
        const std::string &q = QUERIES[rng.below(17)];
        if ((q == "even" || q == "odd") && tag != "trivial-logic" && rng.coin(2, 3)) {
            // shapes with definite parity answers: c*x*y + d, numbers, 2*x - 1
            try {
                switch (rng.below(4)) {
                    case 0:
                        e = integer(rng.range(-9, 9));
                        break;
                    case 1:
                        e = mul(integer(rng.range(-4, 4)), mul(S((int)rng.below(3)), S((int)rng.below(3))));
                        break;
                    case 2:
                        e = add(mul(integer(2 * rng.range(-3, 3)), S((int)rng.below(3))), integer(rng.range(-2, 1)));
                        break;
                    default:
                        e = mul(Rational::from_two_ints(*integer(rng.range(-6, 6)), *integer(rng.range(1, 3))),
                                pow(S((int)rng.below(3)), integer(rng.range(1, 3))));
                        break;
                }
                tag = "parity";
            } catch (const std::exception &) {
                continue;
            }
        }
        emit("q " + q + " " + dump_stmts(stmts) + " " + vsexp::dump(*e), tag + "-" + q);
    }
}
