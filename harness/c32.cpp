// C32: number-theoretic functions agree with their definitions.
// Op lines (see lean/Drv/C32.lean):
//   nt <fn> <args...>            one call of the real function, canonical output
//   sw <fn> <rest...> <lo> <hi>  the calls `nt <fn> x <rest...>` for x = lo..hi joined by '|'
//   spec / swspec                the same real calls (the Lean side answers from brute-force definitions)
// The oracle evaluates the *defining property* of every result with plain GMP arithmetic and
// brute force, independently of the Lean model.
#include "common.h"
#include <symengine/ntheory.h>
#include <symengine/ntheory_funcs.h>
#include <symengine/integer.h>
#include <symengine/rational.h>
#include <symengine/functions.h>
#include <algorithm>
#include <functional>
#include <set>

using namespace SymEngine;
typedef integer_class Z;

static Z zof(const std::string &s)
{
    return Z(s);
}
static RCP<const Integer> ZI(const Z &z)
{
    return integer(z);
}
static std::string zs(const Z &z)
{
    return tostr(z);
}
static Z zabs(const Z &a)
{
    return a < 0 ? Z(-a) : a;
}
// independent helpers (plain loops over GMP integers)
static Z ogcd(Z a, Z b)
{
    a = zabs(a);
    b = zabs(b);
    while (b != 0) {
        Z t = a % b;
        a = b;
        b = t;
    }
    return a;
}
static Z fmodz(const Z &a, const Z &m) // floor mod, m > 0
{
    Z r = a % m;
    if (r < 0)
        r += m;
    return r;
}
static Z opow(Z a, Z e, const Z &m) // a^e mod m, e >= 0, m > 0
{
    Z r = fmodz(Z(1), m);
    a = fmodz(a, m);
    while (e > 0) {
        if (e % 2 == 1)
            r = r * a % m;
        a = a * a % m;
        e = e / 2;
    }
    return r;
}
static bool oprime(const Z &n)
{
    if (n < 2)
        return false;
    for (Z d = 2; d * d <= n; d = d + 1)
        if (n % d == 0)
            return false;
    return true;
}
static std::vector<std::pair<Z, unsigned>> ofactor(Z n)
{
    std::vector<std::pair<Z, unsigned>> f;
    n = zabs(n);
    if (n == 0)
        return f;
    if (mp_fits_ulong_p(n)) { // native arithmetic
        unsigned long v = mp_get_ui(n);
        for (unsigned long d = 2; d <= 0xffffffffUL && d * d <= v; d++) {
            unsigned c = 0;
            while (v % d == 0) {
                v /= d;
                c++;
            }
            if (c)
                f.push_back({Z(d), c});
        }
        if (v > 1)
            f.push_back({Z(v), 1});
        return f;
    }
    for (Z d = 2; d * d <= n; d = d + 1) {
        unsigned c = 0;
        while (n % d == 0) {
            n = n / d;
            c++;
        }
        if (c)
            f.push_back({d, c});
    }
    if (n > 1)
        f.push_back({n, 1});
    return f;
}
// factorisation over a fixed list of known primes (small primes and Mersenne primes); false if a
// cofactor remains.  Used where the argument is too large for trial division.
static const char *KNOWN_BIG_PRIMES[] = {"2305843009213693951", "618970019642690137449562111",
                                         "162259276829213363391578010288127",
                                         "170141183460469231731687303715884105727", "2147483647"};
static bool known_factor(Z n, std::vector<std::pair<Z, unsigned>> &f)
{
    n = zabs(n);
    if (n == 0)
        return false;
    std::vector<Z> ps;
    for (unsigned long p = 2; p < 400; p++) {
        bool pr = true;
        for (unsigned long d = 2; d * d <= p; d++)
            if (p % d == 0)
                pr = false;
        if (pr)
            ps.push_back(Z(p));
    }
    for (auto sp : KNOWN_BIG_PRIMES)
        ps.push_back(Z(std::string(sp)));
    for (auto &p : ps) {
        unsigned c = 0;
        while (n % p == 0) {
            n = n / p;
            c++;
        }
        if (c)
            f.push_back({p, c});
    }
    return n == 1;
}
static Z ozpow(const Z &b, unsigned e)
{
    Z r = 1;
    for (unsigned i = 0; i < e; i++)
        r = r * b;
    return r;
}
static Z ototient(const Z &n)
{
    Z phi = zabs(n);
    for (auto &pe : ofactor(n))
        phi = phi / pe.first * (pe.first - 1);
    return phi;
}
// multiplicative order by definition-based test: a^o = 1 and a^(o/q) != 1 for all primes q | o
static bool is_order(const Z &a, const Z &o, const Z &n)
{
    if (o < 1 || opow(a, o, n) != fmodz(Z(1), n))
        return false;
    if (n == 1)
        return o == 1;
    for (auto &pe : ofactor(o))
        if (opow(a, o / pe.first, n) == 1)
            return false;
    return true;
}
static int okron_prime(const Z &a, const Z &p)
{
    if (p == 2) {
        if (a % 2 == 0)
            return 0;
        Z r = fmodz(a, Z(8));
        return (r == 1 || r == 7) ? 1 : -1;
    }
    Z r = opow(a, (p - 1) / 2, p);
    return r == 0 ? 0 : (r == 1 ? 1 : -1);
}
// Kronecker symbol from its definition; 2 = "not checkable" (modulus does not factor over the known primes)
static int okron(const Z &a, const Z &n)
{
    if (n == 0)
        return zabs(a) == 1 ? 1 : 0;
    int u = (n < 0 && a < 0) ? -1 : 1;
    std::vector<std::pair<Z, unsigned>> f;
    if (zabs(n) < (Z(1) << 44))
        f = ofactor(n);
    else if (!known_factor(n, f))
        return 2;
    for (auto &pe : f) {
        int k = okron_prime(a, pe.first);
        for (unsigned i = 0; i < pe.second; i++)
            u *= k;
    }
    return u;
}
// does x^n = a (mod m) have a solution?  (criterion for m odd and gcd(a,m)=1: cyclic groups)
// returns -1 when the criterion does not apply, otherwise the number of solutions (0 = none)
static Z ocount_roots(const Z &a, const Z &n, const Z &m)
{
    if (m % 2 == 0 || ogcd(a, m) != 1)
        return Z(-1);
    Z cnt = 1;
    for (auto &pe : ofactor(m)) {
        Z pk = ozpow(pe.first, pe.second);
        Z phi = pk / pe.first * (pe.first - 1);
        Z g = ogcd(phi, n);
        if (opow(a, phi / g, pk) != 1)
            return Z(0);
        cnt = cnt * g;
    }
    return cnt;
}

static std::string listStr(const std::vector<RCP<const Integer>> &v)
{
    if (v.empty())
        return "-";
    std::string o;
    for (size_t i = 0; i < v.size(); i++) {
        if (i)
            o += ",";
        o += zs(v[i]->as_integer_class());
    }
    return o;
}
static std::vector<Z> parseList(const std::string &s)
{
    std::vector<Z> v;
    if (s == "-")
        return v;
    for (auto &t : split(s, ','))
        v.push_back(zof(t));
    return v;
}

struct Fail {
    std::string &oracle;
    const std::string &op;
    void operator()(const std::string &key, const std::string &detail)
    {
        if (oracle == "ok")
            oracle = "FAIL:" + key + ":" + op + " " + detail;
    }
};

// classification of the branch of _nthroot_mod_prime_power an (a, n, p^k) triple takes (statistics only)
static void classify(const Z &a, const Z &n, const Z &m)
{
    if (m <= 1 || n < 1)
        return;
    for (auto &pe : ofactor(m)) {
        const Z &p = pe.first;
        unsigned k = pe.second;
        Z pk = ozpow(p, k);
        if (a % p == 0) {
            stat(fmodz(a, pk) == 0 ? "br:a=0" : "br:p|a");
            continue;
        }
        if (p == 2) {
            stat(k <= 2 ? "br:2^k<=4" : (n % 2 != 0 ? "br:2^k n odd" : "br:2^k lift"));
            continue;
        }
        if (n % p == 0 && k >= 2)
            stat("br:p|n lift");
        Z g = ogcd(n, p - 1);
        if (g == 1)
            stat("br:odd n'=1");
        else if (g == 2) {
            if (p % 4 == 3)
                stat("br:sqrt 3mod4");
            else if (p % 8 == 5)
                stat("br:sqrt 5mod8");
            else if (p < 10000)
                stat("br:sqrt brute");
            else
                stat("br:sqrt tonelli");
        } else {
            bool dlog = false;
            for (auto &qe : ofactor(g))
                if ((p - 1) % (ozpow(qe.first, qe.second) * qe.first) == 0)
                    dlog = true;
            stat(dlog ? "br:johnston dlog" : "br:johnston nolog");
        }
    }
}

static const long BRUTE_M = 3000;

static std::string run_nt(const std::string &fn, const std::vector<std::string> &a, Fail &fail)
{
    auto A = [&](size_t i) { return zof(a.at(i)); };
    size_t na = a.size();
    if (fn == "gcd" && na == 2) {
        Z g = gcd(*ZI(A(0)), *ZI(A(1)))->as_integer_class();
        if (g != ogcd(A(0), A(1)))
            fail("gcd", "got " + zs(g));
        return zs(g);
    }
    if (fn == "lcm" && na == 2) {
        Z l = lcm(*ZI(A(0)), *ZI(A(1)))->as_integer_class();
        Z g = ogcd(A(0), A(1));
        if (l < 0 || l * g != zabs(A(0) * A(1)))
            fail("lcm", "got " + zs(l));
        return zs(l);
    }
    if (fn == "gcd_ext" && na == 2) {
        RCP<const Integer> g, s, t;
        gcd_ext(outArg(g), outArg(s), outArg(t), *ZI(A(0)), *ZI(A(1)));
        Z gg = g->as_integer_class(), ss = s->as_integer_class(), tt = t->as_integer_class();
        if (gg != ogcd(A(0), A(1)) || ss * A(0) + tt * A(1) != gg)
            fail("gcd_ext", "g=" + zs(gg) + " s=" + zs(ss) + " t=" + zs(tt));
        return zs(gg) + " " + zs(ss) + " " + zs(tt);
    }
    if (fn == "mod_inverse" && na == 2) {
        RCP<const Integer> b;
        int r = mod_inverse(outArg(b), *ZI(A(0)), *ZI(A(1)));
        Z m = zabs(A(1));
        bool inv = ogcd(A(0), m) == 1;
        if ((r != 0) != inv)
            fail("mod_inverse", "flag " + std::to_string(r));
        if (r == 0)
            return "0";
        Z v = b->as_integer_class();
        if (v < 0 || v >= m || fmodz(A(0) * v, m) != fmodz(Z(1), m))
            fail("mod_inverse", "value " + zs(v));
        return "1 " + zs(v);
    }
    if ((fn == "mod" || fn == "quotient" || fn == "quotient_mod" || fn == "mod_f" || fn == "quotient_f"
         || fn == "quotient_mod_f")
        && na == 2) {
        Z n = A(0), d = A(1);
        bool fl = fn.size() > 2 && fn.substr(fn.size() - 2) == "_f";
        RCP<const Integer> q, r;
        if (fl)
            quotient_mod_f(outArg(q), outArg(r), *ZI(n), *ZI(d));
        else
            quotient_mod(outArg(q), outArg(r), *ZI(n), *ZI(d));
        Z qq = q->as_integer_class(), rr = r->as_integer_class();
        Z q1 = (fl ? quotient_f(*ZI(n), *ZI(d)) : quotient(*ZI(n), *ZI(d)))->as_integer_class();
        Z r1 = (fl ? mod_f(*ZI(n), *ZI(d)) : mod(*ZI(n), *ZI(d)))->as_integer_class();
        bool ok = n == qq * d + rr && zabs(rr) < zabs(d) && q1 == qq && r1 == rr;
        if (fl)
            ok = ok && (rr == 0 || (rr > 0) == (d > 0));
        else
            ok = ok && (rr == 0 || (rr > 0) == (n > 0));
        if (!ok)
            fail("divmod", "q=" + zs(qq) + " r=" + zs(rr) + " q'=" + zs(q1) + " r'=" + zs(r1));
        if (fn == "mod" || fn == "mod_f")
            return zs(r1);
        if (fn == "quotient" || fn == "quotient_f")
            return zs(q1);
        return zs(qq) + " " + zs(rr);
    }
    if ((fn == "fibonacci" || fn == "fibonacci2" || fn == "lucas" || fn == "lucas2") && na == 1) {
        unsigned long n = std::stoul(a[0]);
        // reference by the recurrence, F(-1) = 1, L(-1) = -1
        bool luc = fn[0] == 'l';
        Z x0 = luc ? Z(-1) : Z(1), x1 = luc ? Z(2) : Z(0); // x(-1), x(0)
        for (unsigned long i = 0; i < n; i++) {
            Z t = x0 + x1;
            x0 = x1;
            x1 = t;
        }
        if (fn == "fibonacci" || fn == "lucas") {
            Z f = (luc ? lucas(n) : fibonacci(n))->as_integer_class();
            if (f != x1)
                fail(fn, "got " + zs(f));
            return zs(f);
        }
        RCP<const Integer> g, s;
        if (luc)
            lucas2(outArg(g), outArg(s), n);
        else
            fibonacci2(outArg(g), outArg(s), n);
        if (g->as_integer_class() != x1 || s->as_integer_class() != x0)
            fail(fn, "got " + zs(g->as_integer_class()) + " " + zs(s->as_integer_class()));
        return zs(g->as_integer_class()) + " " + zs(s->as_integer_class());
    }
    if (fn == "binomial" && na == 2) {
        unsigned long k = std::stoul(a[1]);
        Z b = binomial(*ZI(A(0)), k)->as_integer_class();
        // product formula: prod_{i=1..k} (n-k+i)/i, exact at every step
        Z r = 1;
        for (unsigned long i = 1; i <= k; i++)
            r = r * (A(0) - Z(k) + Z(i)) / Z(i);
        if (r != b)
            fail("binomial", "got " + zs(b) + " expected " + zs(r));
        return zs(b);
    }
    if (fn == "factorial" && na == 1) {
        unsigned long n = std::stoul(a[0]);
        Z f = factorial(n)->as_integer_class(), r = 1;
        for (unsigned long i = 2; i <= n; i++)
            r = r * Z(i);
        if (f != r)
            fail("factorial", "got " + zs(f));
        return zs(f);
    }
    if (fn == "divides" && na == 2) {
        bool d = divides(*ZI(A(0)), *ZI(A(1)));
        bool ref = A(1) == 0 ? A(0) == 0 : A(0) % A(1) == 0;
        if (d != ref)
            fail("divides", "got " + std::to_string(d));
        return d ? "1" : "0";
    }
    if (fn == "probab_prime_p" && na == 1) {
        int r = probab_prime_p(*ZI(A(0)));
        if ((r > 0) != oprime(zabs(A(0)))) // GMP tests |a|
            fail("probab_prime_p", "got " + std::to_string(r));
        return r > 0 ? "1" : "0";
    }
    if (fn == "nextprime" && na == 1) {
        Z p = nextprime(*ZI(A(0)))->as_integer_class();
        bool ok = p > A(0) && oprime(p);
        for (Z x = (A(0) < 1 ? Z(1) : Z(A(0) + 1)); ok && x < p; x = x + 1)
            if (oprime(x))
                ok = false;
        if (!ok)
            fail("nextprime", "got " + zs(p));
        return zs(p);
    }
    if ((fn == "factor" || fn == "factor_trial_division") && na == 1) {
        RCP<const Integer> f = integer(0);
        int r = fn == "factor" ? factor(outArg(f), *ZI(A(0))) : factor_trial_division(outArg(f), *ZI(A(0)));
        Z n = A(0), ff = f->as_integer_class();
        if (r) { // smallest prime factor, not exceeding sqrt(n)
            bool ok = ff > 1 && ff * ff <= n && n % ff == 0 && oprime(ff);
            for (Z d = 2; ok && d < ff; d = d + 1)
                if (n % d == 0)
                    ok = false;
            if (!ok)
                fail(fn, "factor " + zs(ff));
        } else if (n >= 4 && !oprime(n))
            fail(fn, "no factor reported for a composite");
        if (fn == "factor")
            return std::to_string(r) + " " + (r ? zs(ff) : "0");
        return r ? "1 " + zs(ff) : "0";
    }
    if ((fn == "factor_lehman" && na == 1) || (fn == "factor_pm1" && na == 3) || (fn == "factor_rho" && na == 2)) {
        RCP<const Integer> f = integer(0);
        int r;
        Z n = A(0);
        if (fn == "factor_lehman")
            r = factor_lehman_method(outArg(f), *ZI(n));
        else if (fn == "factor_pm1")
            r = factor_pollard_pm1_method(outArg(f), *ZI(n), (unsigned)std::stoul(a[1]), (unsigned)std::stoul(a[2]));
        else
            r = factor_pollard_rho_method(outArg(f), *ZI(n), (unsigned)std::stoul(a[1]));
        Z ff = f->as_integer_class();
        // "returns 0 or a non-trivial divisor"; a prime must never be split
        if (r && !(ff > 1 && ff < n && n % ff == 0))
            fail(fn, "reported factor " + zs(ff));
        if (fn == "factor_lehman") {
            if (!r && !oprime(n))
                fail("lehman-incomplete", "Lehman's method must split every composite n >= 21");
            return r ? "1 " + zs(ff) : "0";
        }
        stat(r ? fn + " found" : fn + " none");
        return "ok";
    }
    if (fn == "prime_factors" && na == 1) {
        std::vector<RCP<const Integer>> l;
        prime_factors(l, *ZI(A(0)));
        Z prod = 1, prev = 0;
        bool ok = true;
        for (auto &p : l) {
            Z pp = p->as_integer_class();
            if (!oprime(pp) || pp < prev)
                ok = false;
            prev = pp;
            prod = prod * pp;
        }
        if (A(0) == 0 ? !l.empty() : (!ok || prod != zabs(A(0))))
            fail(fn, "got " + listStr(l));
        return listStr(l);
    }
    if (fn == "pfm" && na == 1) {
        map_integer_uint mm;
        prime_factor_multiplicities(mm, *ZI(A(0)));
        Z prod = 1, prev = 0;
        bool ok = true;
        std::vector<std::string> out;
        for (auto &pe : mm) {
            Z pp = pe.first->as_integer_class();
            if (!oprime(pp) || pp <= prev || pe.second == 0)
                ok = false;
            prev = pp;
            prod = prod * ozpow(pp, pe.second);
            out.push_back(zs(pp) + "^" + std::to_string(pe.second));
        }
        if (A(0) == 0 ? !mm.empty() : (!ok || prod != zabs(A(0))))
            fail(fn, "got " + join(out, ","));
        return out.empty() ? "-" : join(out, ",");
    }
    if (fn == "bernoulli" && na == 1) {
        unsigned long n = std::stoul(a[0]);
        RCP<const Number> b = bernoulli(n);
        rational_class got = is_a<Integer>(*b) ? rational_class(down_cast<const Integer &>(*b).as_integer_class())
                                               : down_cast<const Rational &>(*b).as_rational_class();
        // definition: sum_{j=0}^{m} C(m+1, j) B_j = 0 for m >= 1 (B_1 = -1/2), symengine returns B_1 = +1/2
        std::vector<rational_class> B(n + 1);
        for (unsigned long m = 0; m <= n; m++) {
            if (m == 0) {
                B[0] = 1;
                continue;
            }
            rational_class s = 0;
            Z c = 1; // C(m+1, j)
            for (unsigned long j = 0; j < m; j++) {
                s += rational_class(c) * B[j];
                c = c * Z(m + 1 - j) / Z(j + 1);
            }
            B[m] = -s / rational_class(Z(m + 1));
        }
        rational_class ref = B[n];
        if (n == 1)
            ref = -ref;
        if (got != ref)
            fail(fn, "got " + tostr(got) + " expected " + tostr(ref));
        return zs(get_num(got)) + "/" + zs(get_den(got));
    }
    if (fn == "harmonic" && na == 2) {
        unsigned long n = std::stoul(a[0]);
        long m = std::stol(a[1]);
        RCP<const Number> h = harmonic(n, m);
        rational_class got = is_a<Integer>(*h) ? rational_class(down_cast<const Integer &>(*h).as_integer_class())
                                               : down_cast<const Rational &>(*h).as_rational_class();
        rational_class ref = 0;
        for (unsigned long i = n; i >= 1; i--) { // summed in the other direction
            Z pw = ozpow(Z(i), (unsigned)std::labs(m));
            ref += m >= 0 ? rational_class(Z(1), pw) : rational_class(pw);
        }
        if (got != ref)
            fail(fn, "got " + tostr(got));
        return zs(get_num(got)) + "/" + zs(get_den(got));
    }
    if (fn == "crt" && na == 2) {
        std::vector<Z> r = parseList(a[0]), m = parseList(a[1]);
        std::vector<RCP<const Integer>> rr, mm;
        for (auto &x : r)
            rr.push_back(ZI(x));
        for (auto &x : m)
            mm.push_back(ZI(x));
        RCP<const Integer> R;
        bool ok = crt(outArg(R), rr, mm);
        // solvable iff pairwise compatible
        bool solvable = true;
        for (size_t i = 0; i < m.size(); i++)
            for (size_t j = i + 1; j < m.size(); j++)
                if ((r[i] - r[j]) % ogcd(m[i], m[j]) != 0)
                    solvable = false;
        if (ok != solvable)
            fail(fn, "flag " + std::to_string(ok));
        if (!ok)
            return "0";
        Z v = R->as_integer_class(), l = 1;
        bool allpos = true;
        for (size_t i = 0; i < m.size(); i++) {
            if ((v - r[i]) % m[i] != 0)
                fail(fn, "residue " + std::to_string(i) + " of " + zs(v));
            l = l / ogcd(l, m[i]) * zabs(m[i]);
            if (m[i] <= 0)
                allpos = false;
        }
        if (m.size() >= 2 && allpos && (v < 0 || v >= l))
            fail(fn, "not in [0, lcm): " + zs(v));
        return "1 " + zs(v);
    }
    if (fn == "primitive_root" && na == 1) {
        RCP<const Integer> g;
        bool ok = primitive_root(outArg(g), *ZI(A(0)));
        Z n = zabs(A(0));
        // existence: n in {2, 4, p^k, 2 p^k}
        bool exists = false;
        if (n == 2 || n == 4)
            exists = true;
        else if (n > 2) {
            Z o = n % 2 == 0 ? Z(n / 2) : n;
            auto f = ofactor(o);
            exists = o % 2 != 0 && f.size() == 1;
        }
        if (ok != exists)
            fail(fn, "flag " + std::to_string(ok));
        if (!ok)
            return "0";
        Z gg = g->as_integer_class();
        if (gg < 0 || gg >= n || ogcd(gg, n) != 1 || !is_order(gg, ototient(n), n))
            fail(fn, "not a primitive root: " + zs(gg));
        return "1 " + zs(gg);
    }
    if (fn == "primitive_root_list" && na == 1) {
        std::vector<RCP<const Integer>> l;
        primitive_root_list(l, *ZI(A(0)));
        Z n = zabs(A(0));
        std::vector<Z> ref;
        if (n > 1) {
            Z phi = ototient(n);
            for (Z g = 0; g < n; g = g + 1)
                if (ogcd(g, n) == 1 && is_order(g, phi, n))
                    ref.push_back(g);
        }
        bool same = ref.size() == l.size();
        for (size_t i = 0; same && i < ref.size(); i++)
            same = ref[i] == l[i]->as_integer_class();
        if (!same)
            fail(fn, "got " + listStr(l));
        return listStr(l);
    }
    if ((fn == "totient" || fn == "carmichael") && na == 1) {
        Z n = zabs(A(0));
        Z v = (fn == "totient" ? totient(ZI(A(0))) : carmichael(ZI(A(0))))->as_integer_class();
        if (n == 0) {
            if (v != 1)
                fail(fn, "convention for 0: got " + zs(v));
        } else if (n <= BRUTE_M) { // by counting / least universal exponent
            long N = mp_get_si(n);
            if (fn == "totient") {
                long c = 0;
                for (long x = 1; x <= N; x++)
                    if (ogcd(Z(x), n) == 1)
                        c++;
                if (v != c)
                    fail(fn, "got " + zs(v) + " expected " + std::to_string(c));
            } else {
                // v is the exponent: x^v = 1 for all units, and for each prime q | v some unit has x^(v/q) != 1
                bool ok = v >= 1;
                for (long x = 1; ok && x <= N; x++)
                    if (ogcd(Z(x), n) == 1 && opow(Z(x), v, n) != fmodz(Z(1), n))
                        ok = false;
                for (auto &qe : ofactor(v)) {
                    bool wit = false;
                    for (long x = 1; x <= N && !wit; x++)
                        if (ogcd(Z(x), n) == 1 && opow(Z(x), v / qe.first, n) != fmodz(Z(1), n))
                            wit = true;
                    if (!wit && n > 1)
                        ok = false;
                }
                if (!ok)
                    fail(fn, "got " + zs(v));
            }
        } else {
            if (fn == "totient" && v != ototient(n))
                fail(fn, "got " + zs(v));
            if (fn == "carmichael") {
                // divides phi, and a few units satisfy x^v = 1
                bool ok = v >= 1 && ototient(n) % v == 0;
                for (long x = 2; ok && x < 40; x++)
                    if (ogcd(Z(x), n) == 1 && opow(Z(x), v, n) != 1)
                        ok = false;
                if (!ok)
                    fail(fn, "got " + zs(v));
            }
        }
        return zs(v);
    }
    if (fn == "multiplicative_order" && na == 2) {
        RCP<const Integer> o;
        bool ok = multiplicative_order(outArg(o), ZI(A(0)), ZI(A(1)));
        Z n = zabs(A(1));
        bool unit = ogcd(A(0), n) == 1;
        if (ok != unit)
            fail(fn, "flag " + std::to_string(ok));
        if (!ok)
            return "0";
        Z oo = o->as_integer_class();
        bool good = is_order(A(0), oo, n);
        if (good && n <= BRUTE_M) { // least k by brute force
            Z k = 1;
            while (opow(A(0), k, n) != fmodz(Z(1), n))
                k = k + 1;
            good = k == oo;
        }
        if (!good)
            fail(fn, "got " + zs(oo));
        return "1 " + zs(oo);
    }
    if ((fn == "legendre" || fn == "jacobi" || fn == "kronecker") && na == 2) {
        int r = fn == "legendre" ? legendre(*ZI(A(0)), *ZI(A(1)))
                                 : (fn == "jacobi" ? jacobi(*ZI(A(0)), *ZI(A(1))) : kronecker(*ZI(A(0)), *ZI(A(1))));
        int ref = okron(A(0), A(1));
        if (ref == 2)
            stat("kronecker not oracle-checked (unfactored modulus)");
        else if (r != ref)
            fail(fn, "got " + std::to_string(r) + " expected " + std::to_string(ref));
        return std::to_string(r);
    }
    if ((fn == "nthroot_mod" || fn == "nthroot_mod_flag" || fn == "nthroot_mod_list" || fn == "is_nth_residue")
        && na == 3) {
        Z av = A(0), n = A(1), m = A(2);
        Z mm = zabs(m);
        classify(av, n, fn == "is_nth_residue" ? mm : m);
        // reference: brute force for small moduli, group-theoretic count otherwise
        Z cnt = -1;
        std::vector<Z> ref;
        bool brute = mm >= 1 && mm <= BRUTE_M && n >= 0 && n <= 100000;
        if (brute) { // native arithmetic: m <= 3000, n <= 100000
            unsigned long M = mp_get_ui(mm), am = mp_get_ui(fmodz(av, mm)), e = mp_get_ui(n);
            for (unsigned long x = 0; x < M; x++) {
                unsigned long r = 1 % M, b = x, k = e;
                while (k) {
                    if (k & 1)
                        r = r * b % M;
                    b = b * b % M;
                    k >>= 1;
                }
                if (r == am)
                    ref.push_back(Z(x));
            }
            cnt = (long)ref.size();
        } else if (mm >= 1)
            cnt = ocount_roots(av, n, mm);
        if (fn == "is_nth_residue") {
            bool r = is_nth_residue(*ZI(av), *ZI(n), *ZI(m));
            if (m == 0 ? r : (cnt >= 0 && r != (cnt > 0)))
                fail(fn, "got " + std::to_string(r) + " number of roots " + zs(cnt));
            return r ? "1" : "0";
        }
        if (fn == "nthroot_mod_list") {
            std::vector<RCP<const Integer>> l;
            nthroot_mod_list(l, ZI(av), ZI(n), ZI(m));
            if (m <= 0) {
                if (!l.empty())
                    fail(fn, "roots for a non-positive modulus");
                return listStr(l);
            }
            Z prev = -1;
            for (auto &x : l) {
                Z xv = x->as_integer_class();
                if (xv < 0 || xv >= m) {
                    fail("nthroot-range", "root " + zs(xv) + " outside [0, m)");
                    break;
                }
                if (xv <= prev) {
                    fail(fn, "not strictly ascending at " + zs(xv));
                    break;
                }
                prev = xv;
                if (opow(xv, n, m) != fmodz(av, m)) {
                    fail(fn, "not a root: " + zs(xv));
                    break;
                }
            }
            if (cnt >= 0 && Z((long)l.size()) != cnt) {
                // distinguish "classes right, representatives not reduced" from a wrong answer
                std::set<std::string> cls;
                for (auto &x : l)
                    cls.insert(zs(fmodz(x->as_integer_class(), m)));
                fail(cls.size() == (size_t)mp_get_si(cnt) ? "nthroot-range" : fn,
                     "returned " + std::to_string(l.size()) + " roots, expected " + zs(cnt));
            }
            return listStr(l);
        }
        RCP<const Integer> r;
        bool ok = nthroot_mod(outArg(r), ZI(av), ZI(n), ZI(m));
        if (m <= 0) {
            if (ok)
                fail(fn, "root for a non-positive modulus");
        } else {
            if (cnt >= 0 && ok != (cnt > 0))
                fail(fn, "flag " + std::to_string(ok) + " number of roots " + zs(cnt));
            if (ok) {
                Z rv = r->as_integer_class();
                if (opow(rv, n, m) != fmodz(av, m))
                    fail(fn, "not a root: " + zs(rv));
                else if (rv < 0 || rv >= m)
                    fail("nthroot-range", "root " + zs(rv) + " outside [0, m)");
            }
        }
        if (fn == "nthroot_mod_flag")
            return ok ? "1" : "0";
        return ok ? "1 " + zs(r->as_integer_class()) : "0";
    }
    if ((fn == "powermod" || fn == "powermod_flag" || fn == "powermod_list") && na == 4) {
        Z av = A(0), num = A(1), den = A(2), m = A(3);
        RCP<const Number> b = den == 1 ? rcp_static_cast<const Number>(ZI(num)) : Rational::from_two_ints(*ZI(num), *ZI(den));
        // canonical exponent
        Z g = ogcd(num, den);
        Z cn = num / g, cd = den / g;
        if (cd < 0) {
            cn = -cn;
            cd = -cd;
        }
        Z mm = zabs(m);
        // target t = a^cn (inverse for cn < 0), roots are x with x^cd = t
        Z base = opow(av, zabs(cn), mm);
        bool invertible = cn >= 0 || ogcd(base, mm) == 1;
        auto check_root = [&](const Z &x) {
            Z lhs = opow(x, cd, mm);
            if (cn >= 0)
                return lhs == base;
            return fmodz(lhs * base, mm) == fmodz(Z(1), mm);
        };
        if (cd > 1)
            classify(base, cd, m); // (for cn < 0 the argument is the inverse; same branch class)
        if (fn == "powermod_list") {
            std::vector<RCP<const Integer>> l;
            powermod_list(l, ZI(av), b, ZI(m));
            Z prev = -1;
            for (auto &x : l) {
                Z xv = x->as_integer_class();
                if (!invertible || !check_root(xv)) {
                    fail(fn, "not a power: " + zs(xv));
                    break;
                }
                if (xv < 0 || xv >= mm) {
                    fail("nthroot-range", "value " + zs(xv) + " outside [0, m)");
                    break;
                }
                if (xv <= prev) {
                    fail(fn, "not strictly ascending");
                    break;
                }
                prev = xv;
            }
            if (m > 0 && mm <= BRUTE_M && cd <= 100000) {
                long c = 0;
                for (Z x = 0; invertible && x < mm; x = x + 1)
                    if (check_root(x))
                        c++;
                if ((long)l.size() != c) {
                    std::set<std::string> cls;
                    for (auto &x : l)
                        cls.insert(zs(fmodz(x->as_integer_class(), mm)));
                    fail((long)cls.size() == c ? "nthroot-range" : fn,
                         "returned " + std::to_string(l.size()) + " values, expected " + std::to_string(c));
                }
            }
            return listStr(l);
        }
        RCP<const Integer> r;
        bool ok = powermod(outArg(r), ZI(av), b, ZI(m));
        if (ok) {
            Z rv = r->as_integer_class();
            if (!invertible || !check_root(rv))
                fail(fn, "not a power: " + zs(rv));
            else if (rv < 0 || rv >= mm)
                fail("nthroot-range", "value " + zs(rv) + " outside [0, m)");
        } else if (cd == 1 && invertible)
            fail(fn, "no result for an integer exponent");
        if (m > 0 && mm <= BRUTE_M && cd <= 100000) {
            bool any = false;
            for (Z x = 0; invertible && !any && x < mm; x = x + 1)
                any = check_root(x);
            if (any != ok)
                fail(fn, "flag " + std::to_string(ok));
        }
        if (fn == "powermod_flag")
            return ok ? "1" : "0";
        return ok ? "1 " + zs(r->as_integer_class()) : "0";
    }
    if (fn == "quadratic_residues" && na == 1) {
        vec_integer_class v = quadratic_residues(*ZI(A(0)));
        long n = mp_get_si(A(0));
        std::set<long> ref;
        for (long x = 0; x < n; x++)
            ref.insert(x * x % n);
        std::vector<std::string> out;
        bool ok = v.size() == ref.size();
        auto it = ref.begin();
        for (size_t i = 0; i < v.size(); i++) {
            out.push_back(zs(v[i]));
            if (ok && v[i] != Z(*it++))
                ok = false;
        }
        if (!ok)
            fail(fn, "wrong set");
        return out.empty() ? "-" : join(out, ",");
    }
    if (fn == "is_quad_residue" && na == 2) {
        bool r = is_quad_residue(*ZI(A(0)), *ZI(A(1)));
        Z p = zabs(A(1));
        if (p <= BRUTE_M) {
            bool ref = false;
            Z am = fmodz(A(0), p);
            for (Z x = 0; x < p && !ref; x = x + 1)
                ref = x * x % p == am;
            if (ref != r)
                fail(fn, "got " + std::to_string(r));
        } else {
            Z c = ocount_roots(A(0), Z(2), p);
            if (c >= 0 && r != (c > 0))
                fail(fn, "got " + std::to_string(r));
        }
        classify(fmodz(A(0), p), Z(2), p);
        return r ? "1" : "0";
    }
    if (fn == "mobius" && na == 1) {
        int mu = mobius(*ZI(A(0)));
        int ref = 1;
        for (auto &pe : ofactor(A(0)))
            ref = pe.second > 1 ? 0 : -ref;
        if (mu != ref)
            fail(fn, "got " + std::to_string(mu));
        return std::to_string(mu);
    }
    if (fn == "mertens" && na == 1) {
        unsigned long n = std::stoul(a[0]);
        long got = mertens(n), ref = 0;
        // sum_{d | k} mu(d) = [k = 1]  =>  mu by the sieve-free recursion mu(k) = [k=1] - sum_{d|k, d<k} mu(d)
        std::vector<int> mu(n + 1, 0);
        for (unsigned long k = 1; k <= n; k++) {
            int s = k == 1 ? 1 : 0;
            for (unsigned long d = 1; d * 2 <= k; d++)
                if (k % d == 0)
                    s -= mu[d];
            mu[k] = s;
            ref += s;
        }
        if (got != ref)
            fail(fn, "got " + std::to_string(got) + " expected " + std::to_string(ref));
        return std::to_string(got);
    }
    if (fn == "polygonal_number" && na == 2) {
        RCP<const Basic> r = polygonal_number(ZI(A(0)), ZI(A(1)));
        Z v = down_cast<const Integer &>(*r).as_integer_class();
        // the n-th s-gonal number: 1 + (s-1) + (2s-3) + ... : P(s,1) = 1, P(s,n) - P(s,n-1) = (s-2)(n-1) + 1
        if (2 * v != (A(0) - 2) * A(1) * A(1) - (A(0) - 4) * A(1))
            fail(fn, "got " + zs(v));
        if (A(1) >= 2) {
            Z prev = down_cast<const Integer &>(*polygonal_number(ZI(A(0)), ZI(A(1) - 1))).as_integer_class();
            if (v - prev != (A(0) - 2) * (A(1) - 1) + 1)
                fail(fn, "difference");
        }
        return zs(v);
    }
    if (fn == "principal_polygonal_root" && na == 2) {
        RCP<const Basic> r = principal_polygonal_root(ZI(A(0)), ZI(A(1)));
        Z v = down_cast<const Integer &>(*r).as_integer_class();
        // floor of the real root: P(s, v) <= x < P(s, v+1)
        auto P = [&](const Z &n) { return Z(((A(0) - 2) * n * n - (A(0) - 4) * n) / 2); };
        if (!(v >= 1 && P(v) <= A(1) && A(1) < P(v + 1)))
            fail(fn, "got " + zs(v));
        return zs(v);
    }
    if (fn == "perfect_power_decomposition" && na == 2) {
        bool lowest = a[1] != "0";
        auto pr = mp_perfect_power_decomposition(A(0), lowest);
        Z n = A(0);
        bool ok = pr.second >= 1 && ozpow(pr.first, (unsigned)mp_get_ui(pr.second)) == n;
        if (ok && n <= 2000000 && n >= 2) { // exponent extremal among all decompositions with base >= 2
            for (unsigned e = 2; (Z(1) << e) <= n; e++) {
                integer_class root;
                bool exact = mp_root(root, n, e);
                if (exact && (lowest ? (pr.second == 1 || Z(e) < pr.second) : Z(e) > pr.second))
                    ok = false;
            }
        }
        if (!ok)
            fail(fn, "got " + zs(pr.first) + "^" + zs(pr.second));
        return zs(pr.first) + " " + zs(pr.second);
    }
    if (fn == "perfect_power_p" && na == 1) {
        bool r = mp_perfect_power_p(A(0));
        Z n = A(0);
        bool ref = n <= 1;
        for (unsigned e = 2; !ref && (Z(1) << e) <= n; e++)
            for (Z b = 2; ozpow(b, e) <= n; b = b + 1)
                if (ozpow(b, e) == n)
                    ref = true;
        if (n <= 100000 && r != ref)
            fail(fn, "got " + std::to_string(r));
        return r ? "1" : "0";
    }
    if ((fn == "primepi" || fn == "primorial") && na == 1) {
        RCP<const Basic> r = fn == "primepi" ? primepi(ZI(A(0))) : primorial(ZI(A(0)));
        Z v = down_cast<const Integer &>(*r).as_integer_class();
        Z cnt = 0, prod = 1;
        for (Z x = 2; x <= A(0); x = x + 1)
            if (oprime(x)) {
                cnt = cnt + 1;
                prod = prod * x;
            }
        if (v != (fn == "primepi" ? cnt : prod))
            fail(fn, "got " + zs(v));
        return zs(v);
    }
    return "bad-op";
}

std::string hx_run(const std::string &line, std::string &oracle)
{
    auto w = split(line, ' ');
    if (w.size() < 3)
        return "bad-op";
    Fail fail{oracle, line};
    const std::string &kind = w[0], &fn = w[1];
    std::vector<std::string> args(w.begin() + 2, w.end());
    if (kind == "nt" || kind == "spec") {
        stat("calls");
        return run_nt(fn, args, fail);
    }
    if (kind == "sw" || kind == "swspec") {
        if (args.size() < 2)
            return "bad-op";
        long lo = std::stol(args[args.size() - 2]), hi = std::stol(args[args.size() - 1]);
        std::vector<std::string> mid(args.begin(), args.end() - 2);
        std::vector<std::string> outs;
        for (long x = lo; x <= hi; x++) {
            std::vector<std::string> a2;
            a2.push_back(std::to_string(x));
            a2.insert(a2.end(), mid.begin(), mid.end());
            std::string o;
            std::string sub = "nt " + fn + " " + join(a2, " ");
            Fail f2{oracle, sub};
            try {
                o = run_nt(fn, a2, f2);
            } catch (const VerifAssertError &e) {
                o = "E:Assert";
                f2("assert", e.what());
            } catch (const std::exception &e) {
                o = exc_name(e);
            }
            stat("calls");
            outs.push_back(o);
        }
        return join(outs, "|");
    }
    return "bad-op";
}

// ---------------------------------------------------------------- generation

static std::string rbits(Rng &r, unsigned bits, bool allow_neg = true)
{
    Z v = 0;
    for (unsigned i = 0; i < bits; i += 32)
        v = (v << 32) + Z((unsigned long)(r.next() & 0xffffffffULL));
    v = v % (Z(1) << bits);
    if (allow_neg && r.coin(1, 3))
        v = -v;
    return zs(v);
}
static unsigned pickbits(Rng &r)
{
    static const unsigned b[] = {8, 16, 31, 32, 33, 63, 64, 65, 96, 128, 192, 256};
    return b[r.below(12)];
}
static std::vector<unsigned long> g_small_primes, g_big_primes_ts, g_big_primes_nots;
static void init_primes();
static unsigned long g_small_primes_at(Rng &r);
static void init_primes()
{
    if (!g_small_primes.empty())
        return;
    for (unsigned long p = 2; p < 400; p++)
        if (oprime(Z(p)))
            g_small_primes.push_back(p);
    for (unsigned long p = 10001; g_big_primes_ts.size() < 60 || g_big_primes_nots.size() < 60; p += 2) {
        if (!oprime(Z(p)))
            continue;
        if (p % 8 == 1) {
            if (g_big_primes_ts.size() < 60)
                g_big_primes_ts.push_back(p);
        } else if (g_big_primes_nots.size() < 60)
            g_big_primes_nots.push_back(p);
    }
    // a few much larger primes (trial division up to 10^6 on both sides)
    for (unsigned long p : {1000003UL, 999983UL, 2147483647UL, 1000000007UL, 4294967291UL, 1099511627791UL}) {
        if (p % 8 == 1)
            g_big_primes_ts.push_back(p);
        else
            g_big_primes_nots.push_back(p);
    }
    for (unsigned long p : {1000033UL, 65537UL, 786433UL, 1000000009UL, 7681UL + 0, 12289UL, 40961UL})
        if (oprime(Z(p)) && p % 8 == 1 && p > 10000)
            g_big_primes_ts.push_back(p);
}
static unsigned long g_small_primes_at(Rng &r)
{
    init_primes();
    return r.pick(g_small_primes);
}
// a modulus made of a few prime powers; `ts` allows primes that send sqrt to Tonelli-Shanks
static Z rand_modulus(Rng &r, bool ts, bool big)
{
    init_primes();
    Z m = 1;
    int nf = 1 + (int)r.below(3);
    for (int i = 0; i < nf; i++) {
        unsigned long p;
        unsigned k = 1;
        unsigned c = r.below(10);
        if (c < 2) {
            p = 2;
            k = 1 + r.below(9);
        } else if (c < 7 || !big) {
            p = r.pick(g_small_primes);
            k = 1 + (p < 12 ? r.below(5) : r.below(2));
        } else {
            p = ts && r.coin() ? r.pick(g_big_primes_ts) : r.pick(g_big_primes_nots);
            k = 1 + (r.coin(1, 5) && p < 100000 ? 1 : 0);
        }
        if (m % Z(p) == 0)
            continue;
        Z pk = ozpow(Z(p), k);
        if (m * pk > (Z(1) << 44))
            continue;
        m = m * pk;
    }
    return m;
}
// an exponent correlated with the group orders of the modulus (so that gcd(n, p-1) is non-trivial)
static Z rand_exponent(Rng &r, const Z &m)
{
    Z n = 1;
    auto f = ofactor(m);
    unsigned c = r.below(10);
    if (c < 3)
        return Z((unsigned long)(1 + r.below(12)));
    for (auto &pe : f) {
        if (r.coin(2, 3)) {
            auto g = ofactor(pe.first - 1);
            if (!g.empty()) {
                auto &qe = g[r.below(g.size())];
                n = n * ozpow(qe.first, 1 + r.below(qe.second));
            }
        }
        if (r.coin(1, 4))
            n = n * pe.first;
    }
    if (r.coin(1, 3))
        n = n * Z((unsigned long)(1 + r.below(6)));
    if (n > (Z(1) << 40))
        n = Z((unsigned long)(1 + r.below(1000)));
    return n;
}
// a residue that is an n-th power with good probability
static Z rand_residue(Rng &r, const Z &n, const Z &m)
{
    Z x = zof(rbits(r, 64, false));
    unsigned c = r.below(10);
    if (c < 5)
        return opow(x, n, m) + (r.coin(1, 4) ? Z(m * Z((unsigned long)r.below(5))) : Z(0));
    if (c < 6)
        return Z(0);
    if (c < 8) { // divisible by a prime of m
        auto f = ofactor(m);
        auto &pe = f[r.below(f.size())];
        Z y = opow(x, n, m);
        return y * ozpow(pe.first, (unsigned)r.below(pe.second + 2)) % m;
    }
    return r.coin(1, 4) ? Z(-(x % m)) : Z(x % m);
}

void hx_gen(Rng &r, const std::string &tier)
{
    bool th = tier == "thorough";
    auto S = [](long x) { return std::to_string(x); };
    // ---- exhaustive sweeps: modular roots, powers, residues
    long M = th ? 200 : 60, N = th ? 12 : 8;
    for (long m = 1; m <= M; m++) {
        bool wide = m <= (th ? 64 : 24); // negative a and a >= m for the smaller moduli
        long lo = wide ? -m : 0, hi = wide ? 2 * m - 1 : m - 1;
        for (long n = 1; n <= N; n++) {
            emit("sw nthroot_mod_list " + S(n) + " " + S(m) + " " + S(lo) + " " + S(hi), "ex-nthroot-list");
            emit("sw nthroot_mod " + S(n) + " " + S(m) + " " + S(lo) + " " + S(hi), "ex-nthroot");
            emit("sw is_nth_residue " + S(n) + " " + S(m) + " " + S(lo) + " " + S(hi), "ex-nthres");
            emit("swspec nthroot_mod_list " + S(n) + " " + S(m) + " 0 " + S(m - 1), "spec-nthroot-list");
            emit("swspec is_nth_residue " + S(n) + " " + S(m) + " " + S(lo) + " " + S(hi), "spec-nthres");
            emit("swspec nthroot_mod_flag " + S(n) + " " + S(m) + " 0 " + S(m - 1), "spec-nthroot-flag");
        }
        emit("sw is_nth_residue 2 " + S(-m) + " " + S(-m) + " " + S(m), "ex-nthres-negmod");
        emit("sw is_quad_residue " + S(m) + " " + S(-2 * m) + " " + S(3 * m), "ex-quadres");
        emit("sw is_quad_residue " + S(-m) + " " + S(-m) + " " + S(2 * m), "ex-quadres");
        emit("swspec is_quad_residue " + S(m) + " " + S(-m) + " " + S(2 * m), "spec-quadres");
        emit("sw multiplicative_order " + S(m) + " " + S(-m - 2) + " " + S(2 * m + 2), "ex-order");
        emit("sw multiplicative_order " + S(-m) + " 0 " + S(m), "ex-order");
        emit("swspec multiplicative_order " + S(m) + " " + S(-m) + " " + S(2 * m), "spec-order");
        emit("sw mod_inverse " + S(m) + " " + S(-2 * m) + " " + S(2 * m), "ex-modinv");
        emit("sw mod_inverse " + S(-m) + " " + S(-m) + " " + S(m), "ex-modinv");
        emit("swspec mod_inverse " + S(m) + " " + S(-m) + " " + S(2 * m), "spec-modinv");
        for (const char *f : {"kronecker", "jacobi", "legendre"}) {
            emit(std::string("sw ") + f + " " + S(m) + " " + S(-m - 8) + " " + S(m + 8), "ex-kronecker");
            emit(std::string("sw ") + f + " " + S(-m) + " " + S(-m - 8) + " " + S(m + 8), "ex-kronecker");
        }
        emit("swspec kronecker " + S(m) + " " + S(-m - 8) + " " + S(m + 8), "spec-kronecker");
        emit("swspec kronecker " + S(-m) + " " + S(-m - 8) + " " + S(m + 8), "spec-kronecker");
        // powermod: integer exponents -6..6 and rational exponents num/den
        for (long e = -6; e <= 6; e++) {
            emit("sw powermod " + S(e) + " 1 " + S(m) + " " + S(-m) + " " + S(m), "ex-powermod-int");
            emit("sw powermod_list " + S(e) + " 1 " + S(m) + " 0 " + S(m - 1), "ex-powermod-int");
        }
        if (m <= (th ? 120 : 40))
            for (long den = 2; den <= (th ? 6 : 4); den++)
                for (long num = -3; num <= 5; num++) {
                    emit("sw powermod " + S(num) + " " + S(den) + " " + S(m) + " 0 " + S(m - 1), "ex-powermod-rat");
                    emit("sw powermod_list " + S(num) + " " + S(den) + " " + S(m) + " 0 " + S(m - 1),
                         "ex-powermod-rat");
                    if (num >= 0)
                        emit("swspec powermod_list " + S(num) + " " + S(den) + " " + S(m) + " 0 " + S(m - 1),
                             "spec-powermod");
                }
    }
    emit("sw kronecker 0 -20 20", "ex-kronecker");
    emit("sw nthroot_mod_list 2 0 0 5", "ex-nthroot-badmod");
    emit("sw nthroot_mod 2 -7 0 5", "ex-nthroot-badmod");
    emit("sw is_nth_residue 2 0 0 5", "ex-nthroot-badmod");
    // ---- one-argument arithmetic functions over an interval
    long R = th ? 3000 : 600;
    for (const char *f : {"totient", "carmichael", "primitive_root", "primitive_root_list", "pfm", "prime_factors"}) {
        long lim = std::string(f) == "primitive_root_list" ? (th ? 700 : 250) : R;
        for (long lo = -lim; lo <= lim; lo += 100)
            emit(std::string("sw ") + f + " " + S(lo) + " " + S(std::min(lo + 99, lim)), std::string("ex-") + f);
    }
    long RS = th ? 400 : 150;
    for (const char *f : {"totient", "carmichael", "primitive_root_list", "pfm", "mobius", "quadratic_residues",
                          "probab_prime_p", "nextprime", "primepi", "primorial"})
        emit(std::string("swspec ") + f + " " + (std::string(f) == "mobius" || std::string(f) == "quadratic_residues" || std::string(f) == "primorial" ? "1" : S(-RS / 4)) + " "
                 + S(RS),
             std::string("spec-") + f);
    emit("swspec mertens 0 " + S(RS), "spec-mertens");
    emit("swspec perfect_power_decomposition 0 0 " + S(RS), "spec-perfect-power");
    emit("swspec perfect_power_decomposition 1 0 " + S(RS), "spec-perfect-power");
    for (long lo = -5; lo <= R; lo += 200) {
        emit("sw mobius " + S(lo) + " " + S(lo + 199), "ex-mobius");
        emit("sw quadratic_residues " + S(lo) + " " + S(std::min(lo + 199, th ? 1200L : 400L)), "ex-quadres-list");
        emit("sw probab_prime_p " + S(lo) + " " + S(lo + 199), "ex-prime");
        emit("sw nextprime " + S(lo) + " " + S(lo + 199), "ex-prime");
        emit("sw factor " + S(std::max(lo, 0L)) + " " + S(lo + 199), "ex-factor");
        emit("sw factor_trial_division " + S(std::max(lo, 0L)) + " " + S(lo + 199), "ex-factor");
        emit("sw factor_lehman " + S(std::max(lo, 15L)) + " " + S(lo + 199), "ex-factor");
        emit("sw perfect_power_decomposition 0 " + S(std::max(lo, 0L)) + " " + S(lo + 199), "ex-perfect-power");
        emit("sw perfect_power_decomposition 1 " + S(std::max(lo, 0L)) + " " + S(lo + 199), "ex-perfect-power");
        emit("sw perfect_power_p " + S(std::max(lo, 0L)) + " " + S(lo + 199), "ex-perfect-power");
    }
    emit("sw mertens 0 " + S(th ? 600 : 200), "ex-mertens");
    emit("sw primepi -3 " + S(th ? 2000 : 500), "ex-primepi");
    emit("sw primorial -2 " + S(th ? 400 : 120), "ex-primorial");
    emit("sw fibonacci 0 " + S(th ? 600 : 200), "ex-fib");
    emit("sw fibonacci2 0 " + S(th ? 600 : 200), "ex-fib");
    emit("sw lucas 0 " + S(th ? 600 : 200), "ex-fib");
    emit("sw lucas2 0 " + S(th ? 600 : 200), "ex-fib");
    emit("sw factorial 0 " + S(th ? 300 : 100), "ex-factorial");
    emit("sw bernoulli 0 " + S(th ? 80 : 40), "ex-bernoulli");
    for (long m = -4; m <= 5; m++)
        emit("sw harmonic " + S(m) + " 0 " + S(th ? 80 : 30), "ex-harmonic");
    for (long k = 0; k <= (th ? 30 : 14); k++)
        emit("sw binomial " + S(k) + " " + S(th ? -40 : -20) + " " + S(th ? 60 : 30), "ex-binomial");
    for (long s = 0; s <= (th ? 40 : 14); s++) {
        emit("sw polygonal_number " + S(s) + " -1 " + S(th ? 60 : 25), "ex-polygonal");
    }
    // (polygonal: first argument is s, the sweep variable must be first: use explicit calls)
    for (long s = 1; s <= (th ? 30 : 10); s++)
        for (long n = 0; n <= (th ? 40 : 15); n++) {
            emit("nt polygonal_number " + S(s) + " " + S(n), "ex-polygonal");
            emit("nt principal_polygonal_root " + S(s) + " " + S(n), "ex-polygonal");
        }
    for (long d = -12; d <= 12; d++) {
        if (d == 0)
            continue;
        for (const char *f : {"mod", "quotient", "quotient_mod", "mod_f", "quotient_f", "quotient_mod_f"})
            emit(std::string("sw ") + f + " " + S(d) + " -40 40", "ex-divmod");
        emit("sw divides " + S(d) + " -40 40", "ex-divides");
    }
    emit("sw divides 0 -3 3", "ex-divides");
    for (long b = -30; b <= 30; b++) {
        emit("sw gcd " + S(b) + " -30 30", "ex-gcd");
        emit("sw lcm " + S(b) + " -30 30", "ex-gcd");
        emit("sw gcd_ext " + S(b) + " -30 30", "ex-gcd");
    }
    // crt: all residue pairs for small moduli (including non-coprime and a negative modulus)
    for (long m1 = 1; m1 <= (th ? 14 : 8); m1++)
        for (long m2 = 1; m2 <= (th ? 14 : 8); m2++)
            for (long r1 = 0; r1 < m1; r1++)
                for (long r2 = -1; r2 <= m2; r2++)
                    emit("nt crt " + S(r1) + "," + S(r2) + " " + S(m1) + "," + S(m2), "ex-crt");
    emit("nt crt 7 4", "ex-crt");
    emit("nt crt 2,4 -4,6", "ex-crt");
    emit("nt crt 2,4 4,-6", "ex-crt");
    emit("nt crt 1,2,3,9 5,7,9", "ex-crt");
    emit("nt crt 1 5,7", "ex-crt");
    emit("nt crt - -", "ex-crt");

    // ---- random large arguments, checked through the defining identities
    int K = th ? 1500 : 250;
    for (int i = 0; i < K; i++) {
        unsigned b1 = pickbits(r), b2 = pickbits(r);
        std::string x = rbits(r, b1), y = rbits(r, b2);
        std::string ynz = y == "0" || y == "-0" ? "7" : y;
        emit("nt gcd " + x + " " + y, "rnd-gcd");
        emit("nt lcm " + x + " " + y, "rnd-gcd");
        emit("nt gcd_ext " + x + " " + y, "rnd-gcd");
        emit("nt mod_inverse " + x + " " + ynz, "rnd-modinv");
        // an invertible pair: modulus a prime power or product, argument coprime by construction
        emit("nt mod_inverse " + zs(zof(x) * 2 + 1) + " " + zs(Z(1) << b2), "rnd-modinv");
        const char *dm[] = {"mod", "quotient", "quotient_mod", "mod_f", "quotient_f", "quotient_mod_f"};
        emit(std::string("nt ") + dm[r.below(6)] + " " + x + " " + ynz, "rnd-divmod");
        emit("nt divides " + zs(zof(x) * zof(ynz)) + " " + (r.coin() ? x : ynz), "rnd-divides");
        emit("nt divides " + x + " " + ynz, "rnd-divides");
        // Jacobi/Kronecker
        emit("nt kronecker " + x + " " + y, "rnd-kronecker-any");
        emit("nt jacobi " + x + " " + zs(zabs(zof(y)) * 2 + 1), "rnd-kronecker-any");
        {
            // modulus = +-2^e * small primes * Mersenne primes: Euler's criterion applies to every factor
            Z n = r.coin(1, 4) ? Z(-1) : Z(1);
            if (r.coin(1, 3))
                n = n * (Z(1) << (unsigned)r.below(5));
            int nf = 1 + (int)r.below(3);
            for (int j = 0; j < nf; j++)
                n = n * (r.coin() ? Z(std::string(KNOWN_BIG_PRIMES[r.below(5)])) : Z((unsigned long)g_small_primes_at(r)));
            const char *fns[] = {"kronecker", "jacobi", "legendre"};
            emit(std::string("nt ") + fns[r.below(3)] + " " + x + " " + zs(n), "rnd-kronecker-euler");
        }
        // powermod with integer exponents of both signs
        std::string e = rbits(r, pickbits(r));
        emit("nt powermod " + x + " " + e + " 1 " + ynz, "rnd-powermod-int");
        emit("nt powermod_list " + x + " " + e + " 1 " + ynz, "rnd-powermod-int");
        emit("nt powermod " + zs(zof(x) * 2 + 1) + " " + e + " 1 " + zs(Z(1) << (b2 + 1)), "rnd-powermod-int");
        // crt with 2-4 random moduli (coprime by construction or arbitrary)
        {
            int cnt = 2 + (int)r.below(3);
            std::vector<std::string> rs, ms;
            Z sol = zof(rbits(r, 200, false));
            bool consistent = r.coin(2, 3);
            for (int j = 0; j < cnt; j++) {
                Z m = zabs(zof(rbits(r, 16 + 16 * (unsigned)r.below(6), false))) + 2;
                ms.push_back(zs(m));
                rs.push_back(consistent ? zs(sol % m) : rbits(r, 40));
            }
            emit("nt crt " + join(rs, ",") + " " + join(ms, ","), consistent ? "rnd-crt-solvable" : "rnd-crt-any");
        }
        emit("nt binomial " + rbits(r, 8 + (unsigned)r.below(60)) + " " + S((long)r.below(40)), "rnd-binomial");
        emit("nt polygonal_number " + rbits(r, 8 + (unsigned)r.below(120), false) + " " + rbits(r, 8 + (unsigned)r.below(120), false), "rnd-polygonal");
        emit("nt principal_polygonal_root " + zs(zof(rbits(r, 8 + (unsigned)r.below(60), false)) + 3) + " " + zs(zof(rbits(r, 8 + (unsigned)r.below(160), false)) + 1), "rnd-polygonal");
        emit("nt perfect_power_decomposition " + zs(ozpow(zof(rbits(r, 4 + (unsigned)r.below(24), false)) + 2, 1 + (unsigned)r.below(9))) + " " + S((long)r.below(2)), "rnd-perfect-power");
    }
    // modular roots with structured moduli
    int KR = th ? 6000 : 900;
    for (int i = 0; i < KR; i++) {
        bool big = r.coin(1, 2);
        unsigned kind = r.below(10);
        bool ts = kind >= 4; // single-root ops must stay away from Tonelli-Shanks primes
        Z m = rand_modulus(r, ts, big);
        if (m < 2)
            continue;
        Z n = rand_exponent(r, m);
        Z av = rand_residue(r, n, m);
        std::string args = zs(av) + " " + zs(n) + " " + zs(m);
        // the number of roots must stay printable
        Z cnt = 1;
        for (auto &pe : ofactor(m))
            cnt = cnt * ogcd(n, ozpow(pe.first, pe.second) / pe.first * (pe.first - 1)) * (av % pe.first == 0 ? ozpow(pe.first, pe.second) : Z(1));
        if (kind < 4)
            emit("nt nthroot_mod " + args, "rnd-nthroot");
        else if (kind < 6)
            emit("nt nthroot_mod_flag " + args, "rnd-nthroot-flag");
        else if (kind < 9 && cnt <= 4000)
            emit("nt nthroot_mod_list " + args, "rnd-nthroot-list");
        else
            emit("nt is_nth_residue " + args, "rnd-nthres");
        if (r.coin(1, 4)) {
            std::string num = S(r.range(-4, 9));
            if (kind < 4)
                emit("nt powermod " + zs(av) + " " + num + " " + zs(n) + " " + zs(m), "rnd-powermod-rat");
            else if (cnt <= 4000)
                emit("nt powermod_list " + zs(av) + " " + num + " " + zs(n) + " " + zs(m), "rnd-powermod-rat");
            else
                emit("nt powermod_flag " + zs(av) + " " + num + " " + zs(n) + " " + zs(m), "rnd-powermod-rat");
        }
        if (r.coin(1, 6))
            emit("nt is_quad_residue " + zs(av) + " " + zs(r.coin(1, 5) ? Z(-m) : m), "rnd-quadres");
        if (r.coin(1, 6)) {
            emit("nt multiplicative_order " + zs(av + 1) + " " + zs(m), "rnd-order");
            emit("nt totient " + zs(m), "rnd-totient");
            emit("nt carmichael " + zs(m), "rnd-totient");
            emit("nt primitive_root " + zs(m), "rnd-proot");
            emit("nt pfm " + zs(r.coin() ? m : Z(-m)), "rnd-pfm");
            emit("nt mobius " + zs(m), "rnd-mobius");
        }
        if (r.coin(1, 10)) {
            // primitive roots exist: p^k and 2p^k
            init_primes();
            unsigned long p = r.coin() ? r.pick(g_small_primes) : (r.coin() ? r.pick(g_big_primes_ts) : r.pick(g_big_primes_nots));
            if (p == 2)
                p = 3;
            Z pk = ozpow(Z(p), 1 + (unsigned)r.below(p < 50 ? 5 : 2));
            if (pk < (Z(1) << 43)) {
                emit("nt primitive_root " + zs(pk), "rnd-proot");
                emit("nt primitive_root " + zs(pk * 2), "rnd-proot");
                emit("nt multiplicative_order " + S(2 + (long)r.below(50)) + " " + zs(pk * (r.coin() ? 2 : 1)), "rnd-order");
            }
        }
        if (r.coin(1, 12)) {
            Z c = m < 21 ? Z(m + 21) : m;
            emit("nt factor_lehman " + zs(c), "rnd-factor");
            emit("nt factor " + zs(c), "rnd-factor");
            emit("nt factor_pm1 " + zs(c) + " " + S(3 + (long)r.below(60)) + " " + S(1 + (long)r.below(6)), "rnd-factor-random");
            emit("nt factor_rho " + zs(c) + " " + S(1 + (long)r.below(6)), "rnd-factor-random");
        }
    }
}
