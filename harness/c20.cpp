// C20: deserialising untrusted bytes is memory-safe.
//
// ops (the Lean driver runs in certificate-checking mode, see lean/SymVerif/Model/CodecDrv.lean)
//   ld <hex>       Basic::loads(bytes): canonical dump of the result, or the exception token
//   mld <hex>      DenseMatrix::loads(bytes): "<r> <c> <dump>…" or the exception token
//   deep <tc> <n>  (oracle only) a stream nesting n one-argument objects of type code tc around a symbol
//
// loads and the post-load operations run in-process (a crash there is caught by the runner, which restarts the
// harness and reports FAIL:crash with the sanitizer's diagnostic).  Only the cases that are *known* to crash run
// in a forked child (fork costs ~100 ms in this sandbox): objects containing an argument-less And/Or/Xor/Union/
// Piecewise/Max/Min, and the `deep` streams; the child's crash is attributed to its stage by the oracle text.
// Oracle: loads returns or throws a C++ exception; anything it returns survives vsexp::dump, __str__, hash,
// __cmp__/eq with itself, eval_double and dumps (exceptions are fine, crashes and failed assertions are not).
// Allocation guard: see c19_gen.h (single allocations above 16 MiB throw std::bad_alloc -> E:BadAlloc);
// std::length_error from resize() and cereal::Exception outside load_rcp_basic map to E:Other.
#include "c19_gen.h"
#include <symengine/serialize-cereal.h>
#include <sys/wait.h>
#include <signal.h>

using namespace SymEngine;
using namespace c19;

// classes whose printers / evaluators index into an argument container without checking it is non-empty
static void degenerate(const Basic &b, std::set<std::string> &out, int depth = 0)
{
    if (depth > 200)
        return;
    TypeID t = b.get_type_code();
    if (t == SYMENGINE_ADD) {
        const Add &x = down_cast<const Add &>(b);
        for (auto &p : x.get_dict()) {
            degenerate(*p.first, out, depth + 1);
            degenerate(*p.second, out, depth + 1);
        }
        return;
    }
    if (t == SYMENGINE_MUL) {
        const Mul &x = down_cast<const Mul &>(b);
        for (auto &p : x.get_dict()) {
            degenerate(*p.first, out, depth + 1);
            degenerate(*p.second, out, depth + 1);
        }
        return;
    }
    vec_basic a = b.get_args();
    if (a.empty()
        && (t == SYMENGINE_AND || t == SYMENGINE_OR || t == SYMENGINE_XOR || t == SYMENGINE_UNION
            || t == SYMENGINE_PIECEWISE || t == SYMENGINE_MAX || t == SYMENGINE_MIN))
        out.insert(type_code_name(t) + "/0");
    for (auto &x : a)
        degenerate(*x, out, depth + 1);
}

static void wr(int fd, const std::string &s)
{
    std::string t = s + "\n";
    size_t off = 0;
    while (off < t.size()) {
        ssize_t k = write(fd, t.data() + off, t.size() - off);
        if (k <= 0)
            break;
        off += (size_t)k;
    }
}

static std::string mat_str(const DenseMatrix &m)
{
    std::string o = std::to_string(m.nrows()) + " " + std::to_string(m.ncols());
    vec_basic v = m.as_vec_basic();
    if (v.size() != (size_t)m.nrows() * m.ncols())
        return o + " MISMATCH " + std::to_string(v.size()); // rows*cols is not validated against the vector
    for (auto &e : v)
        o += " " + vsexp::dump(e);
    return o;
}

// post-load operations on one object; reports the stage before entering it
static void post_ops(int fd, const RCP<const Basic> &l)
{
    auto stage = [&](const char *s) { wr(fd, std::string("STAGE ") + s); };
    auto guard = [&](const char *name, const std::function<void()> &f) {
        stage(name);
        try {
            f();
        } catch (const VerifAssertError &e) {
            wr(fd, std::string("ORACLE FAIL:postop-assert:") + name + ": " + e.what());
        } catch (const std::exception &) {
        }
    };
    guard("str", [&] { (void)l->__str__(); });
    guard("hash", [&] { (void)l->hash(); });
    guard("cmp", [&] {
        if (l->__cmp__(*l) != 0)
            wr(fd, "NOTE cmp-self-nonzero");
    });
    guard("eq", [&] { (void)eq(*l, *l); });
    guard("eval", [&] { (void)eval_double(*l); });
    guard("redump", [&] { (void)l->dumps(); });
    stage("done");
}

static std::string deep_stream(int tc, long n)
{
    SB sb;
    std::string b = SB::hdr();
    for (long i = 0; i < n; i++)
        b += SB::u64(0x7000000000000000ULL + 16 * (uint64_t)i) + std::string(1, '\x01') + std::string(1, char(tc));
    return b + sb.S("x");
}

// child body: returns through the pipe
static void child_main(int fd, const std::string &op, const std::string &rest)
{
    alarm(600);
    try {
        if (op == "ld" || op == "deep") {
            std::string bytes;
            if (op == "ld")
                bytes = unhex(rest);
            else {
                auto w = split(rest, ' ');
                bytes = deep_stream(std::stoi(w.at(0)), std::stol(w.at(1)));
            }
            wr(fd, "STAGE load");
            RCP<const Basic> l;
            try {
                l = Basic::loads(bytes);
            } catch (const VerifAssertError &e) {
                wr(fd, "OUT E:Assert");
                wr(fd, std::string("ORACLE FAIL:noncanon:loads aborts on a failed assertion: ") + e.what());
                return;
            } catch (const std::exception &e) {
                wr(fd, "OUT " + exc_name(e));
                return;
            }
            if (op == "deep") {
                wr(fd, "OUT loaded");
                post_ops(fd, l);
                return;
            }
            std::set<std::string> deg;
            wr(fd, "STAGE degenerate-scan");
            degenerate(*l, deg);
            std::string dl;
            for (auto &d : deg)
                dl += (dl.empty() ? "" : ",") + d;
            wr(fd, "DEG " + dl);
            wr(fd, "STAGE dump");
            wr(fd, "OUT " + vsexp::dump(l));
            post_ops(fd, l);
        } else if (op == "mld") {
            wr(fd, "STAGE load");
            try {
                DenseMatrix m = DenseMatrix::loads(unhex(rest));
                wr(fd, "STAGE dump");
                wr(fd, "OUT " + mat_str(m));
                wr(fd, "STAGE str");
                try {
                    (void)m.__str__();
                } catch (const std::exception &) {
                }
                wr(fd, "STAGE done");
            } catch (const VerifAssertError &e) {
                wr(fd, "OUT E:Assert");
                wr(fd, std::string("ORACLE FAIL:noncanon:loads aborts on a failed assertion: ") + e.what());
            } catch (const std::exception &e) {
                wr(fd, "OUT " + exc_name(e));
            }
        } else
            wr(fd, "OUT bad-op");
    } catch (const std::exception &e) {
        wr(fd, std::string("OUT E:Harness:") + e.what());
    }
}

static void inproc_post(const RCP<const Basic> &l, std::string &oracle)
{
    auto guard = [&](const char *name, const std::function<void()> &f) {
        try {
            f();
        } catch (const VerifAssertError &e) {
            if (oracle == "ok")
                oracle = std::string("FAIL:postop-assert:") + name + ": " + e.what();
        } catch (const std::exception &) {
        }
    };
    guard("str", [&] { (void)l->__str__(); });
    guard("hash", [&] { (void)l->hash(); });
    guard("cmp", [&] { (void)l->__cmp__(*l); });
    guard("eq", [&] { (void)eq(*l, *l); });
    guard("eval", [&] { (void)eval_double(*l); });
    guard("redump", [&] { (void)l->dumps(); });
}

std::string hx_run(const std::string &line, std::string &oracle)
{
    size_t sp = line.find(' ');
    std::string op = line.substr(0, sp), rest = sp == std::string::npos ? "" : line.substr(sp + 1);
    if (op == "ld" || op == "mld") {
        alarm(40);
        struct Disarm {
            ~Disarm()
            {
                alarm(0);
            }
        } disarm;
        std::string out;
        try {
            if (op == "mld") {
                DenseMatrix m = DenseMatrix::loads(unhex(rest));
                out = mat_str(m);
                if (out.find(" MISMATCH ") != std::string::npos)
                    oracle = "FAIL:matrix-shape:DenseMatrix::loads returns a matrix whose element vector does not have rows*cols entries: " + out;
                else {
                    try {
                        (void)m.__str__();
                    } catch (const VerifAssertError &e) {
                        oracle = std::string("FAIL:postop-assert:str: ") + e.what();
                    } catch (const std::exception &) {
                    }
                }
                stat("result_loaded");
                return out;
            }
            RCP<const Basic> l = Basic::loads(unhex(rest));
            std::set<std::string> deg;
            degenerate(*l, deg);
            if (deg.empty()) {
                out = vsexp::dump(l);
                inproc_post(l, oracle);
                stat("result_loaded");
                return out;
            }
            // fall through to the forked execution
        } catch (const VerifAssertError &e) {
            oracle = std::string("FAIL:noncanon:loads aborts on a failed assertion: ") + e.what();
            stat("result_E:Assert");
            return "E:Assert";
        } catch (const std::exception &e) {
            out = exc_name(e);
            stat("result_" + out);
            return out;
        }
    }
    int pfd[2], efd[2];
    if (pipe(pfd) != 0 || pipe(efd) != 0)
        return "E:Harness:pipe";
    fflush(stdout);
    std::cout.flush();
    pid_t pid = fork();
    if (pid == 0) {
        close(pfd[0]);
        close(efd[0]);
        dup2(efd[1], 2);
        child_main(pfd[1], op, rest);
        _exit(0);
    }
    close(pfd[1]);
    close(efd[1]);
    auto slurp = [](int fd) {
        std::string s;
        char buf[65536];
        ssize_t k;
        while ((k = read(fd, buf, sizeof buf)) > 0)
            s.append(buf, (size_t)k);
        close(fd);
        return s;
    };
    std::string data = slurp(pfd[0]);
    std::string err = slurp(efd[0]);
    int status = 0;
    waitpid(pid, &status, 0);
    std::string out = "", stage = "start", deg, orc;
    for (auto &l : split(data, '\n')) {
        if (l.compare(0, 6, "STAGE ") == 0)
            stage = l.substr(6);
        else if (l.compare(0, 4, "OUT ") == 0)
            out = l.substr(4);
        else if (l.compare(0, 4, "DEG ") == 0)
            deg = l.substr(4);
        else if (l.compare(0, 7, "ORACLE ") == 0 && orc.empty())
            orc = l.substr(7);
    }
    bool died = !(WIFEXITED(status) && WEXITSTATUS(status) == 0);
    if (died && WIFSIGNALED(status) && WTERMSIG(status) == SIGALRM) {
        // the child's watchdog fired (slow sanitizer build / loaded machine): inconclusive, not a crash
        stat("child_timeouts");
        if (out.empty())
            out = "TIMEOUT:" + stage;
    } else if (died) {
        std::string why = WIFSIGNALED(status) ? "signal " + std::to_string(WTERMSIG(status))
                                              : "exit " + std::to_string(WEXITSTATUS(status));
        // the sanitizer's first diagnostic line, if any
        std::string diag;
        for (auto &l : split(err, '\n'))
            if (l.find("runtime error") != std::string::npos || l.find("ERROR: AddressSanitizer") != std::string::npos) {
                diag = l.substr(0, 300);
                break;
            }
        if (op == "deep")
            oracle = "FAIL:stack:" + why + " in stage " + stage + " on a stream nesting " + rest + " objects";
        else if (stage == "load" || stage == "start")
            oracle = "FAIL:load-crash:" + why + " inside loads; " + diag;
        else
            oracle = "FAIL:postop-crash:" + stage + ": " + why + " degenerate=[" + deg + "] " + diag + " object=" + out.substr(0, 200);
        if (out.empty())
            out = "CRASH:" + stage;
        stat("child_crashes");
    } else if (!orc.empty())
        oracle = orc;
    if (out.compare(0, 2, "E:") == 0)
        stat("result_" + out);
    else if (out.compare(0, 5, "CRASH") != 0)
        stat("result_loaded");
    if (!deg.empty())
        stat("degenerate_loaded");
    return out;
}

// ------------------------------------------------------------------------------------------------ generation
static bool looks_addr(const std::string &b, size_t i)
{
    return i + 9 <= b.size() && (unsigned char)b[i + 7] == 0 && (unsigned char)b[i + 6] == 0 && b[i + 5] != 0
           && b[i + 4] != 0 && ((unsigned char)b[i + 8] <= 1);
}

static std::string mutate(Rng &r, const std::string &orig, std::string &tag)
{
    std::string b = orig;
    std::vector<size_t> nodes, counts, digits;
    for (size_t i = 5; i + 9 <= b.size(); i++)
        if (looks_addr(b, i))
            nodes.push_back(i);
    for (size_t i = 5; i + 8 <= b.size(); i++) {
        bool z = true;
        for (int k = 1; k < 8; k++)
            z = z && b[i + k] == 0;
        if (z && (unsigned char)b[i] < 64)
            counts.push_back(i);
    }
    for (size_t i = 5; i < b.size(); i++)
        if ((b[i] >= '0' && b[i] <= '9') || b[i] == '-')
            digits.push_back(i);
    static const uint64_t big[] = {0, 1, 2, 3, 1ULL << 20, (1ULL << 21) - 1, 1ULL << 21, (1ULL << 24) - 2, (1ULL << 24) - 1, 1ULL << 24, 1ULL << 32, 1ULL << 40,
                                   (1ULL << 59) - 1, 1ULL << 59, (1ULL << 60) - 1, 1ULL << 60, 1ULL << 61,
                                   (1ULL << 62) - 1, 1ULL << 62, 1ULL << 63, ~0ULL};
    for (int attempt = 0; attempt < 8; attempt++) {
        unsigned k = r.below(12);
        if (k == 0 && !nodes.empty()) {
            size_t p = r.pick(nodes);
            if (b[p + 8] == 1 && p + 9 < b.size()) {
                tag = "mut-typebyte";
                static const int favs[] = {0, 1, 2, 3, 6, 7, 8, 13, 15, 16, 17, 35, 73, 78, 82, 94, 97, 98, 99, 101, 90};
                b[p + 9] = r.coin() ? char(r.below(130)) : char(favs[r.below(sizeof favs / sizeof favs[0])]);
                return b;
            }
        } else if (k == 1 && !nodes.empty()) {
            size_t p = r.pick(nodes);
            tag = "mut-firstseen";
            static const unsigned char v[] = {0, 1, 2, 255};
            b[p + 8] = char(v[r.below(4)]);
            return b;
        } else if (k == 2 && nodes.size() >= 2) {
            size_t p = r.pick(nodes), q = r.pick(nodes);
            if (p != q) {
                tag = "mut-address";
                for (int i = 0; i < 8; i++)
                    b[p + i] = b[q + i];
                if (r.coin(1, 3) && b[p + 8] == 1) {
                    // turn it into a back-reference and drop nothing: what follows is parsed as the next field
                    b[p + 8] = 0;
                }
                return b;
            }
        } else if (k == 3 && !counts.empty()) {
            size_t p = r.pick(counts);
            tag = "mut-count";
            uint64_t old = (unsigned char)b[p];
            uint64_t nv = r.coin(1, 3) ? (r.coin() ? old + 1 : (old ? old - 1 : 5)) : big[r.below(sizeof big / sizeof big[0])];
            for (int i = 0; i < 8; i++)
                b[p + i] = char((nv >> (8 * i)) & 255);
            return b;
        } else if (k == 4 && !digits.empty()) {
            size_t p = r.pick(digits);
            tag = "mut-digit";
            static const char v[] = {'-', 'a', '0', '9', ' ', '+', '\0', '1'};
            b[p] = v[r.below(sizeof v)];
            return b;
        } else if (k == 5) {
            tag = "mut-truncate";
            return b.substr(0, r.below(b.size()));
        } else if (k == 6) {
            tag = "mut-flip";
            int n = 1 + (int)r.below(3);
            for (int i = 0; i < n; i++) {
                size_t p = r.below(b.size());
                b[p] = r.coin() ? char(b[p] ^ (1 << r.below(8))) : char(r.below(256));
            }
            return b;
        } else if (k == 7) {
            tag = "mut-header";
            size_t p = r.below(5);
            static const unsigned char v[] = {0, 1, 2, 14, 15, 255};
            b[p] = char(v[r.below(6)]);
            return b;
        } else if (k == 8) {
            tag = "mut-trailing";
            int n = 1 + (int)r.below(20);
            for (int i = 0; i < n; i++)
                b.push_back(char(r.below(256)));
            return b;
        } else if (k == 9 && b.size() > 12) {
            tag = "mut-splice";
            size_t from = 5 + r.below(b.size() - 5), len = 1 + r.below(std::min<size_t>(40, b.size() - from));
            size_t to = 5 + r.below(b.size() - 5);
            std::string piece = b.substr(from, len);
            if (r.coin())
                b.insert(to, piece);
            else
                b.replace(to, std::min(len, b.size() - to), piece);
            return b;
        } else if (k == 10 && b.size() > 8) {
            tag = "mut-delete";
            size_t from = 5 + r.below(b.size() - 5), len = 1 + r.below(std::min<size_t>(9, b.size() - from));
            b.erase(from, len);
            return b;
        } else if (k == 11 && !nodes.empty()) {
            // swap a node's type byte with the next node's (keeps both type codes plausible)
            size_t i = r.below(nodes.size());
            size_t p = nodes[i], q = nodes[(i + 1) % nodes.size()];
            if (p != q && b[p + 8] == 1 && b[q + 8] == 1 && p + 9 < b.size() && q + 9 < b.size()) {
                tag = "mut-typeswap";
                std::swap(b[p + 9], b[q + 9]);
                return b;
            }
        }
    }
    tag = "mut-none";
    return b;
}

static void crafted(std::vector<std::pair<std::string, std::string>> &out)
{
    SB s;
    auto T = [&](const char *tag, const std::string &body) { out.push_back({tag, SB::hdr() + body}); };
    typedef std::vector<std::pair<std::string, std::string>> PS;
    // --- objects the smart constructors never build (decode_canon witnesses)
    T("noncanon-add", s.dict(SYMENGINE_ADD, s.I(0), PS{{s.S("x"), s.I(0)}, {s.S("y"), s.I(1)}}));
    T("noncanon-add", s.dict(SYMENGINE_ADD, s.I(0), PS{{s.I(3), s.I(2)}, {s.S("y"), s.I(1)}}));
    T("noncanon-add", s.dict(SYMENGINE_ADD, s.I(0), PS{{s.S("x"), s.I(1)}}));
    T("noncanon-add", s.dict(SYMENGINE_ADD, s.I(5), PS{}));
    T("noncanon-rational", s.R(2, 4));
    T("noncanon-rational", s.R(4, 2));
    T("noncanon-rational", s.R(1, 0));
    T("noncanon-rational", s.R(0, 0));
    T("noncanon-rational", s.R(1, -2));
    T("noncanon-pow", s.node(SYMENGINE_POW, s.S("x") + s.I(1)));
    T("noncanon-pow", s.node(SYMENGINE_POW, s.S("x") + s.I(0)));
    T("noncanon-pow", s.node(SYMENGINE_POW, s.I(2) + s.I(3)));
    T("noncanon-pow", s.node(SYMENGINE_POW, s.I(0) + s.I(-1)));
    T("noncanon-mul", s.dict(SYMENGINE_MUL, s.I(1), PS{{s.I(2), s.I(3)}, {s.S("x"), s.I(1)}}));
    T("noncanon-mul", s.dict(SYMENGINE_MUL, s.I(0), PS{{s.S("x"), s.I(1)}, {s.S("y"), s.I(1)}}));
    T("noncanon-mul", s.dict(SYMENGINE_MUL, s.I(2), PS{}));
    T("noncanon-mul", s.dict(SYMENGINE_MUL, s.I(2), PS{{s.S("x"), s.I(0)}, {s.S("y"), s.I(1)}}));
    T("noncanon-infty", s.node(SYMENGINE_INFTY, s.I(5)));
    T("noncanon-infty", s.node(SYMENGINE_INFTY, s.I(-1)));
    T("noncanon-func", s.node(SYMENGINE_SIN, s.I(0)));
    T("noncanon-func", s.node(SYMENGINE_NOT, s.node(SYMENGINE_BOOLEAN_ATOM, std::string(1, '\x01'))));
    T("noncanon-interval", s.node(SYMENGINE_INTERVAL, std::string(1, '\0') + s.I(2) + std::string(1, '\0') + s.I(1)));
    // --- containers without elements: printers / evaluators dereference begin()
    for (int tc : {SYMENGINE_AND, SYMENGINE_OR, SYMENGINE_XOR, SYMENGINE_UNION, SYMENGINE_PIECEWISE, SYMENGINE_MAX,
                   SYMENGINE_MIN, SYMENGINE_LEVICIVITA, SYMENGINE_FINITESET})
        T("empty-container", s.node(tc, SB::u64(0)));
    T("empty-container", s.node(SYMENGINE_NOT, s.node(SYMENGINE_AND, SB::u64(0))));
    T("empty-container", s.dict(SYMENGINE_ADD, s.I(1), PS{{s.node(SYMENGINE_MAX, SB::u64(0)), s.I(2)}, {s.S("y"), s.I(1)}}));
    // --- bool fields holding a byte that is not 0/1
    T("bool-byte", s.node(SYMENGINE_BOOLEAN_ATOM, std::string(1, '\x02')));
    T("bool-byte", s.node(SYMENGINE_INTERVAL, std::string(1, '\x07') + s.I(1) + std::string(1, '\0') + s.I(2)));
    // --- integer strings
    for (const char *d : {"-", "-0", "007", "", "+5", "1a", "--1", "12345678901234567890123456789012345678901234567890"})
        T("int-string", s.I(std::string(d)));
    // --- casts and references
    T("cast", s.node(SYMENGINE_INFTY, s.S("x")));
    T("cast", s.node(SYMENGINE_RATIONAL, s.R(1, 2) + s.I(3)));
    T("cast", s.node(SYMENGINE_NOT, s.S("x")));
    T("cast", s.node(SYMENGINE_CONTAINS, s.S("x") + s.S("y")));
    T("ref", SB::ref(0x77));
    T("ref", SB::u64(5) + std::string(1, '\x02'));
    {
        // a Rational whose parts evaluate to an Integer, referenced later where an Integer is required
        uint64_t a = 0x5555000000009990ULL;
        std::string four_two = s.node(SYMENGINE_RATIONAL, s.I(4) + s.I(2), a);
        T("ref-dynamic-type", s.dict(SYMENGINE_ADD, four_two, PS{{s.S("x"), s.node(SYMENGINE_RATIONAL, SB::ref(a) + s.I(3))},
                                                                 {s.S("y"), s.I(1)}}));
        // the same address registered twice: the later object wins
        T("ref-overwrite", s.dict(SYMENGINE_ADD, s.I(0), PS{{s.S("x", a + 16), s.I(1)}, {s.S("y", a + 16), s.I(2)},
                                                            {s.node(SYMENGINE_SIN, SB::ref(a + 16)), s.I(3)}}));
        // an object referring to its own address while it is being loaded
        T("ref-self", s.node(SYMENGINE_SIN, SB::ref(a + 32), a + 32));
    }
    // --- lengths
    for (uint64_t n : {uint64_t(100), uint64_t(1) << 24, (uint64_t(1) << 24) - 1, (uint64_t(1) << 24) - 2, uint64_t(1) << 21, (uint64_t(1) << 21) - 1, uint64_t(1) << 20, uint64_t(1) << 40, (uint64_t(1) << 62) - 1,
                       uint64_t(1) << 62, ~uint64_t(0)}) {
        T("length-string", s.node(SYMENGINE_SYMBOL, SB::u64(n) + "abc"));
        T("length-vector", s.node(SYMENGINE_FUNCTIONSYMBOL, SB::str("f") + SB::u64(n)));
        T("length-map", s.node(SYMENGINE_ADD, s.I(0) + SB::u64(n)));
        T("length-pvec", s.node(SYMENGINE_PIECEWISE, SB::u64(n)));
    }
    // --- type codes: every value
    for (int t = 0; t < 256; t += (t < 126 ? 1 : 13))
        T("type-code", s.node(t, ""));
    // --- big-endian stream of a valid object
    {
        std::string be = std::string(1, '\0') + std::string("\0\0", 2) + std::string(1, '\0')
                         + std::string(1, char(SYMENGINE_MINOR_VERSION));
        uint64_t a = 0x1122334455667788ULL;
        std::string addr;
        for (int i = 7; i >= 0; i--)
            addr += char((a >> (8 * i)) & 255);
        std::string len(7, '\0');
        len += '\x01';
        out.push_back({"big-endian", be + addr + std::string(1, '\x01') + std::string(1, char(SYMENGINE_SYMBOL)) + len + "x"});
    }
}

void hx_gen(Rng &r, const std::string &tier)
{
    fix_aslr();
    bool th = tier == "thorough";
    std::vector<std::pair<std::string, std::string>> cr;
    crafted(cr);
    for (auto &c : cr)
        emit("ld " + tohex(c.second), c.first);
    for (long n : {100L, 400L})
        emit("deep " + std::to_string((int)SYMENGINE_SIN) + " " + std::to_string(n), "deep-ok");
    emit("deep " + std::to_string((int)SYMENGINE_SIN) + " 200000", "deep-bomb");
    ExprGen g(r);
    int n = th ? 1500 : 220;
    for (int i = 0; i < n; i++) {
        RCP<const Basic> e = g.any(1 + (int)r.below(3));
        std::string bytes = e->dumps();
        if (bytes.size() > 3000)
            continue;
        emit("ld " + tohex(bytes), "valid");
        int m = th ? 8 : 6;
        for (int k = 0; k < m; k++) {
            std::string tag;
            std::string mb = mutate(r, bytes, tag);
            if (r.coin(1, 4)) { // second-order mutant
                std::string t2;
                mb = mutate(r, mb, t2);
                tag += "+";
            }
            emit("ld " + tohex(mb), tag);
        }
    }
    // matrices
    for (int i = 0; i < (th ? 100 : 20); i++) {
        unsigned rr = 1 + r.below(3), cc = 1 + r.below(3);
        vec_basic v;
        for (unsigned k = 0; k < rr * cc; k++)
            v.push_back(g.any(1));
        std::string bytes = DenseMatrix(rr, cc, v).dumps();
        if (bytes.size() > 3000)
            continue;
        emit("mld " + tohex(bytes), "matrix-valid");
        for (int k = 0; k < 4; k++) {
            std::string tag;
            std::string mb = mutate(r, bytes, tag);
            emit("mld " + tohex(mb), "matrix-" + tag);
        }
    }
    // purely random bytes, with and without a valid header
    for (int i = 0; i < (th ? 600 : 100); i++) {
        std::string b;
        int len = (int)r.below(60);
        for (int k = 0; k < len; k++)
            b.push_back(char(r.coin(1, 3) ? r.below(3) : r.below(256)));
        if (r.coin(2, 3))
            emit("ld " + tohex(SB::hdr() + b), "random-with-header");
        else
            emit("ld " + tohex(b), "random");
    }
}
// (c19_gen.h revision 6: watchdog timeouts are inconclusive)
