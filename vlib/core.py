"""Shared machinery for every property check (DESIGN.md section 3).

A property check is described by a module props/cNN.py exposing SPEC (a dict).
run_check() executes the decision procedure of DESIGN 3.4:

  1 translators            /repo sources -> lean/SymVerif/Gen/*.lean       (break kind T)
  2 lake build             Props module + the property's driver exe        (break kind P)
  3 audit                  forbidden tokens, #print axioms per theorem     (break kind P)
  4 build implementation   /repo working tree -> .build/<config>, harness
  5 correspondence         corpus + generated ops: impl output vs Lean driver output (kind C)
  6 oracle                 the property evaluated directly on the impl by the harness
  7 decision + search      known findings, VIOLATION lines, replay files
  8 evidence               evidence/<id>.json
"""
import fcntl
import hashlib
import importlib
import json
import os
import re
import shutil
import subprocess
import sys
import time
from pathlib import Path

ROOT = Path(__file__).resolve().parent.parent
REPO = Path(os.environ.get("VERIF_REPO", "/repo"))
BUILD = Path(os.environ.get("VERIF_BUILD_ROOT", str(ROOT / ".build")))
LEAN = Path(os.environ.get("VERIF_LEAN_DIR", str(ROOT / "lean")))
# where evidence/ and replays/ are written (overridden when a check is pointed at a scratch tree)
OUT = Path(os.environ.get("VERIF_OUT_ROOT", str(ROOT)))
HOOK_HEADER = ROOT / "harness" / "verif_hooks.h"
NCPU = os.cpu_count() or 4

ALLOWED_AXIOMS = {"propext", "Classical.choice", "Quot.sound"}
FORBIDDEN = [r"\bsorry\b", r"\badmit\b", r"^\s*axiom\s", r"native_decide", r"bv_decide",
             r"implemented_by", r"\bunsafe\s", r"maxHeartbeats\s+0\b", r"\bextern\s"]

TRUSTED_BASE = [
    "Lean 4.33.0 kernel (type checker) and elaborator",
    "axioms propext, Classical.choice, Quot.sound only (audited by #print axioms on every run)",
    "Mathlib v4.33.0 as compiled under /opt/veriftools/mathlib4 (only where a Props file imports it)",
    "Lean compiler/runtime for the executable driver side of the model (correspondence only)",
    "correspondence harness (harness/*.cpp, vlib/core.py): decides which implementation behaviour the model is compared with",
    "g++ 12, GMP, libstdc++, cmake/ninja used to build /repo's working tree",
]


class Log:
    def __init__(self):
        self.lines = []

    def __call__(self, *a):
        s = " ".join(str(x) for x in a)
        self.lines.append(s)
        print(s, flush=True)


def sh(cmd, cwd=None, env=None, timeout=None, inp=None):
    e = os.environ.copy()
    if env:
        e.update(env)
    p = subprocess.run(cmd, cwd=cwd, env=e, timeout=timeout, input=inp,
                       stdout=subprocess.PIPE, stderr=subprocess.STDOUT, text=True,
                       errors="replace")
    return p.returncode, p.stdout


class Lock:
    def __init__(self, name):
        BUILD.mkdir(parents=True, exist_ok=True)
        self.path = BUILD / (name + ".lock")

    def __enter__(self):
        self.f = open(self.path, "w")
        fcntl.flock(self.f, fcntl.LOCK_EX)
        return self

    def __exit__(self, *a):
        fcntl.flock(self.f, fcntl.LOCK_UN)
        self.f.close()


# ---------------------------------------------------------------- implementation builds

COMMON_CMAKE = ["-G", "Ninja", "-DBUILD_TESTS=no", "-DBUILD_BENCHMARKS=no",
                "-DBUILD_SHARED_LIBS=no", "-DCMAKE_CXX_COMPILER_LAUNCHER=ccache",
                "-DCMAKE_BUILD_TYPE=Release"]
HOOKFLAGS = "-include %s -DSYMENGINE_VERIF_HOOKS -Wno-error" % HOOK_HEADER

CONFIGS = {
    # default: assertions on (throwing, via the force-included hook header), -O1
    "assert": dict(cmake=["-DWITH_SYMENGINE_ASSERT=yes", "-DCMAKE_CXX_FLAGS_RELEASE=-O1",
                          "-DCMAKE_CXX_FLAGS=" + HOOKFLAGS], cxx="g++", extra=[]),
    # baseline-like: no assertions (what users run); used where assertions would mask behaviour
    "plain": dict(cmake=["-DWITH_SYMENGINE_ASSERT=no", "-DCMAKE_CXX_FLAGS_RELEASE=-O1",
                         "-DCMAKE_CXX_FLAGS=" + HOOKFLAGS], cxx="g++", extra=[]),
    "asan": dict(cmake=["-DWITH_SYMENGINE_ASSERT=no",
                        "-DCMAKE_CXX_FLAGS_RELEASE=-O1 -g -fno-omit-frame-pointer",
                        "-DCMAKE_CXX_FLAGS=" + HOOKFLAGS + " -fsanitize=address,undefined -fno-sanitize-recover=undefined"],
                 cxx="g++", extra=["-fsanitize=address,undefined", "-fno-sanitize-recover=undefined", "-g",
                                   "-fno-omit-frame-pointer"]),
    "tsan": dict(cmake=["-DWITH_SYMENGINE_ASSERT=no", "-DWITH_SYMENGINE_THREAD_SAFE=yes",
                        "-DCMAKE_CXX_FLAGS_RELEASE=-O1 -g",
                        "-DCMAKE_CXX_FLAGS=" + HOOKFLAGS + " -fsanitize=thread"],
                 cxx="g++", extra=["-fsanitize=thread", "-g", "-pthread"]),
    "threadsafe": dict(cmake=["-DWITH_SYMENGINE_ASSERT=no", "-DWITH_SYMENGINE_THREAD_SAFE=yes",
                              "-DCMAKE_CXX_FLAGS_RELEASE=-O1",
                              "-DCMAKE_CXX_FLAGS=" + HOOKFLAGS], cxx="g++", extra=["-pthread"]),
    "boostmp": dict(cmake=["-DWITH_SYMENGINE_ASSERT=yes", "-DINTEGER_CLASS=boostmp",
                           "-DCMAKE_CXX_FLAGS_RELEASE=-O1",
                           "-DCMAKE_CXX_FLAGS=" + HOOKFLAGS], cxx="g++", extra=[]),
    "gmpxx": dict(cmake=["-DWITH_SYMENGINE_ASSERT=yes", "-DINTEGER_CLASS=gmpxx",
                         "-DCMAKE_CXX_FLAGS_RELEASE=-O1",
                         "-DCMAKE_CXX_FLAGS=" + HOOKFLAGS], cxx="g++", extra=["-lgmpxx"]),
    "llvm": dict(cmake=["-DWITH_SYMENGINE_ASSERT=yes", "-DWITH_LLVM=yes",
                        "-DCMAKE_CXX_FLAGS_RELEASE=-O1",
                        "-DCMAKE_CXX_FLAGS=" + HOOKFLAGS], cxx="g++", extra=[]),
    "mpfr": dict(cmake=["-DWITH_SYMENGINE_ASSERT=yes", "-DWITH_MPFR=yes",
                        "-DCMAKE_CXX_FLAGS_RELEASE=-O1",
                        "-DCMAKE_CXX_FLAGS=" + HOOKFLAGS], cxx="g++", extra=["-lmpfr"]),
}


class BuildError(Exception):
    pass


def build_impl(config, log):
    """Build /repo's *working tree* (never a copy) out of tree; incremental via ninja+ccache."""
    cfg = CONFIGS[config]
    bdir = BUILD / ("impl-" + config)
    with Lock("impl-" + config):
        t0 = time.time()
        if not (bdir / "build.ninja").exists():
            bdir.mkdir(parents=True, exist_ok=True)
            rc, out = sh(["cmake", "-S", str(REPO), "-B", str(bdir)] + COMMON_CMAKE + cfg["cmake"])
            if rc != 0:
                raise BuildError("cmake configure failed for %s:\n%s" % (config, out[-3000:]))
        rc, out = sh(["ninja", "-C", str(bdir), "-j", str(NCPU), "symengine"])
        if rc != 0:
            # one retry after re-running cmake (new/removed source files)
            sh(["cmake", "-S", str(REPO), "-B", str(bdir)] + COMMON_CMAKE + cfg["cmake"])
            rc, out = sh(["ninja", "-C", str(bdir), "-j", str(NCPU), "symengine"])
            if rc != 0:
                raise BuildError("library build failed (%s):\n%s" % (config, out[-4000:]))
        log("impl[%s] built in %.1fs" % (config, time.time() - t0))
    lib = bdir / "symengine" / "libsymengine.a"
    if not lib.exists():
        raise BuildError("no libsymengine.a in %s" % bdir)
    return bdir, lib


def _hdr_stamp():
    h = hashlib.sha256()
    for p in sorted((REPO / "symengine").rglob("*.h*")):
        try:
            st = p.stat()
        except OSError:
            continue
        h.update(("%s:%d:%d;" % (p, st.st_size, st.st_mtime_ns)).encode())
    return h.hexdigest()


def build_harness(src_name, config, log, extra_libs=()):
    bdir, lib = build_impl(config, log)
    cfg = CONFIGS[config]
    src = ROOT / "harness" / src_name
    out = BUILD / "hx" / config / src.stem
    out.parent.mkdir(parents=True, exist_ok=True)
    deps = [src] + sorted((ROOT / "harness").glob("*.h"))
    h = hashlib.sha256()
    for d in deps:
        h.update(d.read_bytes())
    h.update(_hdr_stamp().encode())
    st = lib.stat()
    h.update(("%d:%d" % (st.st_size, st.st_mtime_ns)).encode())
    stamp = out.with_suffix(".stamp")
    with Lock("hx-" + config + "-" + src.stem):
        if out.exists() and stamp.exists() and stamp.read_text() == h.hexdigest():
            return out
        t0 = time.time()
        libs = ["-lgmp"]
        cache = (bdir / "CMakeCache.txt").read_text()
        if "WITH_LLVM:BOOL=yes" in cache:
            rc, o = sh(["llvm-config-14", "--libs", "--system-libs"])
            libs += o.split()
        cmd = [cfg["cxx"], "-std=c++11", "-O1", "-include", str(HOOK_HEADER), "-DSYMENGINE_VERIF_HOOKS",
               "-I", str(REPO), "-I", str(bdir), "-I", str(REPO / "symengine" / "utilities" / "cereal" / "include"),
               "-I", str(ROOT / "harness"),
               str(src), "-o", str(out), str(lib)] + libs + list(cfg["extra"]) + list(extra_libs)
        # hold the library lock while linking: another check may be rebuilding libsymengine.a
        with Lock("impl-" + config):
            rc, o = sh(cmd)
        if rc != 0:
            raise BuildError("harness %s failed to build:\n%s" % (src_name, o[-4000:]))
        stamp.write_text(h.hexdigest())
        log("harness %s[%s] built in %.1fs" % (src.stem, config, time.time() - t0))
    return out


# ---------------------------------------------------------------- Lean side

def gen_lakefile():
    """lakefile.toml is derived from the Drv/*.lean files present (one exe per property)."""
    drvs = sorted(p.stem for p in (LEAN / "Drv").glob("*.lean"))
    s = 'name = "symverif"\nversion = "0.1.0"\ndefaultTargets = ["SymVerif"]\n\n'
    s += '[[lean_lib]]\nname = "SymVerif"\n\n'
    for d in drvs:
        s += '[[lean_exe]]\nname = "drv_%s"\nroot = "Drv.%s"\n\n' % (d.lower(), d)
    p = LEAN / "lakefile.toml"
    if not p.exists() or p.read_text() != s:
        p.write_text(s)


def lake_build(targets, log):
    gen_lakefile()
    with Lock("lake-" + hashlib.md5(str(LEAN).encode()).hexdigest()[:8]):
        t0 = time.time()
        rc, out = sh(["lake", "build"] + list(targets), cwd=str(LEAN))
        log("lake build %s: rc=%d in %.1fs" % (" ".join(targets), rc, time.time() - t0))
    return rc, out


def strip_lean_comments(txt):
    # remove nested block comments and line comments
    out = []
    i, depth, n = 0, 0, len(txt)
    while i < n:
        if txt.startswith("/-", i):
            depth += 1
            i += 2
        elif depth and txt.startswith("-/", i):
            depth -= 1
            i += 2
        elif depth:
            if txt[i] == "\n":
                out.append("\n")
            i += 1
        elif txt.startswith("--", i):
            while i < n and txt[i] != "\n":
                i += 1
        else:
            out.append(txt[i])
            i += 1
    return "".join(out)


def module_closure(mod):
    """Local (SymVerif.*) modules transitively imported by `mod`."""
    seen, todo = [], [mod]
    while todo:
        m = todo.pop()
        if m in seen:
            continue
        p = LEAN / (m.replace(".", "/") + ".lean")
        if not p.exists():
            continue
        seen.append(m)
        for line in p.read_text().splitlines():
            mm = re.match(r"\s*(?:public\s+)?import\s+(SymVerif[\w.]*)", line)
            if mm:
                todo.append(mm.group(1))
    return seen


def audit(spec, log):
    """Forbidden-token grep over the module closure, then #print axioms on every theorem."""
    problems = []
    mods = module_closure(spec["lean_props"])
    if spec.get("driver"):
        mods += [m for m in module_closure("Drv." + spec["driver"]) if m not in mods]
    for m in mods:
        p = LEAN / (m.replace(".", "/") + ".lean")
        txt = strip_lean_comments(p.read_text())
        for pat in FORBIDDEN:
            for mm in re.finditer(pat, txt, flags=re.M):
                problems.append("forbidden token %r in %s" % (mm.group(0).strip(), p.name))
    thms = spec["theorems"]
    src = "import %s\n" % spec["lean_props"] + "".join("#print axioms %s\n" % t for t in thms)
    adir = BUILD / "audit"
    adir.mkdir(parents=True, exist_ok=True)
    f = adir / ("audit_%s.lean" % spec["id"])
    f.write_text(src)
    rc, out = sh(["lake", "env", "lean", str(f)], cwd=str(LEAN))
    axioms = {}
    cur = None
    flat = re.sub(r"\n\s+", " ", out)
    for line in flat.splitlines():
        m = re.match(r"'(.+)' depends on axioms: \[(.*)\]", line)
        if m:
            axioms[m.group(1)] = [a.strip() for a in m.group(2).split(",") if a.strip()]
            continue
        m = re.match(r"'(.+)' does not depend on any axioms", line)
        if m:
            axioms[m.group(1)] = []
    for t in thms:
        short = t
        if short not in axioms:
            problems.append("theorem %s not found / not checked (%s)" % (t, out.strip()[-300:]))
            continue
        bad = [a for a in axioms[short] if a not in ALLOWED_AXIOMS]
        if bad:
            problems.append("theorem %s depends on disallowed axioms %s" % (t, bad))
    return problems, axioms, mods


def leanchecker(mods, log):
    probs = []
    for m in mods:
        rc, out = sh(["lake", "env", "leanchecker", m], cwd=str(LEAN), timeout=1800)
        log("leanchecker %s rc=%d" % (m, rc))
        if rc != 0:
            probs.append("leanchecker rejected %s: %s" % (m, out[-500:]))
    return probs


# ---------------------------------------------------------------- correspondence

def run_lines(exe, args, lines, timeout=1800, env=None):
    inp = "".join(l + "\n" for l in lines)
    e = os.environ.copy()
    e.setdefault("ASAN_OPTIONS", "detect_leaks=0:abort_on_error=0")
    if env:
        e.update(env)
    p = subprocess.run([str(exe)] + args, input=inp, stdout=subprocess.PIPE, stderr=subprocess.PIPE,
                       text=True, errors="replace", timeout=timeout, env=e)
    return p.returncode, p.stdout.splitlines(), p.stderr


def impl_run(hx, ops, log, per_op_timeout=None, env=None):
    """Run ops through the harness; survives crashes: a crashing op gets output CRASH:<signal>."""
    results = [None] * len(ops)
    stats = {}
    start = 0
    crashes = 0
    while start < len(ops):
        chunk = ops[start:]
        try:
            rc, out, err = run_lines(hx, ["run"], chunk, timeout=per_op_timeout or 3600, env=env)
            timed_out = False
        except subprocess.TimeoutExpired as te:
            rc, timed_out = -999, True
            out = (te.stdout or b"")
            out = out.decode(errors="replace").splitlines() if isinstance(out, bytes) else out.splitlines()
            err = ""
        k = 0
        for line in out:
            if line.startswith("R\t"):
                parts = line.split("\t")
                if start + k < len(ops):
                    results[start + k] = (parts[1] if len(parts) > 1 else "", parts[2] if len(parts) > 2 else "ok")
                k += 1
            elif line.startswith("S\t"):
                parts = line.split("\t")
                if len(parts) >= 3:
                    try:
                        stats[parts[1]] = stats.get(parts[1], 0) + int(parts[2])
                    except ValueError:
                        stats[parts[1]] = parts[2]
        if rc == 0 and k >= len(chunk):
            break
        # crashed/hung at op start+k
        idx = start + k
        if idx >= len(ops):
            break
        why = "HANG" if timed_out else ("CRASH:rc=%d" % rc)
        tail = (err or "").strip().splitlines()[-12:]
        results[idx] = (why, "FAIL:crash:%s %s" % (why, " | ".join(tail)[:600]))
        crashes += 1
        log("harness %s at op #%d: %s" % (why, idx, ops[idx][:200]))
        if crashes > 25:
            for j in range(idx + 1, len(ops)):
                results[j] = ("SKIPPED", "ok")
            break
        start = idx + 1
    return results, stats


def model_run(drv, ops, timeout=3600):
    rc, out, err = run_lines(drv, [], ops, timeout=timeout)
    if rc != 0 or len(out) != len(ops):
        raise RuntimeError("Lean driver failed rc=%d produced %d/%d lines: %s" % (rc, len(out), len(ops), err[-500:]))
    return out


# ---------------------------------------------------------------- known findings

def load_known():
    p = ROOT / "known_findings.json"
    if not p.exists():
        return []
    return json.loads(p.read_text())


def match_known(known, pid, text):
    for k in known:
        if k.get("property") == pid and k.get("status") == "known":
            if re.search(k["match"], text):
                return k
    return None


# ---------------------------------------------------------------- the check

def write_replay(pid, name, obj):
    d = OUT / "replays" / pid
    d.mkdir(parents=True, exist_ok=True)
    p = d / name
    p.write_text(json.dumps(obj, indent=1))
    return p


def load_spec(pid):
    sys.path.insert(0, str(ROOT))
    mod = importlib.import_module("props." + pid.lower())
    return mod.SPEC


def run_check(pid, tier="quick", seed=None, replay=None):
    t0 = time.time()
    log = Log()
    spec = load_spec(pid)
    seed = int(seed if seed is not None else os.environ.get("VERIF_SEED", "1"))
    known = load_known()
    violations = []      # (replay_path, suffix)
    known_hits = {}
    breaks = []          # (kind, description)
    level = spec.get("level", "proof")
    if level not in ("exploration", "fault_enumeration", "model_checking", "proof", "translation_validation", "other"):
        level = "proof"   # e.g. "partial": a proof-level claim whose scope restriction is stated in level_text / partial
    ev = dict(property_id=pid, tier=tier, seed=seed, level=level, coverage={}, assumptions=list(spec.get("assumptions", [])),
              wall_s=0.0, violations=0)
    cov = ev["coverage"]

    # 1 translators
    gen_dir = LEAN / "SymVerif" / "Gen"
    gen_dir.mkdir(parents=True, exist_ok=True)
    tr_info = []
    for tr in spec.get("translators", []):
        try:
            info = tr(REPO, gen_dir)
            tr_info.append(info)
        except Exception as e:  # translator could not map the source into the model's shape
            breaks.append(("T", "translator %s failed: %s" % (getattr(tr, "__name__", tr), e)))
            log("TIE-BROKEN(T):", breaks[-1][1])
    cov["translators"] = tr_info

    # 2 lake build
    targets = [spec["lean_props"]]
    drv = None
    if spec.get("driver"):
        targets.append("drv_" + spec["driver"].lower())
    rc, out = lake_build(targets, log)
    lean_ok = rc == 0
    if not lean_ok:
        errs = [l for l in out.splitlines() if "error" in l][:12]
        breaks.append(("P", "lake build failed: " + " || ".join(errs)[:1500]))
        log("TIE-BROKEN(P): lean build failed\n" + out[-2500:])
        # try to get at least the driver (model without proofs)
        if spec.get("driver"):
            rc2, _ = lake_build(["drv_" + spec["driver"].lower()], log)
            if rc2 == 0:
                drv = LEAN / ".lake" / "build" / "bin" / ("drv_" + spec["driver"].lower())
    elif spec.get("driver"):
        drv = LEAN / ".lake" / "build" / "bin" / ("drv_" + spec["driver"].lower())

    # 3 audit
    thms = spec["theorems"]
    discharged = 0
    axioms = {}
    mods = []
    if lean_ok:
        problems, axioms, mods = audit(spec, log)
        discharged = sum(1 for t in thms if t in axioms and all(a in ALLOWED_AXIOMS for a in axioms[t]))
        for p in problems:
            breaks.append(("P", p))
            log("TIE-BROKEN(P):", p)
        if tier == "thorough" and spec.get("leanchecker", True):
            for p in leanchecker([spec["lean_props"]], log):
                breaks.append(("P", p))
    cov.update(obligations=len(thms), discharged=discharged,
               checker_cmd="cd lean && lake build %s && lake env lean <#print axioms of each theorem>%s" % (
                   spec["lean_props"], " && lake env leanchecker " + spec["lean_props"] if tier == "thorough" else ""),
               trusted_base=TRUSTED_BASE + list(spec.get("trusted_base_extra", [])),
               theorems=[dict(name=t, axioms=axioms.get(t)) for t in thms],
               partial_theorems=spec.get("partial", []),
               not_covered=spec.get("not_covered", []),
               model_modules=mods)

    # 4 implementation + harness
    hx = None
    configs = spec.get("configs", {"quick": ["assert"], "thorough": ["assert"]})[tier]
    evaluations = 0
    distinct = set()
    nontrivial = set()
    tags = {}
    samples = []
    stats_all = {}
    corr_diffs = []
    oracle_fails = []
    if spec.get("harness"):
        for ci, config in enumerate(configs):
            try:
                hx = build_harness(spec["harness"], config, log, spec.get("extra_libs", ()))
            except BuildError as e:
                log(str(e))
                breaks.append(("B", "implementation/harness build failed in config %s: %s" % (config, str(e)[-800:])))
                continue
            # 5 ops: corpus first, then generated
            ops, optags = [], []
            cdir = ROOT / "corpus" / pid
            if replay:
                r = json.loads(Path(replay).read_text())
                for o in r.get("ops", []):
                    ops.append(o)
                    optags.append("replay")
            else:
                if cdir.exists():
                    for f in sorted(cdir.glob("*.ops")):
                        for l in f.read_text().splitlines():
                            if l.strip() and not l.startswith("#"):
                                ops.append(l)
                                optags.append("corpus")
                try:
                    rc, out, err = run_lines(hx, ["gen", str(seed), tier], [], timeout=1800)
                except subprocess.TimeoutExpired:
                    rc, out, err = -999, [], "harness gen timed out after 1800 s"
                if rc != 0:
                    breaks.append(("B", "harness gen failed rc=%d %s" % (rc, err[-400:])))
                for l in out:
                    if l.startswith("OP\t"):
                        parts = l.split("\t")
                        ops.append(parts[1])
                        optags.append(parts[2] if len(parts) > 2 else "gen")
            env = spec.get("run_env", {}).get(config)
            res, stats = impl_run(hx, ops, log, per_op_timeout=spec.get("run_timeout"), env=env)
            for k, v in stats.items():
                if isinstance(v, int):
                    stats_all[k] = stats_all.get(k, 0) + v
                else:
                    stats_all[k] = v
            mout = None
            if drv is not None and ci == 0 or (drv is not None and spec.get("corr_all_configs")):
                try:
                    if spec.get("validate_mode"):
                        # certificate checking: the proven-sound Lean checker sees op and implementation output
                        fed = [op + "\t" + (res[i][0] if res[i] else "") for i, op in enumerate(ops)]
                        mout = model_run(drv, fed)
                    else:
                        mout = model_run(drv, ops)
                except Exception as e:
                    breaks.append(("C", "Lean driver failed: %s" % e))
                    log("TIE-BROKEN(C): driver failure", e)
            for i, op in enumerate(ops):
                r = res[i]
                if r is None:
                    continue
                evaluations += 1
                if mout is not None and mout[i].startswith("SKIP"):
                    stats_all["model_skipped"] = stats_all.get("model_skipped", 0) + 1
                key = op
                if key not in distinct:
                    distinct.add(key)
                    tg = optags[i]
                    tags[tg] = tags.get(tg, 0) + 1
                    if not tg.startswith("trivial"):
                        nontrivial.add(key)
                    if len(samples) < 8 and (i % max(1, len(ops) // 8) == 0):
                        samples.append(dict(op=op[:400], impl=r[0][:400], model=(mout[i][:400] if mout else None), config=config))
                iout, orc = r
                if orc != "ok":
                    oracle_fails.append(dict(op=op, impl=iout, oracle=orc, config=config))
                if mout is not None and spec.get("validate_mode"):
                    if iout != "SKIPPED" and mout[i] != "ok" and not mout[i].startswith("SKIP"):
                        corr_diffs.append(dict(op=op, impl=iout, model=mout[i], config=config))
                elif mout is not None and iout != "SKIPPED" and mout[i] != iout and not mout[i].startswith("SKIP"):
                    corr_diffs.append(dict(op=op, impl=iout, model=mout[i], config=config))

    # 6/7 decision
    def classify(fail):
        text = "%s %s" % (fail["op"], fail["oracle"])
        k = match_known(known, pid, text)
        return k

    new_fails = []
    for f in oracle_fails:
        k = classify(f)
        if k:
            known_hits.setdefault(k["id"], [k, 0, f])
            known_hits[k["id"]][1] += 1
        else:
            new_fails.append(f)
    for kid, (k, n, f) in sorted(known_hits.items()):
        log("KNOWN-FINDING: property=%s %s [%s; %d matching case(s) this run, e.g. %s]" % (pid, k["what"], kid, n, f["op"][:160]))

    # correspondence differences that coincide with a known finding input are not fresh alarms
    fresh_diffs = []
    for d in corr_diffs:
        k = match_known(known, pid, d["op"] + " corr-diff")
        if k and k.get("covers_corr"):
            continue
        fresh_diffs.append(d)

    if new_fails:
        # group by oracle key, report the shortest op of each group
        groups = {}
        for f in new_fails:
            key = f["oracle"].split(":")[1] if f["oracle"].count(":") >= 1 else "fail"
            g = groups.setdefault(key, [])
            g.append(f)
        for n, (key, g) in enumerate(sorted(groups.items())):
            g.sort(key=lambda f: len(f["op"]))
            f = g[0]
            # an op that fails the oracle is itself the concrete failing input
            p = write_replay(pid, "violation_%s_%d.json" % (re.sub(r"\W+", "_", key)[:40], n),
                             dict(property=pid, seed=seed, tier=tier, kind="oracle", ops=[f["op"]],
                                  observed=f["impl"], oracle=f["oracle"], config=f["config"], similar=len(g),
                                  replay_cmd="python3 check.py %s --replay <this file>" % pid))
            violations.append((p, ""))
    if (breaks or fresh_diffs) and not new_fails:
        # tie broken, oracle found no failing input in what was generated -> widen the search
        found = None
        if hx is not None and not replay and spec.get("search", True):
            log("tie broken without oracle failure: searching (thorough-size generation, several seeds) ...")
            for s2 in range(seed + 1, seed + 1 + spec.get("search_seeds", 3)):
                rc, out, err = run_lines(hx, ["gen", str(s2), "thorough"], [], timeout=1800)
                sops = [l.split("\t")[1] for l in out if l.startswith("OP\t")]
                sres, _ = impl_run(hx, sops, log, per_op_timeout=spec.get("run_timeout"))
                for op, r in zip(sops, sres):
                    if r and r[1] != "ok" and not match_known(known, pid, "%s %s" % (op, r[1])):
                        if found is None or len(op) < len(found["op"]):
                            found = dict(op=op, impl=r[0], oracle=r[1])
                evaluations += len(sops)
                if found:
                    break
        if found:
            p = write_replay(pid, "violation_search.json",
                             dict(property=pid, seed=seed, tier=tier, kind="oracle-after-tie-break", ops=[found["op"]],
                                  observed=found["impl"], oracle=found["oracle"], breaks=breaks[:5], corr_diffs=fresh_diffs[:5]))
            violations.append((p, ""))
        else:
            fresh_diffs.sort(key=lambda d: len(d["op"]))
            p = write_replay(pid, "tie_broken.json",
                             dict(property=pid, seed=seed, tier=tier, kind="tie-broken",
                                  what="the property is no longer shown to hold: " + (
                                      "; ".join("%s: %s" % b for b in breaks[:6]) if breaks else "model/implementation correspondence differs"),
                                  broken=[dict(kind=b[0], detail=b[1]) for b in breaks[:10]],
                                  corr_diffs=fresh_diffs[:10], ops=[d["op"] for d in fresh_diffs[:10]],
                                  theorems=thms))
            violations.append((p, " no-failing-input-found"))

    for p, suffix in violations:
        print("VIOLATION property=%s replay=%s%s" % (pid, p, suffix), flush=True)

    # 8 evidence
    cov.update(evaluations=evaluations, distinct_nontrivial=len(nontrivial), distinct=len(distinct),
               rule=spec.get("rule", ""), samples=samples or [dict(note="no harness ops")],
               input_distribution=tags, impl_stats=stats_all,
               correspondence_differences=len(corr_diffs), oracle_failures=len(oracle_fails),
               known_findings_hit=sorted(known_hits.keys()), tie_breaks=[list(b) for b in breaks[:10]],
               configs=configs, exhaustive=bool(spec.get("exhaustive", {}).get(tier, False)))
    ev["violations"] = len(violations)
    ev["wall_s"] = round(time.time() - t0, 2)
    (OUT / "evidence").mkdir(parents=True, exist_ok=True)
    (OUT / "evidence" / ("%s.json" % pid)).write_text(json.dumps(ev, indent=1))
    log("%s %s: %d ops, %d distinct non-trivial, %d corr diffs, %d oracle fails (%d known), %d/%d theorems, %.1fs" % (
        pid, tier, evaluations, len(nontrivial), len(corr_diffs), len(oracle_fails),
        len(oracle_fails) - len(new_fails), discharged, len(thms), time.time() - t0))
    return 1 if violations else 0
