/-
Line-protocol loop shared by all drivers: one op per input line, one canonical
output line per op.  Core Lean only (drivers are linked as native executables).
-/
namespace SymVerif

partial def drvLoop (h : IO.FS.Stream) (out : IO.FS.Stream) (handle : String → String) : IO Unit := do
  let line ← h.getLine
  if line.isEmpty then
    out.flush
    return ()
  let l := if line.endsWith "\n" then (line.dropEnd 1).toString else line
  out.putStrLn (handle l)
  drvLoop h out handle

def drvMain (handle : String → String) : IO Unit := do
  let i ← IO.getStdin
  let o ← IO.getStdout
  drvLoop i o handle

/-- split on single spaces -/
def words (s : String) : List String := s.splitOn " "

def parseInt? (s : String) : Option Int := s.toInt?
def parseNat? (s : String) : Option Nat := s.toNat?

def joinWith (sep : String) (l : List String) : String := sep.intercalate l

end SymVerif
