/-
`Expr.eqb a b = true → a = b` (the structural equality test of Model/ExprEq.lean is sound).
-/
import SymVerif.Model.ExprEq

namespace SymVerif
namespace Expr

theorem Q_beq_eq {a b : Q} (h : (a == b) = true) : a = b := by
  obtain ⟨n, d⟩ := a
  obtain ⟨n', d'⟩ := b
  have : (n == n' && d == d') = true := h
  simp only [Bool.and_eq_true, beq_iff_eq] at this
  rw [this.1, this.2]

mutual
  theorem eqb_eq : ∀ a b : Expr, eqb a b = true → a = b
    | .int a, b, h => by
      cases b with
      | int b => simp only [eqb, beq_iff_eq] at h; rw [h]
      | _ => simp [eqb] at h
    | .rat a b, e, h => by
      cases e with
      | rat c d => simp only [eqb, Bool.and_eq_true, beq_iff_eq] at h; rw [h.1, h.2]
      | _ => simp [eqb] at h
    | .cplx a b, e, h => by
      cases e with
      | cplx c d => simp only [eqb, Bool.and_eq_true] at h; rw [Q_beq_eq h.1, Q_beq_eq h.2]
      | _ => simp [eqb] at h
    | .dbl a, e, h => by
      cases e with
      | dbl b => simp only [eqb, beq_iff_eq] at h; rw [h]
      | _ => simp [eqb] at h
    | .cdbl a b, e, h => by
      cases e with
      | cdbl c d => simp only [eqb, Bool.and_eq_true, beq_iff_eq] at h; rw [h.1, h.2]
      | _ => simp [eqb] at h
    | .infty a, e, h => by
      cases e with
      | infty b => simp only [eqb, beq_iff_eq] at h; rw [h]
      | _ => simp [eqb] at h
    | .nan, e, h => by
      cases e with
      | nan => rfl
      | _ => simp [eqb] at h
    | .sym a, e, h => by
      cases e with
      | sym b => simp only [eqb, beq_iff_eq] at h; rw [h]
      | _ => simp [eqb] at h
    | .dummy a i, e, h => by
      cases e with
      | dummy b j => simp only [eqb, Bool.and_eq_true, beq_iff_eq] at h; rw [h.1, h.2]
      | _ => simp [eqb] at h
    | .const a, e, h => by
      cases e with
      | const b => simp only [eqb, beq_iff_eq] at h; rw [h]
      | _ => simp [eqb] at h
    | .add c ts, e, h => by
      cases e with
      | add c' ts' =>
        simp only [eqb, Bool.and_eq_true] at h; rw [eqb_eq c c' h.1, eqbPairs_eq ts ts' h.2]
      | _ => simp [eqb] at h
    | .mul c ts, e, h => by
      cases e with
      | mul c' ts' =>
        simp only [eqb, Bool.and_eq_true] at h; rw [eqb_eq c c' h.1, eqbPairs_eq ts ts' h.2]
      | _ => simp [eqb] at h
    | .pow a b, e, h => by
      cases e with
      | pow c d => simp only [eqb, Bool.and_eq_true] at h; rw [eqb_eq a c h.1, eqb_eq b d h.2]
      | _ => simp [eqb] at h
    | .fsym n a, e, h => by
      cases e with
      | fsym m b =>
        simp only [eqb, Bool.and_eq_true, beq_iff_eq] at h; rw [h.1, eqbList_eq a b h.2]
      | _ => simp [eqb] at h
    | .app n a, e, h => by
      cases e with
      | app m b =>
        simp only [eqb, Bool.and_eq_true, beq_iff_eq] at h; rw [h.1, eqbList_eq a b h.2]
      | _ => simp [eqb] at h
    | .bool a, e, h => by
      cases e with
      | bool b => simp only [eqb, beq_iff_eq] at h; rw [h]
      | _ => simp [eqb] at h
  theorem eqbList_eq : ∀ a b : List Expr, eqbList a b = true → a = b
    | [], [], _ => rfl
    | a :: t, b :: u, h => by
      simp only [eqbList, Bool.and_eq_true] at h; rw [eqb_eq a b h.1, eqbList_eq t u h.2]
    | [], _ :: _, h => by simp [eqbList] at h
    | _ :: _, [], h => by simp [eqbList] at h
  theorem eqbPairs_eq : ∀ a b : List (Expr × Expr), eqbPairs a b = true → a = b
    | [], [], _ => rfl
    | (a, b) :: t, (c, d) :: u, h => by
      simp only [eqbPairs, Bool.and_eq_true] at h
      rw [eqb_eq a c h.1.1, eqb_eq b d h.1.2, eqbPairs_eq t u h.2]
    | [], _ :: _, h => by simp [eqbPairs] at h
    | _ :: _, [], h => by simp [eqbPairs] at h
end

end Expr
end SymVerif
