import Mathlib.Tactic.Ring
import Mathlib.Tactic.Linarith
import SymVerif.Lemmas.C32Basic
/-! Correctness of `crt` (Cohen's incremental Chinese remaindering). -/
namespace SymVerif.C32
open SymVerif.NTheory

theorem mul_sgn (a : Int) : a * sgn a = (a.natAbs : Int) := by
  unfold sgn
  split_ifs <;> omega

/-- `bezout` returns the gcd together with a Bézout pair -/
theorem bezout_spec (a b : Int) :
    (bezout a b).1 = (Int.gcd a b : Int) ∧ a * (bezout a b).2.1 + b * (bezout a b).2.2 = (Int.gcd a b : Int) := by
  obtain ⟨h1, h2⟩ := egcd_spec a.natAbs b.natAbs
  simp only [bezout]
  refine ⟨by rw [h1]; rfl, ?_⟩
  rw [← mul_assoc, ← mul_assoc, mul_sgn, mul_sgn, h2]; rfl

/-- `x` solves the congruences `x ≡ rs[i] (mod ms[i])` -/
def Sol (x : Int) (rs ms : List Int) : Prop := ∀ p ∈ List.zip rs ms, p.2 ∣ x - p.1

theorem sol_cons {x r m : Int} {rs ms : List Int} : Sol x (r :: rs) (m :: ms) ↔ m ∣ x - r ∧ Sol x rs ms := by
  simp [Sol, List.zip_cons_cons]

theorem divides_iff (a b : Int) : divides a b = true ↔ b ∣ a := by
  unfold divides
  by_cases hb : b = 0
  · subst hb; simp
  · have : (b == 0) = false := by simpa using hb
    simp only [this, Bool.false_eq_true, if_false, beq_iff_eq]
    exact ⟨Int.dvd_of_emod_eq_zero, Int.emod_eq_zero_of_dvd⟩

theorem fmod_dvd_sub (a m : Int) : m ∣ Int.fmod a m - a := by
  rw [Int.fmod_def]; exact ⟨-(a.fdiv m), by ring⟩

/-- facts about one step of the loop -/
theorem crt_step {m mi r ri : Int} (hg : ((Int.gcd m mi : Nat) : Int) ∣ ri - r) :
    let e := bezout m mi
    let r0 := r + m * e.2.1 * Int.tdiv (ri - r) e.1
    let m' := m * Int.tdiv mi e.1
    m ∣ r0 - r ∧ mi ∣ r0 - ri ∧ m ∣ m' ∧ mi ∣ m' ∧
      (∀ y, m ∣ y → mi ∣ y → m' ∣ y) := by
  intro e r0 m'
  obtain ⟨h1, h2⟩ := bezout_spec m mi
  set g : Int := ((Int.gcd m mi : Nat) : Int) with hgdef
  have he1 : e.1 = g := h1
  have hgm : g ∣ m := Int.gcd_dvd_left m mi
  have hgmi : g ∣ mi := Int.gcd_dvd_right m mi
  obtain ⟨tq, htq⟩ := hg
  obtain ⟨mq, hmq⟩ := hgmi
  obtain ⟨nq, hnq⟩ := hgm
  by_cases hg0 : g = 0
  · -- both moduli are zero
    have hm0 : m = 0 := by rw [hnq, hg0, zero_mul]
    have hmi0 : mi = 0 := by rw [hmq, hg0, zero_mul]
    have hri : ri - r = 0 := by rw [htq, hg0, zero_mul]
    simp only [r0, m', he1, hg0, hm0, hmi0, hri]
    refine ⟨by simp, by simp; omega, by simp, by simp, fun y hy _ => by simpa using hy⟩
  · have ht : Int.tdiv (ri - r) e.1 = tq := by
      rw [he1, htq]; exact Int.mul_tdiv_cancel_left _ hg0
    have hmi : Int.tdiv mi e.1 = mq := by
      rw [he1]; conv_lhs => rw [hmq]
      exact Int.mul_tdiv_cancel_left _ hg0
    have hbez : m * e.2.1 + mi * e.2.2 = g := h2
    refine ⟨⟨e.2.1 * tq, by simp only [r0, ht]; ring⟩, ?_, ⟨mq, by simp only [m', hmi]⟩, ?_, ?_⟩
    · -- r0 - ri = (m s - g) tq = - mi * t' * tq
      refine ⟨-(e.2.2 * tq), ?_⟩
      simp only [r0, ht]
      have : r0 - ri = (m * e.2.1 - g) * tq := by
        simp only [r0, ht]; linarith [htq]
      have e2 : m * e.2.1 - g = -(mi * e.2.2) := by linarith
      calc r + m * e.2.1 * tq - ri = (m * e.2.1 - g) * tq := by linarith [htq]
        _ = mi * -(e.2.2 * tq) := by rw [e2]; ring
    · refine ⟨nq, ?_⟩
      simp only [m', hmi]
      rw [hnq, hmq]
      ring
    · intro y hy1 hy2
      obtain ⟨u, hu⟩ := hy1
      obtain ⟨v, hv⟩ := hy2
      simp only [m', hmi]
      have hyg : y * g = (m * mq * g) * (v * e.2.1 + u * e.2.2) := by
        have e1 : y * g = y * (m * e.2.1) + y * (mi * e.2.2) := by rw [← mul_add, hbez]
        rw [e1]
        conv_lhs => rw [show y * (m * e.2.1) = (mi * v) * (m * e.2.1) by rw [← hv],
          show y * (mi * e.2.2) = (m * u) * (mi * e.2.2) by rw [← hu]]
        have : mi = g * mq := hmq
        rw [this]; ring
      have : m * mq * g ∣ y * g := ⟨_, hyg⟩
      exact Int.dvd_of_mul_dvd_mul_right hg0 this

theorem crtLoop_spec : ∀ (rs ms : List Int) (m r : Int) (res : Option Int),
    crtLoop rs ms m r = .ok res →
    match res with
    | some R => m ∣ R - r ∧ Sol R rs ms
    | none => ¬ ∃ x, m ∣ x - r ∧ Sol x rs ms := by
  intro rs ms
  induction ms generalizing rs with
  | nil =>
    intro m r res h
    cases rs <;> · simp [crtLoop] at h; subst h; simp [Sol]
  | cons mi ms ih =>
    intro m r res h
    cases rs with
    | nil => simp [crtLoop] at h
    | cons ri rs =>
      unfold crtLoop at h
      simp only at h
      obtain ⟨hb1, _⟩ := bezout_spec m mi
      by_cases hdiv : divides (ri - r) (bezout m mi).1 = true
      · simp only [hdiv, Bool.not_true, Bool.false_eq_true, if_false] at h
        have hg : ((Int.gcd m mi : Nat) : Int) ∣ ri - r := by
          rw [← hb1]; exact (divides_iff _ _).mp hdiv
        obtain ⟨s1, s2, s3, s4, s5⟩ := crt_step hg
        by_cases hm0 : (m * Int.tdiv mi (bezout m mi).1 == 0) = true
        · simp [hm0] at h
        · simp only [hm0, Bool.false_eq_true, if_false] at h
          have := ih rs _ _ res h
          set m' := m * Int.tdiv mi (bezout m mi).1
          set r0 := r + m * (bezout m mi).2.1 * Int.tdiv (ri - r) (bezout m mi).1
          have hf : m' ∣ Int.fmod r0 m' - r0 := fmod_dvd_sub r0 m'
          cases res with
          | some R =>
            simp only at this ⊢
            obtain ⟨h1, h2⟩ := this
            have hR0 : m' ∣ R - r0 := by
              have := Int.dvd_add h1 hf
              rwa [show R - Int.fmod r0 m' + (Int.fmod r0 m' - r0) = R - r0 by ring] at this
            refine ⟨?_, sol_cons.mpr ⟨?_, h2⟩⟩
            · have := Int.dvd_add (s3.trans hR0) s1
              rwa [show R - r0 + (r0 - r) = R - r by ring] at this
            · have := Int.dvd_add (s4.trans hR0) s2
              rwa [show R - r0 + (r0 - ri) = R - ri by ring] at this
          | none =>
            simp only at this ⊢
            rintro ⟨x, hx1, hx2⟩
            obtain ⟨hx2a, hx2b⟩ := sol_cons.mp hx2
            apply this
            refine ⟨x, ?_, hx2b⟩
            have h1 : m ∣ x - r0 := by
              have := Int.dvd_sub hx1 s1
              rwa [show x - r - (r0 - r) = x - r0 by ring] at this
            have h2 : mi ∣ x - r0 := by
              have := Int.dvd_sub hx2a s2
              rwa [show x - ri - (r0 - ri) = x - r0 by ring] at this
            have := Int.dvd_sub (s5 _ h1 h2) hf
            rwa [show x - r0 - (Int.fmod r0 m' - r0) = x - Int.fmod r0 m' by ring] at this
      · have hd' : divides (ri - r) (bezout m mi).1 = false := by simpa using hdiv
        simp only [hd', Bool.not_false, if_true] at h
        injection h with h
        subst h
        simp only
        rintro ⟨x, hx1, hx2⟩
        obtain ⟨hx2a, _⟩ := sol_cons.mp hx2
        apply hdiv
        rw [divides_iff, hb1]
        have g1 : ((Int.gcd m mi : Nat) : Int) ∣ x - r := (Int.gcd_dvd_left m mi).trans hx1
        have g2 : ((Int.gcd m mi : Nat) : Int) ∣ x - ri := (Int.gcd_dvd_right m mi).trans hx2a
        have := Int.dvd_sub g1 g2
        rwa [show x - r - (x - ri) = ri - r by ring] at this

theorem tdiv_pos_of_dvd {a g : Int} (ha : 0 < a) (hg : 0 < g) (hd : g ∣ a) : 0 < a.tdiv g := by
  obtain ⟨c, hc⟩ := hd
  subst hc
  rw [Int.mul_tdiv_cancel_left _ hg.ne']
  by_contra hcon
  have : g * c ≤ 0 := Int.mul_nonpos_of_nonneg_of_nonpos hg.le (by omega)
  omega

/-- with positive moduli and at least one step, the result is the canonical representative:
    `0 ≤ R < M` for a modulus `M` that divides the difference of `R` to every solution -/
theorem crtLoop_canon : ∀ (ms rs : List Int) (mi ri m r R : Int), 0 < m → 0 < mi → (∀ x ∈ ms, 0 < x) →
    crtLoop (ri :: rs) (mi :: ms) m r = .ok (some R) →
    ∃ M : Int, 0 < M ∧ 0 ≤ R ∧ R < M ∧ ∀ x, m ∣ x - r → Sol x (ri :: rs) (mi :: ms) → M ∣ x - R := by
  intro ms
  induction ms with
  | nil =>
    intro rs mi ri m r R hm hmi _ h
    unfold crtLoop at h
    simp only at h
    obtain ⟨hb1, _⟩ := bezout_spec m mi
    by_cases hdiv : divides (ri - r) (bezout m mi).1 = true
    · simp only [hdiv, Bool.not_true, Bool.false_eq_true, if_false] at h
      have hg : ((Int.gcd m mi : Nat) : Int) ∣ ri - r := by
        rw [← hb1]; exact (divides_iff _ _).mp hdiv
      obtain ⟨s1, s2, s3, s4, s5⟩ := crt_step hg
      by_cases hm0 : (m * Int.tdiv mi (bezout m mi).1 == 0) = true
      · simp [hm0] at h
      · simp only [hm0, Bool.false_eq_true, if_false] at h
        set m' := m * Int.tdiv mi (bezout m mi).1 with hm'
        set r0 := r + m * (bezout m mi).2.1 * Int.tdiv (ri - r) (bezout m mi).1
        have hgpos : 0 < (bezout m mi).1 := by
          rw [hb1]; exact_mod_cast Int.gcd_pos_of_ne_zero_left _ hm.ne'
        have hq : 0 < Int.tdiv mi (bezout m mi).1 :=
          tdiv_pos_of_dvd hmi hgpos (by rw [hb1]; exact Int.gcd_dvd_right m mi)
        have hm'pos : 0 < m' := Int.mul_pos hm hq
        have hR : R = Int.fmod r0 m' := by
          cases rs <;> · simp [crtLoop] at h; exact h.symm
        refine ⟨m', hm'pos, ?_, ?_, ?_⟩
        · rw [hR]; exact Int.fmod_nonneg_of_pos _ hm'pos
        · rw [hR]; exact Int.fmod_lt_of_pos _ hm'pos
        · intro x hx1 hx2
          obtain ⟨hx2a, _⟩ := sol_cons.mp hx2
          have h1 : m ∣ x - r0 := by
            have := Int.dvd_sub hx1 s1
            rwa [show x - r - (r0 - r) = x - r0 by ring] at this
          have h2 : mi ∣ x - r0 := by
            have := Int.dvd_sub hx2a s2
            rwa [show x - ri - (r0 - ri) = x - r0 by ring] at this
          have := Int.dvd_sub (s5 _ h1 h2) (fmod_dvd_sub r0 m')
          rw [hR]
          rwa [show x - r0 - (Int.fmod r0 m' - r0) = x - Int.fmod r0 m' by ring] at this
    · have hd' : divides (ri - r) (bezout m mi).1 = false := by simpa using hdiv
      simp [hd'] at h
  | cons mj ms ih =>
    intro rs mi ri m r R hm hmi hpos h
    cases rs with
    | nil =>
      unfold crtLoop at h
      simp only at h
      by_cases hdiv : divides (ri - r) (bezout m mi).1 = true
      · simp only [hdiv, Bool.not_true, Bool.false_eq_true, if_false] at h
        by_cases hm0 : (m * Int.tdiv mi (bezout m mi).1 == 0) = true
        · simp [hm0] at h
        · simp only [hm0, Bool.false_eq_true, if_false] at h
          simp [crtLoop] at h
      · have hd' : divides (ri - r) (bezout m mi).1 = false := by simpa using hdiv
        simp [hd'] at h
    | cons rj rs =>
      unfold crtLoop at h
      simp only at h
      obtain ⟨hb1, _⟩ := bezout_spec m mi
      by_cases hdiv : divides (ri - r) (bezout m mi).1 = true
      · simp only [hdiv, Bool.not_true, Bool.false_eq_true, if_false] at h
        have hg : ((Int.gcd m mi : Nat) : Int) ∣ ri - r := by
          rw [← hb1]; exact (divides_iff _ _).mp hdiv
        obtain ⟨s1, s2, s3, s4, s5⟩ := crt_step hg
        by_cases hm0 : (m * Int.tdiv mi (bezout m mi).1 == 0) = true
        · simp [hm0] at h
        · simp only [hm0, Bool.false_eq_true, if_false] at h
          set m' := m * Int.tdiv mi (bezout m mi).1 with hm'
          set r0 := r + m * (bezout m mi).2.1 * Int.tdiv (ri - r) (bezout m mi).1
          have hgpos : 0 < (bezout m mi).1 := by
            rw [hb1]; exact_mod_cast Int.gcd_pos_of_ne_zero_left _ hm.ne'
          have hq : 0 < Int.tdiv mi (bezout m mi).1 :=
            tdiv_pos_of_dvd hmi hgpos (by rw [hb1]; exact Int.gcd_dvd_right m mi)
          have hm'pos : 0 < m' := Int.mul_pos hm hq
          obtain ⟨M, hM, hR0, hRM, hall⟩ := ih rs mj rj m' (Int.fmod r0 m') R hm'pos
            (hpos mj (by simp)) (fun x hx => hpos x (List.mem_cons_of_mem _ hx)) h
          refine ⟨M, hM, hR0, hRM, ?_⟩
          intro x hx1 hx2
          obtain ⟨hx2a, hx2b⟩ := sol_cons.mp hx2
          apply hall x ?_ hx2b
          have h1 : m ∣ x - r0 := by
            have := Int.dvd_sub hx1 s1
            rwa [show x - r - (r0 - r) = x - r0 by ring] at this
          have h2 : mi ∣ x - r0 := by
            have := Int.dvd_sub hx2a s2
            rwa [show x - ri - (r0 - ri) = x - r0 by ring] at this
          have := Int.dvd_sub (s5 _ h1 h2) (fmod_dvd_sub r0 m')
          rwa [show x - r0 - (Int.fmod r0 m' - r0) = x - Int.fmod r0 m' by ring] at this
      · have hd' : divides (ri - r) (bezout m mi).1 = false := by simpa using hdiv
        simp [hd'] at h

theorem tdiv_ne_zero_of_dvd {a g : Int} (ha : a ≠ 0) (hg : g ≠ 0) (hd : g ∣ a) : a.tdiv g ≠ 0 := by
  obtain ⟨c, hc⟩ := hd
  subst hc
  rw [Int.mul_tdiv_cancel_left _ hg]
  intro h0
  rw [h0, mul_zero] at ha
  exact ha rfl

/-- the loop never fails (no exception, no division by zero) for non-zero moduli and enough remainders -/
theorem crtLoop_total : ∀ (ms rs : List Int) (m r : Int), m ≠ 0 → (∀ x ∈ ms, x ≠ 0) → ms.length ≤ rs.length →
    ∃ res, crtLoop rs ms m r = .ok res := by
  intro ms
  induction ms with
  | nil => intro rs m r _ _ _; cases rs <;> exact ⟨_, rfl⟩
  | cons mi ms ih =>
    intro rs m r hm hnz hlen
    cases rs with
    | nil => simp at hlen
    | cons ri rs =>
      unfold crtLoop
      simp only
      obtain ⟨hb1, _⟩ := bezout_spec m mi
      by_cases hdiv : divides (ri - r) (bezout m mi).1 = true
      · simp only [hdiv, Bool.not_true, Bool.false_eq_true, if_false]
        have hmi : mi ≠ 0 := hnz mi (by simp)
        have hgne : (bezout m mi).1 ≠ 0 := by
          rw [hb1]; exact_mod_cast (Int.gcd_pos_of_ne_zero_left _ hm).ne'
        have hq : Int.tdiv mi (bezout m mi).1 ≠ 0 :=
          tdiv_ne_zero_of_dvd hmi hgne (by rw [hb1]; exact Int.gcd_dvd_right m mi)
        have hm' : m * Int.tdiv mi (bezout m mi).1 ≠ 0 := Int.mul_ne_zero hm hq
        have : (m * Int.tdiv mi (bezout m mi).1 == 0) = false := by simpa using hm'
        simp only [this, Bool.false_eq_true, if_false]
        exact ih rs _ _ hm' (fun x hx => hnz x (List.mem_cons_of_mem _ hx)) (by simpa using hlen)
      · have hd' : divides (ri - r) (bezout m mi).1 = false := by simpa using hdiv
        simp only [hd', Bool.not_false, if_true]
        exact ⟨_, rfl⟩

end SymVerif.C32
