/-
C03 helper lemmas: the sorted association lists that model `umap_basic_num` / `map_basic_basic`.
-/
import SymVerif.Lemmas.C03Key

namespace SymVerif.Arith

/-- strict order of two entries by their keys -/
def KLt (p q : Expr × Expr) : Prop := lexLt (key p.1) (key q.1) = true

/-- strictly increasing keys (Prop version of `keysSorted`) -/
def Sorted (d : Dict) : Prop := d.Pairwise KLt

theorem KLt_trans {p q r : Expr × Expr} (h1 : KLt p q) (h2 : KLt q r) : KLt p r :=
  lexLt_trans h1 h2

theorem keysSorted_iff : ∀ d : Dict, keysSorted d = true ↔ Sorted d
  | [] => by simp [keysSorted, Sorted]
  | [p] => by simp [keysSorted, Sorted]
  | (k₁, v₁) :: (k₂, v₂) :: r => by
    have ih := keysSorted_iff ((k₂, v₂) :: r)
    simp only [keysSorted, Bool.and_eq_true, ih, Sorted, List.pairwise_cons]
    constructor
    · rintro ⟨h1, h2, h3⟩
      refine ⟨?_, h2, h3⟩
      intro p hp
      rcases List.mem_cons.mp hp with rfl | hp
      · exact h1
      · exact KLt_trans (q := (k₂, v₂)) h1 (h2 p hp)
    · rintro ⟨h1, h2, h3⟩
      exact ⟨h1 _ (List.mem_cons_self), h2, h3⟩

theorem Sorted.tail {p : Expr × Expr} {d : Dict} (h : Sorted (p :: d)) : Sorted d :=
  (List.pairwise_cons.mp h).2

theorem Sorted.head {p : Expr × Expr} {d : Dict} (h : Sorted (p :: d)) : ∀ q ∈ d, KLt p q :=
  (List.pairwise_cons.mp h).1

/-! ### find -/

theorem dfind_some : ∀ {d : Dict} {t v : Expr}, dfind d t = some v → (t, v) ∈ d
  | [], _, _, h => by simp [dfind] at h
  | (k, x) :: r, t, v, h => by
    simp only [dfind] at h
    split at h
    · rename_i hk
      have := key_beq_iff.mp hk
      simp at h
      subst this; subst h
      exact List.mem_cons_self
    · exact List.mem_cons_of_mem _ (dfind_some h)

theorem dfind_none : ∀ {d : Dict} {t : Expr}, dfind d t = none → ∀ p ∈ d, p.1 ≠ t
  | [], _, _, p, hp => by simp at hp
  | (k, x) :: r, t, h, p, hp => by
    simp only [dfind] at h
    split at h
    · simp at h
    · rename_i hk
      rcases List.mem_cons.mp hp with rfl | hp
      · intro e
        apply hk
        simp at e
        simp [e]
      · exact dfind_none h p hp

/-! ### insert -/

theorem mem_dinsert : ∀ {d : Dict} {t v : Expr} {p : Expr × Expr},
    p ∈ dinsert d t v → p = (t, v) ∨ p ∈ d
  | [], t, v, p, h => by simpa [dinsert] using h
  | (k, x) :: r, t, v, p, h => by
    simp only [dinsert] at h
    split at h
    · rcases List.mem_cons.mp h with rfl | h
      · exact Or.inl rfl
      · exact Or.inr h
    · split at h
      · exact Or.inr h
      · rcases List.mem_cons.mp h with rfl | h
        · exact Or.inr List.mem_cons_self
        · rcases mem_dinsert h with e | h
          · exact Or.inl e
          · exact Or.inr (List.mem_cons_of_mem _ h)

theorem sorted_dinsert : ∀ {d : Dict} {t v : Expr}, Sorted d → Sorted (dinsert d t v)
  | [], t, v, _ => by simp [dinsert, Sorted]
  | (k, x) :: r, t, v, h => by
    simp only [dinsert]
    split
    · rename_i hlt
      refine List.pairwise_cons.mpr ⟨?_, h⟩
      intro q hq
      rcases List.mem_cons.mp hq with rfl | hq
      · exact hlt
      · exact KLt_trans (q := (k, x)) hlt (h.head q hq)
    · split
      · exact h
      · rename_i hlt hne
        refine List.pairwise_cons.mpr ⟨?_, sorted_dinsert h.tail⟩
        intro q hq
        rcases mem_dinsert hq with rfl | hq
        · -- key k < key t by totality
          show lexLt (key k) (key t) = true
          cases hkt : lexLt (key k) (key t) with
          | true => rfl
          | false =>
            have := lexLt_total hkt (by simpa using hlt)
            exact absurd (by simp [this]) hne
        · exact h.head q hq

theorem dinsert_ne_nil (d : Dict) (t v : Expr) : dinsert d t v ≠ [] := by
  cases d with
  | nil => simp [dinsert]
  | cons p r =>
    obtain ⟨k, x⟩ := p
    simp only [dinsert]
    split
    · simp
    · split <;> simp

/-- inserting an absent key really inserts it -/
theorem mem_dinsert_self : ∀ {d : Dict} {t v : Expr}, dfind d t = none → (t, v) ∈ dinsert d t v
  | [], t, v, _ => by simp [dinsert]
  | (k, x) :: r, t, v, h => by
    simp only [dfind] at h
    split at h
    · simp at h
    · rename_i hk
      simp only [dinsert]
      split
      · exact List.mem_cons_self
      · exact List.mem_cons_of_mem _ (mem_dinsert_self h)

theorem mem_dinsert_of_mem : ∀ {d : Dict} {t v : Expr} {p : Expr × Expr}, p ∈ d → p ∈ dinsert d t v
  | (k, x) :: r, t, v, p, h => by
    simp only [dinsert]
    split
    · exact List.mem_cons_of_mem _ h
    · split
      · exact h
      · rcases List.mem_cons.mp h with rfl | h
        · exact List.mem_cons_self
        · exact List.mem_cons_of_mem _ (mem_dinsert_of_mem h)

/-! ### erase -/

theorem mem_derase : ∀ {d : Dict} {t : Expr} {p : Expr × Expr}, p ∈ derase d t → p ∈ d
  | [], _, _, h => by simp [derase] at h
  | (k, x) :: r, t, p, h => by
    simp only [derase] at h
    split at h
    · exact List.mem_cons_of_mem _ h
    · rcases List.mem_cons.mp h with rfl | h
      · exact List.mem_cons_self
      · exact List.mem_cons_of_mem _ (mem_derase h)

theorem derase_sublist : ∀ (d : Dict) (t : Expr), (derase d t).Sublist d
  | [], _ => by simp [derase]
  | (k, x) :: r, t => by
    simp only [derase]
    split
    · exact List.sublist_cons_self _ _
    · exact (derase_sublist r t).cons_cons _

theorem sorted_derase {d : Dict} {t : Expr} (h : Sorted d) : Sorted (derase d t) :=
  List.Pairwise.sublist (derase_sublist d t) h

/-- in a sorted dictionary the erased key is gone -/
theorem not_mem_derase : ∀ {d : Dict} {t : Expr}, Sorted d → ∀ p ∈ derase d t, p.1 ≠ t
  | [], _, _, p, hp => by simp [derase] at hp
  | (k, x) :: r, t, h, p, hp => by
    simp only [derase] at hp
    split at hp
    · rename_i hk
      have e := key_beq_iff.mp hk
      subst e
      intro e
      have := h.head p hp
      unfold KLt at this
      simp [e, lexLt_irrefl] at this
    · rename_i hk
      rcases List.mem_cons.mp hp with rfl | hp
      · intro e; apply hk; simp at e; simp [e]
      · exact not_mem_derase h.tail p hp

/-! ### set -/

theorem mem_dset : ∀ {d : Dict} {t v : Expr} {p : Expr × Expr},
    p ∈ dset d t v → p = (t, v) ∨ p ∈ d
  | [], _, _, _, h => by simp [dset] at h
  | (k, x) :: r, t, v, p, h => by
    simp only [dset] at h
    split at h
    · rename_i hk
      have e := key_beq_iff.mp hk
      subst e
      rcases List.mem_cons.mp h with rfl | h
      · exact Or.inl rfl
      · exact Or.inr (List.mem_cons_of_mem _ h)
    · rcases List.mem_cons.mp h with rfl | h
      · exact Or.inr List.mem_cons_self
      · rcases mem_dset h with e | h
        · exact Or.inl e
        · exact Or.inr (List.mem_cons_of_mem _ h)

theorem dset_keys : ∀ (d : Dict) (t v : Expr), (dset d t v).map Prod.fst = d.map Prod.fst
  | [], _, _ => by simp [dset]
  | (k, x) :: r, t, v => by
    simp only [dset]
    split
    · simp
    · simp [dset_keys r t v]

theorem sorted_of_keys_eq {d d' : Dict} (hk : d'.map Prod.fst = d.map Prod.fst) (h : Sorted d) :
    Sorted d' := by
  have h1 : (d.map Prod.fst).Pairwise (fun a b => lexLt (key a) (key b) = true) := by
    rw [List.pairwise_map]; exact h
  rw [← hk, List.pairwise_map] at h1
  exact h1

theorem sorted_dset {d : Dict} {t v : Expr} (h : Sorted d) : Sorted (dset d t v) :=
  sorted_of_keys_eq (dset_keys d t v) h

theorem dset_ne_nil : ∀ {d : Dict} {t v : Expr}, d ≠ [] → dset d t v ≠ []
  | [], _, _, h => absurd rfl h
  | (k, x) :: r, t, v, _ => by
    simp only [dset]
    split <;> simp

/-- after `it->second = v` the entry of `t` is `(t, v)` and the others are unchanged -/
theorem mem_dset_iff_of_sorted : ∀ {d : Dict} {t v : Expr} {p : Expr × Expr}, Sorted d →
    p ∈ dset d t v → (p = (t, v)) ∨ (p ∈ d ∧ p.1 ≠ t)
  | [], _, _, _, _, h => by simp [dset] at h
  | (k, x) :: r, t, v, p, hs, h => by
    simp only [dset] at h
    split at h
    · rename_i hk
      have e := key_beq_iff.mp hk
      subst e
      rcases List.mem_cons.mp h with rfl | h
      · exact Or.inl rfl
      · refine Or.inr ⟨List.mem_cons_of_mem _ h, ?_⟩
        intro e
        have := hs.head p h
        unfold KLt at this
        simp [e, lexLt_irrefl] at this
    · rename_i hk
      rcases List.mem_cons.mp h with rfl | h
      · refine Or.inr ⟨List.mem_cons_self, ?_⟩
        intro e; apply hk; simp at e; simp [e]
      · rcases mem_dset_iff_of_sorted hs.tail h with e | ⟨h1, h2⟩
        · exact Or.inl e
        · exact Or.inr ⟨List.mem_cons_of_mem _ h1, h2⟩

end SymVerif.Arith
