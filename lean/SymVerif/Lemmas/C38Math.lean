import Mathlib.LinearAlgebra.Lagrange
import Mathlib.Algebra.Polynomial.Derivative
import Mathlib.Tactic.Ring
import Mathlib.Tactic.FieldSimp
import Mathlib.Tactic.Linarith
/-!
Mathematics behind Fornberg's recurrences (C38): Lagrange basis polynomials on the first `i+1`
nodes, their derivatives at the centre, and the two recurrences the C++ loop nest implements.
-/
namespace SymVerif.C38
open Polynomial Finset

/-- Lagrange basis polynomial of node `j` on the nodes `x 0 … x i`. -/
noncomputable def Lb (x : ℕ → ℚ) (i j : ℕ) : ℚ[X] := Lagrange.basis (range (i + 1)) x j

/-- `k`-th derivative at `z` of `Lb x i j` — what `weights[j + k*len]` must hold after stage `i`. -/
noncomputable def dv (x : ℕ → ℚ) (z : ℚ) (i j k : ℕ) : ℚ := (derivative^[k] (Lb x i j)).eval z

/-- Leibniz rule for a linear factor. -/
theorem iterate_derivative_linear_mul (a : ℚ) (p : ℚ[X]) (k : ℕ) :
    derivative^[k + 1] ((X - C a) * p)
      = (X - C a) * derivative^[k + 1] p + ((k + 1 : ℕ) : ℚ[X]) * derivative^[k] p := by
  induction k with
  | zero => simp [derivative_mul]; ring
  | succ k ih =>
    rw [Function.iterate_succ_apply', ih, Function.iterate_succ_apply' (f := derivative) (n := k + 1),
      Function.iterate_succ_apply' (f := derivative) (n := k)]
    simp only [derivative_add, derivative_mul, derivative_sub, derivative_X, derivative_C,
      derivative_natCast, Nat.cast_add, Nat.cast_one, derivative_one]
    ring

theorem Lb_zero (x : ℕ → ℚ) : Lb x 0 0 = 1 := by
  simp [Lb]

theorem Lb_succ_of_le (x : ℕ → ℚ) {i j : ℕ} (hj : j ≤ i) :
    Lb x (i + 1) j = C (x j - x (i + 1))⁻¹ * ((X - C (x (i + 1))) * Lb x i j) := by
  unfold Lb Lagrange.basis
  have h1 : (range (i + 1 + 1)).erase j = insert (i + 1) ((range (i + 1)).erase j) := by
    rw [range_add_one (n := i + 1), erase_insert_of_ne (by omega)]
  rw [h1, prod_insert (by simp), Lagrange.basisDivisor, mul_assoc]

/-- running product `∏_{m<n} (x i - x m)` — the value of `c2` after `n` iterations of the `j` loop -/
def cprod (x : ℕ → ℚ) (i n : ℕ) : ℚ := ∏ m ∈ range n, (x i - x m)

theorem cprod_succ (x : ℕ → ℚ) (i n : ℕ) : cprod x i (n + 1) = cprod x i n * (x i - x n) := by
  simp [cprod, prod_range_succ]

theorem cprod_ne_zero (x : ℕ → ℚ) {i n : ℕ} (h : ∀ m < n, x i ≠ x m) : cprod x i n ≠ 0 := by
  unfold cprod
  rw [prod_ne_zero_iff]
  intro m hm
  exact sub_ne_zero.mpr (h m (mem_range.mp hm))

theorem Lb_self_eq (x : ℕ → ℚ) (i : ℕ) :
    Lb x i i = C (cprod x i i)⁻¹ * ∏ m ∈ range i, (X - C (x m)) := by
  unfold Lb Lagrange.basis cprod
  have h1 : (range (i + 1)).erase i = range i := by
    rw [range_add_one, erase_insert (by simp)]
  rw [h1]
  simp only [Lagrange.basisDivisor, prod_mul_distrib, ← map_prod, prod_inv_distrib]

theorem Lb_succ_self (x : ℕ → ℚ) (i : ℕ) (h1 : cprod x i i ≠ 0) :
    Lb x (i + 1) (i + 1)
      = C (cprod x i i / cprod x (i + 1) (i + 1)) * ((X - C (x i)) * Lb x i i) := by
  rw [Lb_self_eq x (i + 1), Lb_self_eq x i, prod_range_succ]
  have : C (cprod x i i / cprod x (i + 1) (i + 1)) = C (cprod x (i + 1) (i + 1))⁻¹ * C (cprod x i i) := by
    rw [← C_mul]; congr 1; rw [div_eq_mul_inv, mul_comm]
  rw [this]
  have h2 : C (cprod x i i) * C (cprod x i i)⁻¹ = (1 : ℚ[X]) := by
    rw [← C_mul, mul_inv_cancel₀ h1, C_1]
  calc C (cprod x (i + 1) (i + 1))⁻¹ * ((∏ m ∈ range i, (X - C (x m))) * (X - C (x i)))
      = C (cprod x (i + 1) (i + 1))⁻¹ * ((∏ m ∈ range i, (X - C (x m))) * (X - C (x i))) * 1 := by ring
    _ = _ := by rw [← h2]; ring

theorem dv_zero_zero (x : ℕ → ℚ) (z : ℚ) : dv x z 0 0 0 = 1 := by
  simp [dv, Lb_zero]

theorem dv_zero_succ (x : ℕ → ℚ) (z : ℚ) (k : ℕ) : dv x z 0 0 (k + 1) = 0 := by
  simp [dv, Lb_zero, iterate_derivative_one]

theorem dv_eq_zero_of_lt (x : ℕ → ℚ) (z : ℚ) {i j k : ℕ} (hx : Set.InjOn x (range (i + 1)))
    (hj : j ≤ i) (hk : i < k) : dv x z i j k = 0 := by
  unfold dv Lb
  rw [iterate_derivative_eq_zero, eval_zero]
  rw [Lagrange.natDegree_basis hx (by simp; omega)]
  simp; omega

theorem dv_old_zero (x : ℕ → ℚ) (z : ℚ) {i j : ℕ} (hj : j ≤ i) (hne : x (i + 1) ≠ x j) :
    dv x z (i + 1) j 0 = (x (i + 1) - z) * dv x z i j 0 / (x (i + 1) - x j) := by
  unfold dv
  rw [Lb_succ_of_le x hj]
  have h1 : x (i + 1) - x j ≠ 0 := sub_ne_zero.mpr hne
  have h2 : x j - x (i + 1) ≠ 0 := sub_ne_zero.mpr (Ne.symm hne)
  simp only [Function.iterate_zero, id_eq, eval_mul, eval_C, eval_sub, eval_X]
  field_simp
  ring

theorem dv_old_succ (x : ℕ → ℚ) (z : ℚ) {i j : ℕ} (k : ℕ) (hj : j ≤ i) (hne : x (i + 1) ≠ x j) :
    dv x z (i + 1) j (k + 1)
      = ((x (i + 1) - z) * dv x z i j (k + 1) - ((k + 1 : ℕ) : ℚ) * dv x z i j k)
          / (x (i + 1) - x j) := by
  unfold dv
  rw [Lb_succ_of_le x hj, iterate_derivative_C_mul, iterate_derivative_linear_mul]
  have h1 : x (i + 1) - x j ≠ 0 := sub_ne_zero.mpr hne
  have h2 : x j - x (i + 1) ≠ 0 := sub_ne_zero.mpr (Ne.symm hne)
  simp only [eval_mul, eval_C, eval_sub, eval_X, eval_add, eval_natCast]
  field_simp
  ring

theorem dv_new_zero (x : ℕ → ℚ) (z : ℚ) (i : ℕ) (h1 : cprod x i i ≠ 0) :
    dv x z (i + 1) (i + 1) 0
      = -1 * (cprod x i i * ((x i - z) * dv x z i i 0) / cprod x (i + 1) (i + 1)) := by
  unfold dv
  rw [Lb_succ_self x i h1]
  simp only [Function.iterate_zero, id_eq, eval_mul, eval_C, eval_sub, eval_X]
  ring

theorem dv_new_succ (x : ℕ → ℚ) (z : ℚ) (i k : ℕ) (h1 : cprod x i i ≠ 0) :
    dv x z (i + 1) (i + 1) (k + 1)
      = cprod x i i * (((k + 1 : ℕ) : ℚ) * dv x z i i k - (x i - z) * dv x z i i (k + 1))
          / cprod x (i + 1) (i + 1) := by
  unfold dv
  rw [Lb_succ_self x i h1, iterate_derivative_C_mul, iterate_derivative_linear_mul]
  simp only [eval_mul, eval_C, eval_sub, eval_X, eval_add, eval_natCast]
  ring

/-- Exactness from the Lagrange representation: weights `dv x z (n-1) j k` reproduce the `k`-th
derivative at `z` of every polynomial of degree `< n`. -/
theorem sum_dv_eq (x : ℕ → ℚ) (z : ℚ) (n : ℕ) (hx : Set.InjOn x (range (n + 1))) (k : ℕ)
    (P : ℚ[X]) (hP : P.degree < (n + 1 : ℕ)) :
    ∑ j ∈ range (n + 1), dv x z n j k * P.eval (x j) = (derivative^[k] P).eval z := by
  have h := Lagrange.eq_interpolate (s := range (n + 1)) (v := x) hx (by simpa using hP)
  conv_rhs => rw [h]
  rw [Lagrange.interpolate_apply, iterate_derivative_sum, eval_finsetSum]
  refine sum_congr rfl fun j _ => ?_
  rw [iterate_derivative_C_mul, eval_mul, eval_C, mul_comm]
  rfl

end SymVerif.C38
