import SymVerif.Lemmas.C25Canon
/-!
C25 — the converse direction for `is_canonical`: what the library's check guarantees, and the
three things it does not look at (`p[0] = 0`, column indices `< col`, and monotonicity of `p`
when `p[row] = 0`).
-/
namespace SymVerif.C25
open SymVerif.CSR Finset

theorem rd_ge {α : Type} {a : Array α} {k : Nat} (h : ¬ k < a.size) : rd a k = .error .oob := by
  simp [rd, h]

theorem adjLoop_sound (bad : Nat → Nat → Bool) (j : Array Nat) (hi : Nat) :
    ∀ f jj, hi - jj ≤ f → adjLoop bad j hi f jj = .ok false →
      ∀ k, jj ≤ k → k + 1 < hi → k + 1 < j.size ∧ bad j[k]! j[k + 1]! = false := by
  intro f
  induction f with
  | zero => intro jj h _ k h1 h2; omega
  | succ f ih =>
    intro jj hf h k hk1 hk2
    unfold adjLoop at h
    have hlt : jj + 1 < hi := by omega
    simp only [hlt, if_true] at h
    by_cases h1 : jj < j.size
    · by_cases h2 : jj + 1 < j.size
      · simp only [rd_lt h1, rd_lt h2, ok_bind] at h
        by_cases hb : bad j[jj]! j[jj + 1]! = true
        · simp [hb] at h
        · simp only [hb, Bool.false_eq_true, if_false] at h
          by_cases hkj : k = jj
          · subst hkj
            exact ⟨h2, by simpa using hb⟩
          · exact ih (jj + 1) (by omega) h k (by omega) hk2
      · simp [rd_lt h1, rd_ge h2] at h
    · simp [rd_ge h1] at h

theorem rowsAny_sound (bad : Nat → Nat → Bool) (p j : Array Nat) :
    ∀ n i, rowsAny bad p j n i = .ok false →
      ∀ r, i ≤ r → r < i + n → r + 1 < p.size ∧
        ∀ k, p[r]! ≤ k → k + 1 < p[r + 1]! → k + 1 < j.size ∧ bad j[k]! j[k + 1]! = false := by
  intro n
  induction n with
  | zero => intro i _ r h1 h2; omega
  | succ n ih =>
    intro i h r hr1 hr2
    unfold rowsAny at h
    by_cases h1 : i < p.size
    · by_cases h2 : i + 1 < p.size
      · simp only [rd_lt h1, rd_lt h2, ok_bind] at h
        cases hadj : adjLoop bad j p[i + 1]! (p[i + 1]! - p[i]!) p[i]! with
        | error e => simp [hadj] at h
        | ok b =>
          cases b with
          | true => simp [hadj] at h
          | false =>
            simp only [hadj, ok_bind, Bool.false_eq_true, if_false] at h
            by_cases hri : r = i
            · subst hri
              exact ⟨h2, adjLoop_sound bad j _ _ _ (Nat.le_refl _) hadj⟩
            · exact ih (i + 1) h r (by omega) (by omega)
      · simp [rd_lt h1, rd_ge h2] at h
    · simp [rd_ge h1] at h

theorem pDecreases_sound (p : Array Nat) :
    ∀ n i, pDecreases p n i = .ok false → ∀ r, i ≤ r → r < i + n → p[r]! ≤ p[r + 1]! := by
  intro n
  induction n with
  | zero => intro i _ r h1 h2; omega
  | succ n ih =>
    intro i h r hr1 hr2
    unfold pDecreases at h
    by_cases h1 : i < p.size
    · by_cases h2 : i + 1 < p.size
      · simp only [rd_lt h1, rd_lt h2, ok_bind] at h
        by_cases hd : p[i]! > p[i + 1]!
        · simp [hd] at h
        · simp only [hd, if_false] at h
          by_cases hri : r = i
          · subst hri; omega
          · exact ih (i + 1) h r (by omega) (by omega)
      · simp [rd_lt h1, rd_ge h2] at h
    · simp [rd_ge h1] at h

/-- adjacent monotonicity gives monotonicity -/
theorem mono_of_adjacent (p : Array Nat) (row : Nat) (h : ∀ r, r < row → p[r]! ≤ p[r + 1]!) :
    ∀ a b, a ≤ b → b ≤ row → p[a]! ≤ p[b]! := by
  intro a b hab hb
  induction b with
  | zero => have : a = 0 := by omega
            subst this; exact Nat.le_refl _
  | succ b ih =>
    by_cases hab' : a = b + 1
    · subst hab'; exact Nat.le_refl _
    · have := ih (by omega) (by omega)
      have := h b (by omega)
      omega

/-- adjacent strict increase gives pairwise strict increase -/
theorem sortedOn_of_adjacent (j : Array Nat) (lo hi : Nat)
    (h : ∀ k, lo ≤ k → k + 1 < hi → j[k]! < j[k + 1]!) : SortedOn j lo hi := by
  intro a b ha hab hb
  induction b with
  | zero => omega
  | succ b ih =>
    by_cases hab' : a = b
    · subst hab'; exact h a ha hb
    · have := ih (by omega) (by omega)
      have := h b (by omega) hb
      omega

/-- **soundness of `is_canonical`**: arrays the library accepts are canonical in the strong sense,
provided the three properties it does not examine hold -/
theorem isCanonical_sound {m : Mat} (h : isCanonical m = .ok true) (hp0 : m.p[0]! = 0)
    (hcol : ∀ k, k < m.j.size → m.j[k]! < m.col)
    (hzero : m.j.size = 0 → ∀ r, r < m.row → m.p[r]! ≤ m.p[r + 1]!) : CanonCSR m := by
  unfold isCanonical at h
  by_cases hps : m.p.size = m.row + 1
  · have hrow : m.row < m.p.size := by omega
    have hne : ¬ m.p.size ≠ m.row + 1 := by omega
    simp only [hne, if_false, rd_lt hrow, ok_bind] at h
    by_cases hsz : m.j.size ≠ m.p[m.row]! ∨ m.x.size ≠ m.p[m.row]!
    · simp [hsz] at h
    · simp only [hsz, if_false] at h
      have hj : m.j.size = m.p[m.row]! := by omega
      have hx : m.x.size = m.p[m.row]! := by omega
      by_cases hz : m.p[m.row]! = 0
      · have hadj := hzero (by omega)
        refine { psize := hps, xsize := by omega, p0 := hp0, plast := hj.symm,
                 pmono := mono_of_adjacent m.p m.row hadj, sorted := ?_, jlt := hcol }
        intro i hi a b ha hab hb
        have := mono_of_adjacent m.p m.row hadj (i + 1) m.row (by omega) (Nat.le_refl _)
        omega
      · simp only [ne_eq, hz, not_false_eq_true, if_true] at h
        unfold hasCanonicalFormat at h
        cases hd : pDecreases m.p m.row 0 with
        | error e => simp [hd] at h
        | ok b =>
          cases b with
          | true => simp [hd] at h
          | false =>
            simp only [hd, ok_bind, Bool.false_eq_true, if_false] at h
            unfold hasSortedIndices at h
            cases hs : rowsAny (fun a b => decide (a > b)) m.p m.j m.row 0 with
            | error e => simp [hs] at h
            | ok b =>
              cases b with
              | true => simp [hs] at h
              | false =>
                simp only [hs, ok_bind, pure_ok, Bool.not_false, if_true] at h
                unfold hasDuplicates at h
                cases hdup : rowsAny (fun a b => a == b) m.p m.j m.row 0 with
                | error e => simp [hdup] at h
                | ok b =>
                  cases b with
                  | true => simp [hdup] at h
                  | false =>
                    have hadj := pDecreases_sound m.p m.row 0 hd
                    have hmono := mono_of_adjacent m.p m.row (fun r hr => hadj r (Nat.zero_le _) (by omega))
                    refine { psize := hps, xsize := by omega, p0 := hp0, plast := hj.symm,
                             pmono := hmono, sorted := ?_, jlt := hcol }
                    intro i hi
                    apply sortedOn_of_adjacent
                    intro k hk1 hk2
                    have a1 := ((rowsAny_sound _ m.p m.j m.row 0 hs i (Nat.zero_le _) (by omega)).2 k hk1 hk2).2
                    have a2 := ((rowsAny_sound _ m.p m.j m.row 0 hdup i (Nat.zero_le _) (by omega)).2 k hk1 hk2).2
                    simp at a1 a2
                    omega
  · simp [hps] at h

/-- the asserting constructor only returns canonical matrices (under the same three provisos) -/
theorem mk_sound {row col : Nat} {p j : Array Nat} {x : Array Q} {m : Mat}
    (h : CSR.mk row col p j x = .ok m) (hp0 : p[0]! = 0) (hcol : ∀ k, k < j.size → j[k]! < col)
    (hzero : j.size = 0 → ∀ r, r < row → p[r]! ≤ p[r + 1]!) :
    m = { row := row, col := col, p := p, j := j, x := x } ∧ CanonCSR m := by
  unfold CSR.mk at h
  cases hc : isCanonical { row := row, col := col, p := p, j := j, x := x } with
  | error e => simp [hc] at h
  | ok b =>
    cases b with
    | false => simp [hc] at h
    | true =>
      simp only [hc, ok_bind, if_true, pure_ok, Except.ok.injEq] at h
      subst h
      exact ⟨rfl, isCanonical_sound hc hp0 hcol hzero⟩

end SymVerif.C25
