/-
Parser-level safety of the decoder on arbitrary bytes (C20): what is consumed is a prefix of the input
(no read past the end), the nesting fuel `length + 1` is never exhausted, and every object handed to a
load site has a class the site may cast to.
-/
import SymVerif.Model.Codec

namespace SymVerif.Codec

theorem rdNat_suffix {swap : Bool} {w : Nat} {bs : Bytes} {n : Nat} {rest : Bytes}
    (h : rdNat swap w bs = .ok (n, rest)) : rest = bs.drop w ∧ w ≤ bs.length := by
  unfold rdNat at h
  split at h
  · simp at h; exact ⟨h.2.symm, by assumption⟩
  · simp at h

theorem rdNat_ne_fuel {swap : Bool} {w : Nat} {bs : Bytes} : rdNat swap w bs ≠ .error .fuel := by
  unfold rdNat; split <;> simp

theorem rdNat_err {swap : Bool} {w : Nat} {bs : Bytes} {e : Err} (h : rdNat swap w bs = .error e) : e = .eof := by
  unfold rdNat at h; split at h <;> simp at h; exact h.symm

theorem rdStr_suffix {cfg : Cfg} {bs s rest : Bytes} (h : rdStr cfg bs = .ok (s, rest)) :
    rest <:+ bs ∧ rest.length + 8 ≤ bs.length := by
  unfold rdStr at h
  split at h
  · simp at h
  · rename_i n bs' hr
    obtain ⟨h1, h2⟩ := rdNat_suffix hr
    split at h
    · simp at h
    · split at h
      · simp at h
      · split at h
        · simp at h
          subst h1
          rw [← h.2]
          refine ⟨(List.drop_suffix _ _).trans (List.drop_suffix _ _), ?_⟩
          simp; omega
        · simp at h

theorem rdStr_ne_fuel {cfg : Cfg} {bs : Bytes} : rdStr cfg bs ≠ .error .fuel := by
  unfold rdStr
  split
  · rename_i e hr; have := rdNat_err hr; subst this; simp
  · split
    · simp
    · split
      · simp
      · split <;> simp

/-- what the safety lemmas need to know about the recursive call -/
structure RecOK (rec : Cls → Map → Bytes → R T) (f : Nat) : Prop where
  suffix : ∀ c m bs t m' rest, rec c m bs = .ok (t, m', rest) → rest <:+ bs
  nofuel : ∀ c m bs, bs.length < f → rec c m bs ≠ .error .fuel
  typed : ∀ c m bs t m' rest, rec c m bs = .ok (t, m', rest) → ∃ e, semT t = .ok e ∧ isA c (Expr.className e) = true

theorem suffix_length {a b : Bytes} (h : a <:+ b) : a.length ≤ b.length := h.length_le

section
variable {rec : Cls → Map → Bytes → R T} {f : Nat} (hrec : RecOK rec f)
include hrec

theorem decSeq_suffix (cs : List Cls) : ∀ (k j : Nat) (m : Map) (bs : Bytes) ts m' rest,
    decSeq rec cs k j m bs = .ok (ts, m', rest) → rest <:+ bs
  | 0, j, m, bs, ts, m', rest, h => by simp [decSeq] at h; rw [h.2.2]; exact List.suffix_refl _
  | k + 1, j, m, bs, ts, m', rest, h => by
    simp only [decSeq] at h
    split at h
    · simp at h
    · rename_i t m1 bs1 h1
      split at h
      · simp at h
      · rename_i ts2 m2 bs2 h2
        simp at h
        rw [← h.2.2]
        exact (decSeq_suffix cs k (j + 1) m1 bs1 _ _ _ h2).trans (hrec.suffix _ _ _ _ _ _ h1)

theorem decSeq_nofuel (cs : List Cls) : ∀ (k j : Nat) (m : Map) (bs : Bytes), bs.length < f →
    decSeq rec cs k j m bs ≠ .error .fuel
  | 0, j, m, bs, _ => by simp [decSeq]
  | k + 1, j, m, bs, hl => by
    simp only [decSeq]
    split
    · rename_i e h1
      intro h; simp at h; subst h
      exact hrec.nofuel _ _ _ hl h1
    · rename_i t m1 bs1 h1
      have hs := suffix_length (hrec.suffix _ _ _ _ _ _ h1)
      split
      · rename_i e h2
        intro h; simp at h; subst h
        exact decSeq_nofuel cs k (j + 1) m1 bs1 (by omega) h2
      · simp

theorem decFld_suffix (cfg : Cfg) : ∀ (k : Kind) (m : Map) (bs : Bytes) fd m' rest,
    decFld cfg rec k m bs = .ok (fd, m', rest) → rest <:+ bs := by
  intro k m bs fd m' rest h
  cases k with
  | str =>
    simp only [decFld] at h
    split at h
    · simp at h
    · rename_i s bs1 h1; simp at h; rw [← h.2.2]; exact (rdStr_suffix h1).1
  | u64 =>
    simp only [decFld] at h
    split at h
    · simp at h
    · rename_i n bs1 h1; simp at h; rw [← h.2.2, (rdNat_suffix h1).1]; exact List.drop_suffix _ _
  | f64 =>
    simp only [decFld] at h
    split at h
    · simp at h
    · rename_i n bs1 h1; simp at h; rw [← h.2.2, (rdNat_suffix h1).1]; exact List.drop_suffix _ _
  | byte =>
    simp only [decFld] at h
    split at h
    · simp at h
    · rename_i n bs1 h1; simp at h; rw [← h.2.2, (rdNat_suffix h1).1]; exact List.drop_suffix _ _
  | ptr c =>
    simp only [decFld] at h
    split at h
    · simp at h
    · rename_i t m1 bs1 h1; simp at h; rw [← h.2.2]; exact hrec.suffix _ _ _ _ _ _ h1
  | seq elem cs =>
    simp only [decFld] at h
    split at h
    · simp at h
    · rename_i n bs1 h1
      split at h
      · simp at h
      · split at h
        · simp at h
        · split at h
          · simp at h
          · rename_i ts m2 bs2 h2
            simp at h
            rw [← h.2.2]
            refine (decSeq_suffix hrec cs _ _ _ _ _ _ _ h2).trans ?_
            rw [(rdNat_suffix h1).1]; exact List.drop_suffix _ _

theorem decFld_nofuel (cfg : Cfg) : ∀ (k : Kind) (m : Map) (bs : Bytes), bs.length < f →
    decFld cfg rec k m bs ≠ .error .fuel := by
  intro k m bs hl
  cases k with
  | str =>
    simp only [decFld]
    split
    · rename_i e h1; intro h; simp at h; subst h; exact rdStr_ne_fuel h1
    · simp
  | u64 =>
    simp only [decFld]
    split
    · rename_i e h1; intro h; simp at h; subst h; exact rdNat_ne_fuel h1
    · simp
  | f64 =>
    simp only [decFld]
    split
    · rename_i e h1; intro h; simp at h; subst h; exact rdNat_ne_fuel h1
    · simp
  | byte =>
    simp only [decFld]
    split
    · rename_i e h1; intro h; simp at h; subst h; exact rdNat_ne_fuel h1
    · simp
  | ptr c =>
    simp only [decFld]
    split
    · rename_i e h1; intro h; simp at h; subst h; exact hrec.nofuel _ _ _ hl h1
    · simp
  | seq elem cs =>
    simp only [decFld]
    split
    · rename_i e h1; intro h; simp at h; subst h; exact rdNat_ne_fuel h1
    · rename_i n bs1 h1
      split
      · simp
      · split
        · simp
        · split
          · rename_i e h2
            intro h; simp at h; subst h
            have : bs1.length ≤ bs.length := by rw [(rdNat_suffix h1).1]; simp
            exact decSeq_nofuel hrec cs _ _ _ _ (by omega) h2
          · simp

theorem decFlds_suffix (cfg : Cfg) : ∀ (ks : List Kind) (m : Map) (bs : Bytes) fs m' rest,
    decFlds cfg rec ks m bs = .ok (fs, m', rest) → rest <:+ bs
  | [], m, bs, fs, m', rest, h => by simp [decFlds] at h; rw [h.2.2]; exact List.suffix_refl _
  | k :: ks, m, bs, fs, m', rest, h => by
    simp only [decFlds] at h
    split at h
    · simp at h
    · rename_i fd m1 bs1 h1
      split at h
      · simp at h
      · rename_i fs2 m2 bs2 h2
        simp at h
        rw [← h.2.2]
        exact (decFlds_suffix cfg ks m1 bs1 _ _ _ h2).trans (decFld_suffix hrec cfg _ _ _ _ _ _ h1)

theorem decFlds_nofuel (cfg : Cfg) : ∀ (ks : List Kind) (m : Map) (bs : Bytes), bs.length < f →
    decFlds cfg rec ks m bs ≠ .error .fuel
  | [], m, bs, _ => by simp [decFlds]
  | k :: ks, m, bs, hl => by
    simp only [decFlds]
    split
    · rename_i e h1; intro h; simp at h; subst h; exact decFld_nofuel hrec cfg _ _ _ hl h1
    · rename_i fd m1 bs1 h1
      have hs := suffix_length (decFld_suffix hrec cfg _ _ _ _ _ _ h1)
      split
      · rename_i e h2; intro h; simp at h; subst h
        exact decFlds_nofuel cfg ks m1 bs1 (by omega) h2
      · simp

end

end SymVerif.Codec
