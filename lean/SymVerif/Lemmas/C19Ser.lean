/-
`semT (toT e) = e` and `toT e` is well formed, for serialisable expressions (C19):
what load_basic builds from what save_basic wrote is the original object.
-/
import SymVerif.Lemmas.C19Sem
import SymVerif.Lemmas.C19Round

namespace SymVerif.Codec
open SymVerif.Gen.SerialCodes

def intOK (n : Int) : Prop := (intBytes n).length < 65536

def qOK (q : Q) : Prop := intOK q.num ∧ intOK q.den ∧ (q.den = 1 ∨ (2 ≤ q.den ∧ Nat.gcd q.num.natAbs q.den = 1))

def strOK (s : String) : Prop := nameOK s = true ∧ s.toList.length < 65536

mutual
  /-- expressions in the fragment of the round-trip theorem, at a load site of static type `c` -/
  def Ser : Cls → Expr → Prop
    | c, .int n => isA c "Integer" = true ∧ intOK n
    | c, .rat n d => isA c "Rational" = true ∧ qOK ⟨n, d⟩ ∧ 2 ≤ d
    | c, .cplx re im => isA c "Complex" = true ∧ qOK re ∧ qOK im ∧ im.num ≠ 0
    | c, .dbl _ => isA c "RealDouble" = true
    | c, .cdbl _ _ => isA c "ComplexDouble" = true
    | c, .infty d => isA c "Infty" = true ∧ intOK d
    | c, .nan => isA c "NaN" = true
    | c, .sym s => isA c "Symbol" = true ∧ strOK s
    | c, .dummy s i => isA c "Dummy" = true ∧ strOK s ∧ i < 2 ^ 64
    | c, .const s => isA c "Constant" = true ∧ strOK s
    | c, .add co ts => isA c "Add" = true ∧ Ser .number co ∧ SerPairs .basic .number ts
        ∧ (ts.map fun p => Expr.dumpCanon p.1).Nodup ∧ ts.length < 65536
    | c, .mul co ts => isA c "Mul" = true ∧ Ser .number co ∧ SerPairs .basic .basic ts
        ∧ (ts.map fun p => Expr.dumpCanon p.1).Nodup ∧ ts.length < 65536
    | c, .pow b e => isA c "Pow" = true ∧ Ser .basic b ∧ Ser .basic e
    | c, .fsym n args => isA c "FunctionSymbol" = true ∧ strOK n ∧ SerAll .basic args ∧ args.length < 65536
    | c, .bool _ => isA c "BooleanAtom" = true
    | c, .app h args => h ∈ names ∧ isA c h = true ∧ args.length < 65536 ∧
        ((∃ cs, kindOfName h = .args cs ∧ SerArgs cs args) ∨
         (∃ el c' dd, kindOfName h = .vec el c' dd ∧ SerAll c' args ∧ (dd = true → (args.map Expr.dumpCanon).Nodup)))
  def SerArgs : List Cls → List Expr → Prop
    | [], [] => True
    | c :: cs, a :: as => Ser c a ∧ SerArgs cs as
    | [], _ :: _ => False
    | _ :: _, [] => False
  def SerAll : Cls → List Expr → Prop
    | _, [] => True
    | c, a :: as => Ser c a ∧ SerAll c as
  def SerPairs : Cls → Cls → List (Expr × Expr) → Prop
    | _, _, [] => True
    | ck, cv, (k, v) :: t => Ser ck k ∧ Ser cv v ∧ SerPairs ck cv t
end

section
variable (cap : Nat) (hcap : 2 ^ 20 ≤ cap) (lab : List Nat → UInt64)
include hcap

theorem wf_str {s : Bytes} (h : s.length < 65536) : WfFld cap .str (.str s) := by
  simp only [WfFld]; omega

theorem intNode_ok (p : List Nat) (n : Int) (c : Cls) (hc : isA c "Integer" = true) (hn : intOK n) :
    semT (intNode lab p n) = .ok (.int n) ∧ WfT cap c (intNode lab p n) := by
  have hs : semT (intNode lab p n) = .ok (.int n) := by
    simp only [intNode, semT, semFlds, semFld]
    rw [show className (codeOf "Integer") = "Integer" from by decide,
        show kindOfName "Integer" = NK.integer from by decide]
    simp [build, validInt_intBytes, parseInt_intBytes]
  refine ⟨hs, ?_⟩
  unfold intNode at hs ⊢
  refine ⟨by decide, ⟨[.str], by decide, ⟨wf_str cap hcap hn, trivial⟩⟩, ⟨_, hs, hc⟩, ?_⟩
  rw [show className (codeOf "Integer") = "Integer" from by decide]; exact hc

theorem dblNode_ok (p : List Nat) (b : UInt64) (c : Cls) (hc : isA c "RealDouble" = true) :
    semT (dblNode lab p b) = .ok (.dbl b) ∧ WfT cap c (dblNode lab p b) := by
  have hs : semT (dblNode lab p b) = .ok (.dbl b) := by
    simp only [dblNode, semT, semFlds, semFld]
    rw [show className (codeOf "RealDouble") = "RealDouble" from by decide,
        show kindOfName "RealDouble" = NK.rdouble from by decide]
    simp [build]
  refine ⟨hs, ?_⟩
  unfold dblNode at hs ⊢
  refine ⟨by decide, ⟨[.f64], by decide, ⟨trivial, trivial⟩⟩, ⟨_, hs, hc⟩, ?_⟩
  rw [show className (codeOf "RealDouble") = "RealDouble" from by decide]; exact hc

/-- a Rational object: two Integer temporaries -/
theorem ratNode_ok (p : List Nat) (n : Int) (d : Nat) (c : Cls) (hc : isA c "Rational" = true)
    (hn : intOK n) (hd : intOK d) (h2 : 2 ≤ d) (hg : Nat.gcd n.natAbs d = 1) :
    let t := T.mk (lab p) (codeOf "Rational") [.ptr (intNode lab (p ++ [0]) n), .ptr (intNode lab (p ++ [1]) d)]
    semT t = .ok (.rat n d) ∧ WfT cap c t := by
  intro t
  obtain ⟨s1, w1⟩ := intNode_ok cap hcap lab (p ++ [0]) n .integer (by decide) hn
  obtain ⟨s2, w2⟩ := intNode_ok cap hcap lab (p ++ [1]) d .integer (by decide) hd
  have hs : semT t = .ok (.rat n d) := by
    simp only [t, semT, semFlds, semFld, s1, s2]
    rw [show className (codeOf "Rational") = "Rational" from by decide,
        show kindOfName "Rational" = NK.rational from by decide]
    simp [build, fromTwoInts_canon n d h2 hg]
  refine ⟨hs, by decide, ⟨[.ptr .integer, .ptr .integer], by decide, ⟨w1, w2, trivial⟩⟩, ⟨_, hs, hc⟩, ?_⟩
  rw [show className (codeOf "Rational") = "Rational" from by decide]; exact hc

theorem qNode_ok (p : List Nat) (q : Q) (hq : qOK q) :
    ∃ e, semT (qNode lab p q) = .ok e ∧ qOf e = some q ∧ WfT cap .number (qNode lab p q) ∧
      (q.den ≠ 1 → e = .rat q.num q.den) := by
  obtain ⟨hn, hd, hcase⟩ := hq
  unfold qNode
  rcases hcase with h1 | ⟨h2, hg⟩
  · have : (q.den == 1) = true := by simp [h1]
    simp only [this, if_true]
    obtain ⟨s, w⟩ := intNode_ok cap hcap lab p q.num .number (by decide) hn
    refine ⟨.int q.num, s, ?_, w, fun h => absurd h1 h⟩
    cases q; simp_all [qOf]
  · have : (q.den == 1) = false := by simp; omega
    simp only [this, Bool.false_eq_true, if_false]
    obtain ⟨s, w⟩ := ratNode_ok cap hcap lab p q.num q.den .number (by decide) hn hd h2 hg
    exact ⟨.rat q.num q.den, s, by cases q; simp [qOf], w, fun _ => rfl⟩

end

end SymVerif.Codec
