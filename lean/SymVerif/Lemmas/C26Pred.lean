import SymVerif.Lemmas.C26Sem
/-!
Soundness of the predicate visitors (`evalPred`) with respect to the value of the expression:
leaf classes.
-/
namespace SymVerif.MatExpr
open MExpr

theorem Tri.ofBool_t (b : Bool) : Tri.ofBool b = .t ↔ b = true := by cases b <;> simp [Tri.ofBool]
theorem Tri.ofBool_f (b : Bool) : Tri.ofBool b = .f ↔ b = false := by cases b <;> simp [Tri.ofBool]
theorem Tri.ofBool_ne_u (b : Bool) : Tri.ofBool b ≠ .u := by cases b <;> simp [Tri.ofBool]

/-- what the answers of a visitor must mean -/
def Sound (env : Env) (p : Pred) (e : MExpr) : Prop :=
  (evalPred p e = .t → (valOf env e).Holds p) ∧ (evalPred p e = .f → ¬ (valOf env e).Holds p)

theorem evalPredList_eq_map (p : Pred) (l : List MExpr) :
    evalPredList p l = l.map (evalPred p) := by
  induction l with
  | nil => simp [evalPredList]
  | cons e t ih => simp [evalPredList, ih]

theorem dimMatch_t {env : Env} {a b : Dim} (h : dimMatch a b = .t) : a.eval env = b.eval env := by
  cases a <;> cases b <;> simp [dimMatch] at h <;> simp [Dim.eval, h]

theorem dimMatch_f {env : Env} {a b : Dim} (h : dimMatch a b = .f) : a.eval env ≠ b.eval env := by
  cases a <;> cases b <;> simp only [dimMatch] at h <;> (try split at h) <;> simp_all [Dim.eval]

theorem GQ.one_ne_zero' : (1 : GQ) ≠ 0 := by
  intro h
  have := congrArg GQ.re h
  simp at this

/-! ### IdentityMatrix -/

theorem sound_ident (env : Env) (p : Pred) (n : Dim) (hpos : 0 < n.eval env) :
    Sound env p (ident n) := by
  constructor
  · intro h
    cases p <;> simp [evalPred, leafPred] at h <;>
      simp [valOf, Val.Holds, Val.IsDiagonal, Val.IsSymmetric, Val.IsLower, Val.IsUpper,
        Val.IsReal, Val.IsSquare, Val.IsToeplitz]
    · intro i j _ _ hij; simp [hij]
    · intro i j _ _; by_cases h : i = j <;> simp [h, eq_comm]
    · intro i j _ _ hij; simp [Nat.ne_of_lt hij]
    · intro i j _ _ hij; simp [Nat.ne_of_gt hij]
    · intro i j _ _; split <;> simp
  · intro h
    cases p <;> simp [evalPred, leafPred] at h
    simp only [valOf, Val.Holds, Val.IsZero]
    intro hz
    have := hz 0 0 hpos hpos
    simp at this
    exact GQ.one_ne_zero' this

/-! ### ZeroMatrix -/

theorem sound_zero (env : Env) (p : Pred) (r c : Dim) : Sound env p (zero r c) := by
  constructor
  · intro h
    cases p <;> simp [evalPred, leafPred, squareZero] at h <;>
      simp [valOf, Val.Holds, Val.IsZero, Val.IsDiagonal, Val.IsSymmetric, Val.IsLower, Val.IsUpper,
        Val.IsReal, Val.IsSquare, Val.IsToeplitz] <;> exact dimMatch_t h
  · intro h
    cases p <;> simp [evalPred, leafPred, squareZero] at h <;>
      simp only [valOf, Val.Holds, Val.IsDiagonal, Val.IsSymmetric, Val.IsLower, Val.IsUpper,
        Val.IsSquare] <;> intro hh <;> first | exact dimMatch_f h hh.1 | exact dimMatch_f h hh

/-! ### DiagonalMatrix -/

theorem getD_mem_or_default (l : List GQ) (i : Nat) : l.getD i 0 ∈ l ∨ l.getD i 0 = 0 := by
  by_cases h : i < l.length
  · left; rw [List.getD_eq_getElem?_getD, List.getElem?_eq_getElem h]; exact List.getElem_mem h
  · right; rw [List.getD_eq_getElem?_getD, List.getElem?_eq_none (by omega)]; rfl

theorem exists_idx_of_mem {l : List GQ} {x : GQ} (h : x ∈ l) : ∃ k, k < l.length ∧ l.getD k 0 = x := by
  obtain ⟨k, hk, rfl⟩ := List.getElem_of_mem h
  exact ⟨k, hk, by rw [List.getD_eq_getElem?_getD, List.getElem?_eq_getElem hk]; rfl⟩

/-- a Toeplitz matrix is constant along each diagonal -/
theorem toeplitz_diag {v : Val} (h : v.IsToeplitz) (i j k : Nat) (hi : i + k < v.r) (hj : j + k < v.c) :
    v.f i j = v.f (i + k) (j + k) := by
  induction k with
  | zero => rfl
  | succ n ih =>
    rw [ih (by omega) (by omega)]
    have := h (i + n) (j + n) (by omega) (by omega)
    rw [this]; rfl

theorem sound_diag (env : Env) (p : Pred) (d : List GQ) : Sound env p (diag d) := by
  constructor
  · intro h
    cases p <;> simp [evalPred, leafPred, Tri.ofBool_t] at h <;>
      simp only [valOf, Val.Holds, Val.IsZero, Val.IsDiagonal, Val.IsSymmetric, Val.IsLower,
        Val.IsUpper, Val.IsReal, Val.IsSquare, Val.IsToeplitz]
    · intro i j _ _
      split
      · rcases getD_mem_or_default d i with hm | hm
        · exact h _ hm
        · exact hm
      · rfl
    · exact ⟨trivial, fun i j _ _ hij => by simp [hij]⟩
    · refine ⟨trivial, fun i j _ _ => ?_⟩
      by_cases hij : i = j <;> simp [hij, eq_comm]
    · exact ⟨trivial, fun i j _ _ hij => by simp [Nat.ne_of_lt hij]⟩
    · exact ⟨trivial, fun i j _ _ hij => by simp [Nat.ne_of_gt hij]⟩
    · intro i j _ _
      split
      · rcases getD_mem_or_default d i with hm | hm
        · have := h _ hm; simpa [GQ.isReal] using this
        · rw [hm]; rfl
      · rfl
    · -- toeplitz: all entries equal the first
      intro i j hi hj
      cases d with
      | nil => simp at hi
      | cons a rest =>
        simp [Tri.ofBool_t] at h
        have hall : ∀ k, k < (a :: rest).length → (a :: rest).getD k 0 = a := by
          intro k hk
          cases k with
          | zero => simp
          | succ m =>
            simp at hk
            have hm : rest[m] ∈ rest := List.getElem_mem hk
            have := h _ hm
            simp [List.getD_eq_getElem?_getD, hk]
            exact (sub_eq_zero.1 this).symm
        by_cases hij : i = j
        · subst hij
          rw [if_pos rfl, if_pos rfl, hall i (by omega), hall (i + 1) (by omega)]
        · have : ¬ (i + 1 = j + 1) := by omega
          simp [hij]
  · intro h
    cases p <;> simp [evalPred, leafPred, Tri.ofBool_f] at h <;>
      simp only [valOf, Val.Holds, Val.IsZero, Val.IsReal, Val.IsToeplitz]
    · obtain ⟨x, hx, hx0⟩ := h
      obtain ⟨k, hk, rfl⟩ := exists_idx_of_mem hx
      intro hz
      have := hz k k hk hk
      simp at this
      exact hx0 this
    · obtain ⟨x, hx, hx0⟩ := h
      obtain ⟨k, hk, rfl⟩ := exists_idx_of_mem hx
      intro hz
      have := hz k k hk hk
      simp at this
      simp [GQ.isReal] at hx0
      exact hx0 this
    · cases d with
      | nil => simp at h
      | cons a rest =>
        simp [Tri.ofBool_f] at h
        obtain ⟨x, hx, hx0⟩ := h
        obtain ⟨k, hk, hkx⟩ := List.getElem_of_mem hx
        intro ht
        have := toeplitz_diag (v := valOf env (diag (a :: rest))) ht 0 0 (k + 1)
          (by simp [valOf]; omega) (by simp [valOf]; omega)
        simp [valOf, List.getD_eq_getElem?_getD, hk, hkx] at this
        exact hx0 (sub_eq_zero.2 this)

end SymVerif.MatExpr
